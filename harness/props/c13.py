"""C13 — incremental parsing is independent of how the input is fragmented.

1. obligations: translator harness/translate_incr.py -> Generated/Incr.lean (the three scanner shapes the model is
   written for: match-length test of scan_regex, byte-boundary guard of _consume, wide-unit refusal of scan_bit),
   Props/C13.lean (lake build, axiom audit) + driver drv_incr
2. real code, every case in a worker process with a hard time limit (harness/impl/incr_real.py):
   for every generated (grammar, input) ALL 2^(n-1) compositions (n <= 10; longer inputs sampled):
   new_parse / consume(piece)… / can_continue after every piece
   property observed on the real code alone:
     (a) the complete parses after the last piece = those of the whole input fed at once
     (b) can_continue() = False after a prefix  =>  no extension of that prefix is accepted
         (the rest of the input, fuzzed members, all extensions by <= 2 units)
     (a') the protocol path: the input handed to FandangoIO.add_receive in chunks -> one-unit fragments ->
         parse_next_remote_packet (virtual clock) = the incremental parser fed the same fragments; its tree is
         among the complete parses of the consumed prefix supplied at once; no longer prefix is accepted at once
   Known finding C13/regex-nongreedy-split (scan_regex offers ONE `re.match` length per scan, so a fragment
   boundary inside a regex match offers one more length): reported under that signature only if the result of
   EVERY composition equals the exact prediction of that behaviour (incr_real.predict_split); anything else is
   a violation.
3. correspondence with the Lean model:
     (c) every recorded call of scan_bytes / scan_regex / scan_bit (state flags, prefix, rest of the
         fragment, column) vs scanEntry of the model: same states added to the same columns
     (d) for grammars that are finite unions of terminal sequences: the model's `feed` on the same pieces —
         complete parses (as leaf sequences), resumable incomplete states and can_continue after every piece
     (d') for EVERY grammar: the model's `feed` on the engine of the REAL closure (Model/IncrEarley.lean:
         earleyEngine — Earley.step of the line-by-line Earley model for predict / complete / pending completions /
         covering cut / place_repetition_shortcut, scanning through the scanner layer) on the same pieces —
         complete parses as whole collapsed trees, resumable incomplete states and can_continue after every piece,
         exact agreement; per piece the driver also reports whether every column pass is one the laws are PROVED
         for (came to its end, covering cut did not fire, no `*` / `+` right-recursion state in the closed column):
         the share of pieces inside the proof is printed (coverage.erun)
     (e) the hypotheses of the theorems per case: CutStable of the regex oracle on all infixes of the input
         (against `re` / `regex`)
     (f) observation (no verdict): the CHART of the real parser depends on the fragmentation where
         place_repetition_shortcut has two candidates (Props/C13.lean: C13_earley_close_core_needs_ok) while the
         parses do not — the documented witness is replayed and the outcome recorded (coverage.chart_probe)
   Besides the general classes the generator has five classes aimed at the parser repairs of the last session —
   empty-regex (179bde08), mixed-bits (a33087ac), wide-char (1ef12755), open-rep (b48dd899), nullable-pred
   (1d73281f) — each with a characteristic event that is counted (`hit:<class>`); a class without a single hit
   is a machinery error (a degenerate generator must not look like agreement).
"""
from __future__ import annotations

import json
import os
import re
from typing import Any

from harness import translate_earley, translate_incr
from harness.common import VERIF, MachineryError, Run, driver_ask, lean_check, use_repo
from harness.gen.grammars import CORNER_SPECS, gen_spec
from harness.impl.pool import run_pool

PID = "C13"
SIG_SPLIT = "C13/regex-nongreedy-split"
CORPUS = VERIF / "corpus" / "C13"
NEW_CLASSES = ["empty-regex", "mixed-bits", "wide-char", "open-rep", "nullable-pred"]

CHART_SPEC = '<start> ::= <b>*\n<b> ::= "x" | "ab" "c" | "a" "bc"\n'
EARLEY_FUEL = 20000      # steps per column pass of the engine of the real closure

TRUSTED = [
    "Lean 4.33.0 kernel; axioms ⊆ {propext, Classical.choice, Quot.sound} (audited per run)",
    "hand-written scanner model lean/Model/Incremental.lean of scan_bytes/scan_regex/scan_bit/_consume/"
    "can_continue; tied by this run's scan-call correspondence and (linear grammars) whole-run correspondence, "
    "and by the translator harness/translate_incr.py (pins the AST of the match-length test of scan_regex, of "
    "the byte-boundary guard of _consume and of the wide-unit refusal of scan_bit: C13_source_configuration)",
    "the predict/complete closure: the laws Engine.LawfulOn/LawfulCCOn are PROVED for the engine of the real "
    "closure (Model/IncrEarley.lean, built from Earley.step of Model/Earley.lean; tied by this run's whole-run "
    "correspondence (d') on every grammar and by harness/translate_earley.py: C13_closure_configuration) for the "
    "column passes that end within the fuel, without the covering cut firing and without a `*`/`+` "
    "right-recursion state in the closed column; outside these passes (share printed per run) the property rests "
    "on the differential observation (a),(b)",
    "regex oracle = CPython `re.match` and `regex` partial matching, asked the way Terminal.check asks; "
    "CutStable is evaluated per case on all infixes of the input",
    "harness/impl/incr_real.py (instrumentation, linearisation of non-recursive grammars), "
    "harness/impl/grammar_io.py (IR JSON of the grammar for the engine of the real closure), "
    "harness/gen/grammars.py",
]


def _w(x) -> list[int]:
    return [ord(c) for c in x] if isinstance(x, str) else list(x)


def load_corpus() -> list[dict]:
    out = []
    if CORPUS.is_dir():
        for f in sorted(CORPUS.glob("*.json")):
            c = json.loads(f.read_text())
            out.append({"spec": c["spec"], "kind": c["kind"], "cls": c.get("cls", "corpus"),
                        "features": ["corpus"] + c.get("features", []), "words": c["words"]})
    return out


BIT_RULE = "<b> ::= 0 | 1\n"


def gen_empty_regex(rng) -> dict:
    """regexes that match the empty string: before another symbol, alone, at the end, under ? / * / {n,m}, next
    to each other, inside a nonterminal"""
    eps_re = ['r"[0-9]*"', 'r"a?"', 'r"a*"', 'r"(xy)*"', 'r"(ab)?"', 'r"[a-c]{0,2}"', 'r"b?"']
    lits = ['"x"', '"ab"', '"a"', '"b"', '"xy"', '"1"']
    r1, r2 = rng.choice(eps_re), rng.choice(eps_re)
    l1, l2 = rng.choice(lits), rng.choice(lits)
    shape = rng.choice(["before", "alone", "end", "opt", "star", "two", "nt", "alt", "mid", "rep"])
    body, rules = {
        "before": (f"{r1} {l1}", ""),
        "alone": (f"({r1})", ""),
        "end": (f"{l1} {r1}", ""),
        "opt": (f"({r1})? {l1}", ""),
        "star": (f"({r1} {l1})* {l2}", ""),
        "two": (f"{r1} {r2} {l1}", ""),
        "nt": (f"<n> {l1} <n>", f"<n> ::= {r1}\n"),
        "alt": (f"{r1} {l1} | {l1} {r1} | {l2}", ""),
        "mid": (f"{l1} {r1} {l2}", ""),
        "rep": (f"({r1}){{0,2}} {l1}", ""),
    }[shape]
    # inputs: the fuzzer's members + short words over the units the spec mentions (non-members, empty matches)
    alpha = sorted({ord(c) for c in "ab1x"} | {ord(c) for c in l1 + l2 if c not in '"'})
    extra = [[rng.choice(alpha) for _ in range(rng.randint(1, 4))] for _ in range(3)]
    extra += [_w(l1.strip('"')), _w(l1.strip('"') + l2.strip('"'))]
    return {"spec": f"<start> ::= {body}\n{rules}", "kind": "str", "cls": "empty-regex",
            "features": ["empty-regex", "eps-" + shape], "extra_words": extra}


def gen_mixed_bits(rng) -> dict:
    """bit groups whose sizes are not multiples of eight next to text / bytes / regex terminals"""
    payload = ['b"a"', 'b"ab"', 'rb"a*"', 'rb"[a-c]"', '"a"', 'b"\\xff"', 'rb"[\\x00-\\xff]"']
    parts = []
    for _ in range(rng.randint(2, 4)):
        x = rng.random()
        if x < 0.55:
            n = rng.choice([1, 3, 4, 4, 5, 7, 8, 9, 12])
            parts.append(rng.choice([f"<b>{{{n}}}", " ".join(rng.choice("01") for _ in range(min(n, 8)))]))
        elif x < 0.65:
            parts.append("<b>*")
        else:
            parts.append(rng.choice(payload))
    if not any("<b>" in p or p[0] in "01" for p in parts):
        parts.insert(0, "<b>{4}")
    if all("<b>" in p or p[0] in "01" for p in parts):
        parts.insert(rng.randint(1, len(parts)), rng.choice(payload))
    units = [0x61, 0x62, 0x1F, 0x6A, 0xFF, 0x16]
    extra = [[rng.choice(units) for _ in range(rng.randint(1, 4))] for _ in range(4)]
    return {"spec": "<start> ::= " + " ".join(parts) + "\n" + BIT_RULE, "kind": "bytes", "cls": "mixed-bits",
            "features": ["mixed-bits"], "extra_words": extra}


def gen_wide_char(rng) -> dict:
    """bit grammars fed text with characters above U+00FF (and their low bytes, as controls)"""
    body = rng.choice(['<b>{8}', '<b>{8} "š"', '(<b>{8})*', '<b>{8} r"[^a]"', '"š" <b>{8}', '<b>{4} <b>{4} <b>{8}',
                       '0 1 1 0 0 0 0 1', '(<b>{8} | "š") "a"', '<b>{8} "日"?'])
    chars = ["š", "a", "日", "ā", "é", "š"]
    extra = [_w("".join(rng.choice(chars) for _ in range(rng.randint(1, 3)))) for _ in range(4)]
    extra.append(_w("š"))
    return {"spec": f"<start> ::= {body}\n" + BIT_RULE, "kind": "str", "cls": "wide-char",
            "features": ["wide-char"], "extra_words": extra}


def gen_open_rep(rng, quick: bool) -> dict:
    """open-ended {n,} repetitions, inputs beyond 20 iterations (the generator's cap is not a parser cap)"""
    n = rng.choice([0, 1, 2, 3, 21])
    item, unit = rng.choice([('"a"', "a"), ('("ab")', "ab"), ('r"[0-9]"', "7"), ('<x>', "a"), ('"é"', "é")])
    tail, tl = rng.choice([("", ""), (' "b"', "b"), (' "a"', "a")])
    rules = '<x> ::= "a" | "c"\n' if item == "<x>" else ""
    k = rng.choice([21, 22, 25] if quick else [21, 23, 30, 41])
    words = [_w(unit * k + tl), _w(unit * (k + 1) + tl), _w(unit * 20 + tl)]
    if tl:
        words.append(_w(unit * k))
    return {"spec": f"<start> ::= {item}{{{n},}}{tail}\n{rules}", "kind": "str", "cls": "open-rep",
            "features": ["open-rep"], "words": words, "exhaust_len": 8, "sample_comps": 24 if quick else 60}


def gen_nullable_pred(rng) -> dict:
    """a nullable nonterminal that is completed (empty) in a column before another state that waits for it is
    added to that column (the shape of 1d73281f)"""
    spec, words = rng.choice([
        ('<start> ::= <a> <b> "x"\n<a> ::= <b>\n<b> ::= "y"?\n', ["x", "yx", "yyx", "y"]),
        ('<start> ::= <s1> <s2>\n<s1> ::= "a" <s2>\n<s2> ::= "b"?\n', ["a", "ab", "abb"]),
        ('<start> ::= <e> <e> "x"\n<e> ::= "" | "y"\n', ["x", "yx", "yyx"]),
        ('<start> ::= <a> <a>\n<a> ::= <e> | "z"\n<e> ::= ""\n', ["z", "zz"]),
        ('<start> ::= <o> <p> <o> "end"\n<o> ::= "ab"?\n<p> ::= <o> "c"?\n', ["end", "abend", "abcabend", "ababend"]),
        ('<start> ::= <l> "." <l>\n<l> ::= <d>*\n<d> ::= "0" | "1"\n', [".", "1.", ".01", "10.01"]),
        ('<start> ::= <h>{2} "k"\n<h> ::= <i>?\n<i> ::= "i"\n', ["k", "ik", "iik"]),
        ('<start> ::= <a> <b> <c>\n<a> ::= <b>\n<b> ::= <c>\n<c> ::= "c"?\n', ["c", "cc", "ccc"]),
    ])
    return {"spec": spec, "kind": "str", "cls": "nullable-pred", "features": ["nullable-pred"],
            "words": [_w(x) for x in words]}


NEW_FIXED = [
    # the inputs named in the commit messages of the repairs, and the Lean examples
    ('<start> ::= r"[0-9]*" "x"\n', "str", "empty-regex", ["x", "1x", "12x", "12", "xx"]),
    ('<start> ::= (r"a*")\n', "str", "empty-regex", ["a", "aaa", "aab", "b"]),
    ('<start> ::= r"a?" "b" | "b" r"a?"\n', "str", "empty-regex", ["b", "ab", "ba", "aab"]),
    ('<start> ::= "a" r"b*"\n', "str", "empty-regex", ["a", "ab", "abb", "ac"]),
    ('<start> ::= (r"[0-9]*")? "x"\n', "str", "empty-regex", ["x", "7x"]),
    ('<start> ::= (r"a?" "b")* "c"\n', "str", "empty-regex", ["c", "bc", "abbc", "ababc"]),
    ('<start> ::= r"(ab)?" <y>\n<y> ::= "ab" | ""\n', "str", "empty-regex", ["ab", "abab", "a"]),
    ('<start> ::= <b>{4} b"a" <b>{4}\n' + BIT_RULE, "bytes", "mixed-bits", [b"a\x1f", b"\x6a\x1f", b"\x6a"]),
    ('<start> ::= <b>{4} <b>{4} b"a"\n' + BIT_RULE, "bytes", "mixed-bits", [b"ja", b"j", b"jab"]),
    ('<start> ::= <b>{3} rb"a*" <b>{5} b"x"\n' + BIT_RULE, "bytes", "mixed-bits", [b"jx", b"jax", b"x"]),
    ('<start> ::= 0 1 1 0 b"a" 1 1 1 1 | 0 1 1 0 0 0 0 1 b"a"\n', "bytes", "mixed-bits", [b"a\x1f", b"aa", b"a"]),
    ('<start> ::= <b>{8}\n' + BIT_RULE, "str", "wide-char", ["š", "a", "ša"]),
    ('<start> ::= <b>{8} "š"\n' + BIT_RULE, "str", "wide-char", ["aš", "šš", "aa"]),
    ('<start> ::= 0 1 1 0 0 0 0 1\n', "str", "wide-char", ["š", "a"]),
    ('<start> ::= <a> <b> "x"\n<a> ::= <b>\n<b> ::= "y"?\n', "str", "nullable-pred", ["x", "yx", "yyx"]),
]


def mk_cases(run: Run, tier: str) -> list[dict]:
    rng = run.rng("grammars")
    quick = tier == "quick"
    cases = load_corpus()
    for spec, kind in CORNER_SPECS:
        cases.append({"spec": spec, "kind": kind, "cls": "corner", "features": ["corner"],
                      "n_words": 4, "max_len": 9 if quick else 10})
    # the documented witness of the open finding, and plain controls
    cases.append({"spec": '<start> ::= <n> | <n> <n>\n<n> ::= r"[0-9]+"\n', "kind": "str", "cls": "corner",
                  "features": ["corner"], "words": [[49, 50], [49, 50, 51]]})
    cases.append({"spec": '<start> ::= "abc" "d"?\n', "kind": "str", "cls": "corner", "features": ["corner"],
                  "words": [[97, 98, 99, 100], [97, 98, 99], [97, 98, 120]]})
    # the chart (not the parses) depends on the fragmentation: two candidates for place_repetition_shortcut
    cases.append({"spec": CHART_SPEC, "kind": "str", "cls": "corner", "features": ["corner", "shortcut-order"],
                  "words": [_w("xabcx"), _w("xabc")], "chart_probe": [[3, 2], [3, 1]]})
    # shapes of the open finding (a regex match that can end in more than one place), so that the exact
    # prediction of it is exercised on every seed: acceptance itself depends on the cut; preferred-alternative
    # regexes; repetition of a regex; bytes; a regex between literals; three-way splits
    w = _w
    for spec, kind, words in [
        ('<start> ::= <n> "3"\n<n> ::= r"[0-9]+"\n', "str", ["123", "1233", "3", "12"]),
        ('<start> ::= <n> <k>\n<n> ::= r"ab|a"\n<k> ::= r"bc|c"\n', "str", ["abc", "ac", "abbc"]),
        ('<start> ::= <n> <k>\n<n> ::= r"a|ab"\n<k> ::= r"bc|c"\n', "str", ["abc", "abbc"]),
        ('<start> ::= <n> <k>?\n<n> ::= r"abc|a"\n<k> ::= "bc" | "b"\n', "str", ["abc", "ab", "abcb"]),
        ('<start> ::= <w>*\n<w> ::= r"[a-z]+"\n', "str", ["abcd", "ab"]),
        ('<start> ::= <k> "=" <v>\n<k> ::= r"[a-z]+"\n<v> ::= r"[a-z=]*[a-z]"\n', "str", ["a=b=c", "ab=c"]),
        ('<start> ::= <n> <m> <n>\n<n> ::= r"[0-9]+"\n<m> ::= r"[0-9a-f]+"\n', "str", ["12a34", "1234"]),
        ('<start> ::= <n> b"\\x31" | <n> <n> b"\\x32"\n<n> ::= rb"[0-9]+"\n', "bytes", [b"121", b"1212", b"112"]),
        ('<start> ::= "x" <n> "1" "y"\n<n> ::= r"[0-9]*1"\n', "str", ["x111y", "x11y", "x1y"]),
        # the same root cause in the other direction: a look-ahead is only satisfied once the following text is
        # there, and a re-scan that does not get past the remembered prefix is dropped -> accepted at once,
        # rejected as "a","b"
        ('<start> ::= <x> "b"\n<x> ::= r"a(?=b)"\n', "str", ["ab"]),
    ]:
        cases.append({"spec": spec, "kind": kind, "cls": "corner", "features": ["corner", "regex-split"],
                      "words": [w(x) for x in words]})
    # grammars with a same-span self-derivation: the covering cut of `complete` fires (the engine of the real closure
    # is compared on them; the closure laws are NOT proved for passes in which the cut fires)
    for spec, words in [
        ('<start> ::= ("a"?)* "b"\n', ["b", "ab", "aab"]),
        ('<start> ::= <a> "y"\n<a> ::= <a> | "x"\n', ["xy", "y"]),
        ('<start> ::= <x> "z"\n<x> ::= <y> <x> | ""\n<y> ::= "q"?\n', ["z", "qz", "qqz"]),
        ('<start> ::= <e>{2,} "k"\n<e> ::= "" | "e"\n', ["k", "ek", "eek"]),
    ]:
        cases.append({"spec": spec, "kind": "str", "cls": "corner", "features": ["corner", "eps-cycle"],
                      "words": [w(x) for x in words]})
    for spec, kind, cls, words in NEW_FIXED:
        cases.append({"spec": spec, "kind": kind, "cls": cls, "features": ["corner", cls],
                      "words": [w(x) for x in words]})
    cases.append({"spec": '<start> ::= "a"{2,}\n', "kind": "str", "cls": "open-rep", "features": ["corner", "open-rep"],
                  "words": [w("a" * 25), w("a" * 21), w("a")], "exhaust_len": 8, "sample_comps": 24 if quick else 60})
    n_gen = 340 if quick else 1400
    n_new = 24 if quick else 90            # per new class
    if os.environ.get("VERIF_C13_NGEN"):      # development aid (mutation trials on a loaded machine); not a tier
        n_gen = int(os.environ["VERIF_C13_NGEN"])
        n_new = max(2, n_gen // 16)
    classes = ["text", "regex", "bytes", "bits", "recursive"]
    for i in range(n_gen):
        cls = classes[i % len(classes)]
        # every other grammar of the general classes may use empty-matching regexes and {n,} repetitions
        g = gen_spec(rng, cls, empty_regex=True, nested_reps=True) if i % 2 else gen_spec(rng, cls)
        g.update({"n_words": 2 if quick else 3, "max_len": rng.choice([5, 6, 7, 8] if quick else [6, 8, 9, 10])})
        if not quick and i % 10 == 0:
            g.update({"max_len": 16, "exhaust_len": 10, "sample_comps": 60})
        cases.append(g)
    for i in range(n_new):
        for g in (gen_empty_regex(rng), gen_mixed_bits(rng), gen_wide_char(rng), gen_nullable_pred(rng)):
            g.setdefault("n_words", 2)
            g.setdefault("max_len", rng.choice([4, 5, 6] if quick else [5, 6, 8]))
            cases.append(g)
        if i % 3 == 0:
            cases.append(gen_open_rep(rng, quick))
    for i, c in enumerate(cases):
        c.setdefault("seed", rng.randrange(1 << 30))
        c.setdefault("exhaust_len", 10)
        c.setdefault("instrument_comps", 2 if quick else 4)
        c.setdefault("cc_enum", 1 if quick else 3)
    return cases


# ------------------------------------------------------------------------------------------------

def canon_model_out(o: dict, mode: str) -> tuple:
    if o["inc"]:
        return (o["col"], True, o["idx"], mode, tuple(o["pre"]))
    leaf = o["leaf"]
    payload = leaf[1] if leaf[0] != "i" else [leaf[1]]
    return (o["col"], False, o["idx"], leaf[0], tuple(payload))


def canon_real_out(o: dict) -> tuple:
    return (o["col"], bool(o["inc"]), o["idx"], o["last_kind"], tuple(o["last"]))


def check_result(run: Run, case: dict, res: dict, corr: list, scan_reqs: list, run_reqs: list,
                 erun_reqs: list) -> None:
    spec, kind = case["spec"], case["kind"]
    mode = "t" if kind == "str" else "b"
    for rec in res["words"]:
        word = rec["word"]
        n = rec["n"]
        whole = rec["whole"]
        stable = rec["cut_stable_fail"] is None
        aligned = whole["aligned"]
        nontrivial = n >= 2 and bool(whole["final"]) and rec["n_comps"] >= 2
        run.case([spec, word], nontrivial,
                 {"spec": spec, "input": word, "compositions": rec["n_comps"], "parses": len(whole["final"]),
                  "cut_stable": stable, "aligned": aligned})
        run.count("inputs")
        run.count("compositions", rec["n_comps"])
        cls = case["cls"]
        run.count(f"class:{cls}")
        if whole["final"]:
            run.count(f"class:{cls}:accepted")
        # characteristic events of the classes aimed at the parser repairs (a class without a hit is degenerate)
        if not aligned:
            run.count("hit:mixed-bits(payload terminal waits off a byte boundary)")
        if n > 20 and whole["final"] and "open-rep" in case.get("features", []):
            run.count("hit:open-rep(accepted input of more than 20 units under {n,})")
        if cls == "nullable-pred" and whole["final"]:
            run.count("hit:nullable-pred(accepted)")
        run.count("len:%d" % min(n, 12))
        run.count("accepted" if whole["final"] else "rejected")
        if whole.get("raised"):
            run.count("whole_raised:" + whole["raised"])
        run.count("exhaustive" if rec["exhaustive"] else "sampled")
        run.count("cut_stable" if stable else "not_cut_stable:" + rec["cut_stable_fail"].split()[0])
        if not aligned:
            run.count("misaligned")
        for f in case.get("features", []):
            run.count("feature:" + f)
        # (a) fragmentation independence, on the real code
        if rec["n_diffs"]:
            d = rec["diffs"][0]
            replay = {"spec": spec, "kind": kind, "input": word, "composition": d["comp"]}
            got = d["final"][0] if d["final"] and d["final"][0].startswith("<raised") else \
                f"{len(d['final'])} complete parse(s)"
            what = (f"{spec.strip()!r} on {word}: {len(whole['final'])} complete parse(s) at once, "
                    f"{got} when fed as pieces of lengths {d['comp']} "
                    f"({rec['n_diffs']} of {rec['n_comps']} compositions differ)")
            # The open finding has an exact, decidable signature (harness/impl/incr_real.py predict_split):
            # the regex oracle is not cut-stable on this input AND the result of EVERY composition is exactly
            # what "scan_regex offers one `re.match` length per scan" predicts (a parse is present iff each of
            # its regex leaves has a length offered under that composition).  Anything else — a literal, byte or
            # bit cut, a missing or an extra parse the prediction does not explain, an exception — is a violation.
            if not stable and rec["split_mismatch"] is None:
                run.count("known:regex-nongreedy-split")
                run.count("known:outcomes", rec.get("n_outcomes", 0))
                if run.counters["known:regex-nongreedy-split"] <= 3:   # a few witnesses on the console are enough
                    run.report(SIG_SPLIT, what + f"; every composition's result equals the one-length-per-scan "
                               f"prediction ({rec.get('n_outcomes')} different results)", replay)
            else:
                mm = rec["split_mismatch"] or {"why": "the regex oracle is cut-stable on this input"}
                replay["composition"] = mm.get("comp", replay["composition"])
                run.report("C13/fragmentation-dependent", what + "; not explained by the regex split finding: "
                           + json.dumps(mm)[:400], replay)
        # (b) can_continue soundness
        for u in rec["cc_unsound"]:
            run.report("C13/can-continue-unsound",
                       f"{spec.strip()!r}: can_continue() is False after {word[:u['prefix_len']]} but the "
                       f"extension {u['extension']} is accepted",
                       {"spec": spec, "kind": kind, "input": word[:u["prefix_len"]] + u["extension"],
                        "composition": [u["prefix_len"], len(u["extension"])], "check": "can_continue"})
        run.count("cc_false_prefixes", sum(1 for v in rec["cc_by_prefix"].values() if False in v))
        # (a') the protocol path: add_receive -> one-unit fragments -> parse_next_remote_packet
        io = rec.get("io")
        if io is not None:
            if "skip" in io:
                run.count("io:skipped")
            else:
                run.count("io:runs")
                run.count("io:packet" if "tree" in io else "io:" + io.get("raised", "?"))
                ioreplay = {"spec": spec, "kind": kind, "input": word, "composition": io["chunks"], "check": "io"}
                head = f"{spec.strip()!r}: {word} handed to FandangoIO.add_receive in chunks {io['chunks']}: "
                d = io["direct"]
                if not io["fragments_ok"]:
                    run.report("C13/io-fragments", head + "the fragment list is not the input unit by unit", ioreplay)
                elif ("tree" in io) != ("tree" in d) or io.get("tree") != d.get("tree") or \
                        ("tree" in io and io["consumed"] != d["consumed"]):
                    run.report("C13/io-differs-from-direct", head + "parse_next_remote_packet gives "
                               f"{io.get('tree') or io.get('raised')} (consumed {io.get('consumed')}), the incremental "
                               f"parser fed the same fragments gives {d.get('tree') or d.get('raised')} "
                               f"(consumed {d.get('consumed')})", ioreplay)
                elif "tree" in io and io["parties"] != ["Ext", "Fz"]:
                    run.report("C13/io-parties", head + f"sender/recipient {io['parties']}", ioreplay)
                elif "tree" in io and not io["in_once"]:
                    what = head + (f"the packet's tree is not among the {io['n_once']} complete parse(s) of the "
                                   f"consumed prefix {word[:io['consumed']]} supplied at once")
                    if io.get("split_explains") and not stable:
                        run.count("known:io-regex-nongreedy-split")
                        if run.counters["known:io-regex-nongreedy-split"] <= 2:
                            run.report(SIG_SPLIT, what + " (a regex leaf has a length only offered unit by unit)",
                                       ioreplay)
                    else:
                        run.report("C13/io-parse-not-among-at-once", what, ioreplay)
                elif io.get("longer_once") is not None and io.get("longer_explained") and not stable:
                    run.count("known:io-regex-nongreedy-split")
                elif io.get("longer_once") is not None:
                    run.report("C13/io-shorter-than-at-once", head + f"consumed {io.get('consumed')} unit(s) but the "
                               f"prefix of length {io['longer_once']} is accepted when supplied at once", ioreplay)
                else:
                    run.count("io:agree")
        # (c) scan calls
        for sc in rec["scans"]:
            req = {"op": "scan", "mode": sc["mode"], "term": sc["term"], "k": sc["k"], "inc": sc["inc"],
                   "idx": sc["idx"], "pre": sc["pre"], "rest": sc["rest"], "w": sc["w"], "len": sc["len"],
                   "oracle": sc.get("oracle", {"full": [], "part": []})}
            scan_reqs.append((req, sc, spec, word))
            run.count("scan:" + sc["fn"])
            if sc["inc"]:
                run.count("scan:resumed")
            if any(o["inc"] for o in sc["outs"]):
                run.count("scan:parks_incomplete")
            if any(o["col"] == sc["k"] for o in sc["outs"]):
                run.count("scan:adds_to_same_column")
                if sc["fn"] == "scan_regex" and any(o["col"] == sc["k"] and not o["inc"] for o in sc["outs"]):
                    run.count("hit:empty-regex(scan_regex advances on a match of length 0)")
                    if not sc["rest"]:
                        run.count("scan:empty_match_at_end_of_fragment")
            if sc["fn"] == "scan_bit" and sc["rest"] and sc["rest"][0] > 255:
                run.count("hit:wide-char(scan_bit sees a unit above 0xFF)")
            if sc["fn"] != "scan_bit" and sc["k"] % 8:
                run.count("scan:payload_scanned_off_byte_boundary")
        # (d) whole-run model for linear grammars
        if res["alts"] is not None:
            for r in rec["runs"]:
                if not r["steps"]:
                    continue
                run.count(f"class:{cls}:corr_run")
                if not aligned:
                    run.count("corr:run_misaligned")
                pieces, i = [], 0
                for ln in r["comp"]:
                    pieces.append(word[i:i + ln])
                    i += ln
                req = {"op": "run", "mode": mode, "alts": res["alts"], "pieces": pieces, "oracle": rec["oracle"]}
                run_reqs.append((req, r, spec, word))
        # (d') whole-run model on the engine of the real closure, every grammar
        if res.get("gj") is not None:
            for r in rec["runs"]:
                if not r["steps"] or r.get("raised"):
                    continue
                pieces, i = [], 0
                for ln in r["comp"]:
                    pieces.append(word[i:i + ln])
                    i += ln
                req = {"op": "erun", "mode": mode, "grammar": res["gj"], "start": "<start>", "pieces": pieces,
                       "oracle": rec["oracle"], "fuel": EARLEY_FUEL}
                erun_reqs.append((req, r, spec, word, cls))
        # (f) the chart probe (observation)
        for cp in rec.get("chart_probe", []):
            run.count("chart_probe:runs")
            run.coverage.setdefault("chart_probe", []).append({"spec": spec, "input": word, **cp})
            if cp["differing_columns"] and cp["same_parses"]:
                run.count("chart_probe:chart_differs_parses_equal")
            elif cp["differing_columns"]:
                run.count("chart_probe:chart_and_parses_differ")
            else:
                run.count("chart_probe:chart_equal")


def compare_erun(run: Run, corr: list, erun_reqs: list) -> None:
    """(d') the engine of the real closure against the real parser, piece by piece"""
    if not erun_reqs:
        return
    answers = driver_ask("drv_incr", [q[0] for q in erun_reqs], timeout=1500)
    for (req, r, spec, word, cls), a in zip(erun_reqs, answers):
        run.count("corr:erun")
        run.count(f"class:{cls}:corr_erun")
        for i, (ms, rs) in enumerate(zip(a["steps"], r["steps"])):
            run.count("erun:pieces")
            if not ms["halted"]:
                # the model's pass did not end within the fuel: nothing to compare (and outside the proof)
                run.count("erun:pieces_fuel_exhausted")
                break
            inside = not ms["cut"] and not ms["beginners"]
            run.count("erun:pieces_inside_proof" if inside else "erun:pieces_outside_proof")
            if ms["cut"]:
                run.count("erun:pieces_with_covering_cut")
            if ms["beginners"]:
                run.count("erun:pieces_with_star_plus_state")
            m_trees = sorted(set(json.dumps(t, separators=(",", ":")) for t in ms["parses"]))
            r_trees = sorted(set(json.dumps(json.loads(t), separators=(",", ":")) for t in rs["trees"]))
            m_res = sorted(set(json.dumps({"want": x["want"], "idx": x["idx"], "pre": x["pre"]},
                                          sort_keys=True) for x in ms["resumable"]))
            bad = None
            if m_trees != r_trees:
                bad = "complete parses (trees)"
            elif m_res != rs["resumable"]:
                bad = "resumable states"
            elif ms["can_continue"] != rs["can_continue"]:
                bad = "can_continue"
            if r_trees:
                run.count("erun:pieces_with_parses")
            if bad:
                corr.append({"kind": "erun", "what": bad, "spec": spec, "input": word, "pieces": req["pieces"],
                             "step": i, "inside_proof": inside,
                             "impl": {"trees": r_trees[:4], "resumable": rs["resumable"],
                                      "can_continue": rs["can_continue"]},
                             "model": {"trees": m_trees[:4], "resumable": m_res,
                                       "can_continue": ms["can_continue"]}})
                break
    n = run.counters.get("erun:pieces", 0)
    run.coverage["erun"] = {
        "runs": run.counters.get("corr:erun", 0), "pieces": n,
        "pieces_inside_proof": run.counters.get("erun:pieces_inside_proof", 0),
        "pieces_outside_proof(star/plus state)": run.counters.get("erun:pieces_with_star_plus_state", 0),
        "pieces_outside_proof(covering cut)": run.counters.get("erun:pieces_with_covering_cut", 0),
        "pieces_fuel_exhausted": run.counters.get("erun:pieces_fuel_exhausted", 0)}
    print(f"[C13] engine of the real closure: {run.coverage['erun']}")


def compare_model(run: Run, corr: list, scan_reqs: list, run_reqs: list) -> None:
    if scan_reqs:
        answers = driver_ask("drv_incr", [q[0] for q in scan_reqs], timeout=900)
        for (req, sc, spec, word), a in zip(scan_reqs, answers):
            model = sorted(canon_model_out(o, req["mode"]) for o in a["outs"])
            real = sorted(canon_real_out(o) for o in sc["outs"])
            ok = model == real and all(o["advanced"] == (not o["inc"]) for o in sc["outs"])
            run.count("corr:scan")
            if not ok:
                corr.append({"kind": "scan", "spec": spec, "input": word, "call": {k: req[k] for k in
                            ("term", "k", "inc", "idx", "pre", "rest", "w", "len")},
                             "impl": sc["outs"], "model": a["outs"]})
    if run_reqs:
        answers = driver_ask("drv_incr", [q[0] for q in run_reqs], timeout=900)
        for (req, r, spec, word), a in zip(run_reqs, answers):
            run.count("corr:run")
            for i, (ms, rs) in enumerate(zip(a["steps"], r["steps"])):
                m_leaves = sorted(set(json.dumps([[l[0], l[1]] for l in p if not (l[0] != "i" and not l[1])])
                                      for p in ms["parses"]))
                m_res = sorted(set(json.dumps({"want": x["want"], "idx": x["idx"], "pre": x["pre"]},
                                              sort_keys=True) for x in ms["resumable"]))
                bad = None
                if m_leaves != rs["leaves"]:
                    bad = "complete parses"
                elif m_res != rs["resumable"]:
                    bad = "resumable states"
                elif ms["can_continue"] != rs["can_continue"]:
                    # the model's canContinue is a line-by-line model: exact agreement after every piece
                    bad = "can_continue"
                run.count("corr:can_continue_compared")
                if bad:
                    corr.append({"kind": "run", "what": bad, "spec": spec, "input": word, "pieces": req["pieces"],
                                 "step": i, "impl": rs, "model": {"leaves": m_leaves, "resumable": m_res,
                                                                  "can_continue": ms["can_continue"]}})
                    break


def replay(path: str) -> int:
    use_repo()
    from harness.impl import incr_real
    rp = json.load(open(path))
    if "spec" not in rp:
        print("replay: this file names broken obligations / correspondence cases, not an input:")
        print(json.dumps({k: rp[k] for k in rp if k in ("what", "broken_obligations", "correspondence")}, indent=1)[:3000])
        return 1
    res = run_pool("harness.impl.incr_real",
                   [{"spec": rp["spec"], "kind": rp["kind"], "words": [rp["input"]], "comps": [rp["composition"]],
                     "seed": 0}], nproc=1, per_case_s=60, hard_s=120)[0]
    if "words" not in res:
        print("replay: the implementation did not answer:", res)
        return 2
    rec = res["words"][0]
    print("input", rp["input"], "pieces of lengths", rp["composition"])
    print("complete parses at once:   ", rec["whole"]["final"])
    bad = False
    if rec["n_diffs"]:
        print("complete parses in pieces: ", rec["diffs"][0]["final"])
        bad = True
    else:
        print("complete parses in pieces:  the same")
    if rp.get("check") == "io":
        io = rec.get("io") or {}
        print("protocol path (add_receive in chunks", io.get("chunks"), "):")
        print("  packet:", io.get("tree") or io.get("raised"), "consumed", io.get("consumed"))
        print("  incremental parser, same fragments:", io.get("direct"))
        print("  tree among the parses of the consumed prefix at once:", io.get("in_once"),
              "; longer prefix accepted at once:", io.get("longer_once"))
        d = io.get("direct", {})
        bad = (not io.get("fragments_ok", True)) or io.get("tree") != d.get("tree") or \
            ("tree" in io and (io.get("consumed") != d.get("consumed") or not io.get("in_once"))) or \
            io.get("longer_once") is not None
    if rp.get("check") == "can_continue":
        k = rp["composition"][0]
        v = rec["cc_by_prefix"].get(str(k))
        print(f"can_continue after the first {k} units: {v}; whole input accepted: {bool(rec['whole']['final'])}")
        if v is not None and False in v and rec["whole"]["final"]:
            bad = True
    print("replay:", "property violated" if bad else "no violation on the current tree")
    return 1 if bad else 0


def main(tier: str) -> int:
    run = Run(PID, tier, "proof")
    use_repo()
    gen = translate_incr.regenerate()
    gen_e = translate_earley.regenerate()       # the closure's variant (C13_closure_configuration)
    lean = lean_check("Props.C13", ["drv_incr"])
    for r in gen["refusals"]:
        lean.broken.append({"module": "Generated.Incr", "reason": "translator refused: " + r})
    for r in gen_e["refusals"]:
        lean.broken.append({"module": "Generated.Earley", "reason": "translator refused: " + r})
    run.coverage["generated_config"] = gen["constants"]
    run.coverage["generated_closure_variant"] = gen_e.get("variant")
    cases = mk_cases(run, tier)
    quick = tier == "quick"
    # generous limits: the machine is shared, a loaded machine must not turn slow cases into missing cases
    results = run_pool("harness.impl.incr_real", cases, nproc=16, per_case_s=60 if quick else 180,
                       hard_s=900 if quick else 3000)
    corr: list = []
    scan_reqs: list = []
    run_reqs: list = []
    erun_reqs: list = []
    for case, res in zip(cases, results):
        if "words" not in res:
            key = "timeout" if res.get("timeout") else "killed" if res.get("killed") else "error"
            run.count("grammar:" + key)
            if key == "error":
                run.count("grammar:error:" + str(res.get("error", ""))[:40])
            continue
        run.count("grammar:ok")
        run.count("grammar:linear" if res["alts"] is not None else "grammar:not-linear")
        check_result(run, case, res, corr, scan_reqs, run_reqs, erun_reqs)
    # deduplicate identical scan calls before asking the model
    seen, uniq = set(), []
    for q in scan_reqs:
        key = json.dumps([q[0], q[1]["outs"]], sort_keys=True)
        if key not in seen:
            seen.add(key)
            uniq.append(q)
    run.count("scan_calls_distinct", len(uniq))
    compare_model(run, corr, uniq, run_reqs)
    compare_erun(run, corr, erun_reqs)
    if erun_reqs and not run.counters.get("erun:pieces_inside_proof"):
        raise MachineryError("no piece of any run lies inside the passes the closure laws are proved for")
    ok_share = run.counters.get("grammar:ok", 0) / max(1, len(cases))
    run.coverage["traces_validated_against_impl"] = (run.counters.get("corr:scan", 0) + run.counters.get("corr:run", 0)
                                                     + run.counters.get("corr:erun", 0))
    run.coverage["correspondence_disagreements"] = len(corr)
    run.coverage["disagreement_samples"] = corr[:5]
    if ok_share < 0.6:
        raise MachineryError(f"only {ok_share:.0%} of the grammars could be run (timeouts/errors): {run.counters}")
    hits = {c: sum(v for k, v in run.counters.items() if k.startswith(f"hit:{c}(")) for c in NEW_CLASSES}
    run.coverage["class_hits"] = hits
    run.coverage["class_inputs"] = {c: run.counters.get(f"class:{c}", 0) for c in NEW_CLASSES}
    print(f"[C13] classes aimed at the parser repairs: inputs {run.coverage['class_inputs']} hits {hits}")
    dead = [c for c in NEW_CLASSES if not hits[c]]
    if dead and not os.environ.get("VERIF_C13_NGEN"):
        raise MachineryError(f"degenerate generator: no characteristic event for the class(es) {dead}: {hits}")
    if (not lean.ok or corr) and not run.violations:
        what = []
        if not lean.ok:
            what.append("proof obligations of Props/C13.lean no longer check: " + json.dumps(lean.broken)[:600])
        if corr:
            what.append(f"model/implementation correspondence broken on {len(corr)} cases, e.g. "
                        + json.dumps(corr[0])[:600])
        run.report("C13/unproved", "; ".join(what),
                   {"broken_obligations": lean.broken, "correspondence": corr[:20]}, no_input=True)
    return run.finish(
        lean,
        rule="grammars: corpus/C13 + corner list + seeded generator over {text (literals >= 3 units, multi-byte "
             "characters, shared prefixes), regex (every other grammar with empty-matching regexes and {n,}), bytes, "
             "bits (groups of eight), recursive} + five classes aimed at the parser repairs {empty-regex, mixed-bits "
             "(bit groups of any size next to text/bytes/regex terminals), wide-char (bit grammars fed characters "
             "above U+00FF), open-rep ({n,} beyond 20 iterations), nullable-pred}; inputs: members by the real "
             "fuzzer + one-edit near misses + (new classes) short random words over the units of the spec; all "
             "2^(n-1) compositions for n <= 10 (open-rep: n <= 8), sampled beyond; a case is non-trivial when the "
             "input is accepted, has >= 2 units and >= 2 compositions; distinct by (spec, input)",
        trusted_base=TRUSTED)
