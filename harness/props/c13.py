"""C13 — incremental parsing is independent of how the input is fragmented.

1. obligations: Props/C13.lean (lake build, axiom audit) + driver drv_incr
2. real code, every case in a worker process with a hard time limit (harness/impl/incr_real.py):
   for every generated (grammar, input) ALL 2^(n-1) compositions (n <= 10; longer inputs sampled):
   new_parse / consume(piece)… / can_continue after every piece
   property observed on the real code alone:
     (a) the complete parses after the last piece = those of the whole input fed at once
     (b) can_continue() = False after a prefix  =>  no extension of that prefix is accepted
         (the rest of the input, fuzzed members, all extensions by <= 2 units)
     (a') the protocol path: the input handed to FandangoIO.add_receive in chunks -> one-unit fragments ->
         parse_next_remote_packet (virtual clock) = the incremental parser fed the same fragments; its tree is
         among the complete parses of the consumed prefix supplied at once; no longer prefix is accepted at once
   Known finding C13/regex-nongreedy-split (scan_regex offers ONE `re.match` length per scan, so a fragment
   boundary inside a regex match offers one more length): reported under that signature only if the result of
   EVERY composition equals the exact prediction of that behaviour (incr_real.predict_split); anything else is
   a violation.
3. correspondence with the Lean model:
     (c) every recorded call of scan_bytes / scan_regex / scan_bit (state flags, prefix, rest of the
         fragment, column) vs scanEntry of the model: same states added to the same columns
     (d) for grammars that are finite unions of terminal sequences: the model's `feed` on the same pieces —
         complete parses (as leaf sequences), resumable incomplete states and can_continue after every piece
     (e) the hypotheses of the theorems per case: CutStable of the regex oracle on all infixes of the input
         (against `re` / `regex`), alignment of the real table
"""
from __future__ import annotations

import json
import os
import re
from typing import Any

from harness.common import Run, driver_ask, lean_check, use_repo
from harness.gen.grammars import CORNER_SPECS, gen_spec
from harness.impl.pool import run_pool

PID = "C13"
SIG_SPLIT = "C13/regex-nongreedy-split"

TRUSTED = [
    "Lean 4.33.0 kernel; axioms ⊆ {propext, Classical.choice, Quot.sound} (audited per run)",
    "hand-written scanner model lean/Model/Incremental.lean of scan_bytes/scan_regex/scan_bit/_consume/"
    "can_continue; tied by this run's scan-call correspondence and (linear grammars) whole-run correspondence",
    "the predict/complete closure is abstract in the theorems: laws Engine.Lawful/LawfulCC are assumed of it "
    "(proved for the linear engine); for the real closure they rest on the differential observation (a),(b)",
    "regex oracle = CPython `re.match` and `regex` partial matching, asked the way Terminal.check asks; "
    "CutStable is evaluated per case on all infixes of the input",
    "harness/impl/incr_real.py (instrumentation, linearisation of non-recursive grammars), "
    "harness/gen/grammars.py",
]


def mk_cases(run: Run, tier: str) -> list[dict]:
    rng = run.rng("grammars")
    quick = tier == "quick"
    cases = []
    for spec, kind in CORNER_SPECS:
        cases.append({"spec": spec, "kind": kind, "cls": "corner", "features": ["corner"],
                      "n_words": 4, "max_len": 9 if quick else 10})
    # the documented witness of the open finding, and plain controls
    cases.append({"spec": '<start> ::= <n> | <n> <n>\n<n> ::= r"[0-9]+"\n', "kind": "str", "cls": "corner",
                  "features": ["corner"], "words": [[49, 50], [49, 50, 51]]})
    cases.append({"spec": '<start> ::= "abc" "d"?\n', "kind": "str", "cls": "corner", "features": ["corner"],
                  "words": [[97, 98, 99, 100], [97, 98, 99], [97, 98, 120]]})
    # shapes of the open finding (a regex match that can end in more than one place), so that the exact
    # prediction of it is exercised on every seed: acceptance itself depends on the cut; preferred-alternative
    # regexes; repetition of a regex; bytes; a regex between literals; three-way splits
    def w(x):
        return [ord(c) for c in x] if isinstance(x, str) else list(x)
    for spec, kind, words in [
        ('<start> ::= <n> "3"\n<n> ::= r"[0-9]+"\n', "str", ["123", "1233", "3", "12"]),
        ('<start> ::= <n> <k>\n<n> ::= r"ab|a"\n<k> ::= r"bc|c"\n', "str", ["abc", "ac", "abbc"]),
        ('<start> ::= <n> <k>\n<n> ::= r"a|ab"\n<k> ::= r"bc|c"\n', "str", ["abc", "abbc"]),
        ('<start> ::= <n> <k>?\n<n> ::= r"abc|a"\n<k> ::= "bc" | "b"\n', "str", ["abc", "ab", "abcb"]),
        ('<start> ::= <w>*\n<w> ::= r"[a-z]+"\n', "str", ["abcd", "ab"]),
        ('<start> ::= <k> "=" <v>\n<k> ::= r"[a-z]+"\n<v> ::= r"[a-z=]*[a-z]"\n', "str", ["a=b=c", "ab=c"]),
        ('<start> ::= <n> <m> <n>\n<n> ::= r"[0-9]+"\n<m> ::= r"[0-9a-f]+"\n', "str", ["12a34", "1234"]),
        ('<start> ::= <n> b"\\x31" | <n> <n> b"\\x32"\n<n> ::= rb"[0-9]+"\n', "bytes", [b"121", b"1212", b"112"]),
        ('<start> ::= "x" <n> "1" "y"\n<n> ::= r"[0-9]*1"\n', "str", ["x111y", "x11y", "x1y"]),
        # the same root cause in the other direction: a look-ahead is only satisfied once the following text is
        # there, and a re-scan that does not get past the remembered prefix is dropped -> accepted at once,
        # rejected as "a","b"
        ('<start> ::= <x> "b"\n<x> ::= r"a(?=b)"\n', "str", ["ab"]),
    ]:
        cases.append({"spec": spec, "kind": kind, "cls": "corner", "features": ["corner", "regex-split"],
                      "words": [w(x) for x in words]})
    n_gen = 400 if quick else 1600
    if os.environ.get("VERIF_C13_NGEN"):      # development aid (mutation trials on a loaded machine); not a tier
        n_gen = int(os.environ["VERIF_C13_NGEN"])
    classes = ["text", "regex", "bytes", "bits", "recursive"]
    for i in range(n_gen):
        cls = classes[i % len(classes)]
        g = gen_spec(rng, cls)
        g.update({"n_words": 2 if quick else 3, "max_len": rng.choice([5, 6, 7, 8] if quick else [6, 8, 9, 10])})
        if not quick and i % 10 == 0:
            g.update({"max_len": 16, "exhaust_len": 10, "sample_comps": 60})
        cases.append(g)
    for i, c in enumerate(cases):
        c.setdefault("seed", rng.randrange(1 << 30))
        c.setdefault("exhaust_len", 10)
        c.setdefault("instrument_comps", 2 if quick else 4)
        c.setdefault("cc_enum", 1 if quick else 3)
    return cases


# ------------------------------------------------------------------------------------------------

def canon_model_out(o: dict, mode: str) -> tuple:
    if o["inc"]:
        return (o["col"], True, o["idx"], mode, tuple(o["pre"]))
    leaf = o["leaf"]
    payload = leaf[1] if leaf[0] != "i" else [leaf[1]]
    return (o["col"], False, o["idx"], leaf[0], tuple(payload))


def canon_real_out(o: dict) -> tuple:
    return (o["col"], bool(o["inc"]), o["idx"], o["last_kind"], tuple(o["last"]))


def check_result(run: Run, case: dict, res: dict, corr: list, scan_reqs: list, run_reqs: list) -> None:
    spec, kind = case["spec"], case["kind"]
    mode = "t" if kind == "str" else "b"
    for rec in res["words"]:
        word = rec["word"]
        n = rec["n"]
        whole = rec["whole"]
        stable = rec["cut_stable_fail"] is None
        aligned = whole["aligned"]
        nontrivial = n >= 2 and bool(whole["final"]) and rec["n_comps"] >= 2
        run.case([spec, word], nontrivial,
                 {"spec": spec, "input": word, "compositions": rec["n_comps"], "parses": len(whole["final"]),
                  "cut_stable": stable, "aligned": aligned})
        run.count("inputs")
        run.count("compositions", rec["n_comps"])
        run.count(f"class:{case['cls']}")
        run.count("len:%d" % min(n, 12))
        run.count("accepted" if whole["final"] else "rejected")
        if whole.get("raised"):
            run.count("whole_raised:" + whole["raised"])
        run.count("exhaustive" if rec["exhaustive"] else "sampled")
        run.count("cut_stable" if stable else "not_cut_stable:" + rec["cut_stable_fail"].split()[0])
        if not aligned:
            run.count("misaligned")
        for f in case.get("features", []):
            run.count("feature:" + f)
        # (a) fragmentation independence, on the real code
        if rec["n_diffs"]:
            d = rec["diffs"][0]
            replay = {"spec": spec, "kind": kind, "input": word, "composition": d["comp"]}
            got = d["final"][0] if d["final"] and d["final"][0].startswith("<raised") else \
                f"{len(d['final'])} complete parse(s)"
            what = (f"{spec.strip()!r} on {word}: {len(whole['final'])} complete parse(s) at once, "
                    f"{got} when fed as pieces of lengths {d['comp']} "
                    f"({rec['n_diffs']} of {rec['n_comps']} compositions differ)")
            # The open finding has an exact, decidable signature (harness/impl/incr_real.py predict_split):
            # the regex oracle is not cut-stable on this input AND the result of EVERY composition is exactly
            # what "scan_regex offers one `re.match` length per scan" predicts (a parse is present iff each of
            # its regex leaves has a length offered under that composition).  Anything else — a literal, byte or
            # bit cut, a missing or an extra parse the prediction does not explain, an exception — is a violation.
            if not stable and rec["split_mismatch"] is None:
                run.count("known:regex-nongreedy-split")
                run.count("known:outcomes", rec.get("n_outcomes", 0))
                if run.counters["known:regex-nongreedy-split"] <= 3:   # a few witnesses on the console are enough
                    run.report(SIG_SPLIT, what + f"; every composition's result equals the one-length-per-scan "
                               f"prediction ({rec.get('n_outcomes')} different results)", replay)
            else:
                mm = rec["split_mismatch"] or {"why": "the regex oracle is cut-stable on this input"}
                replay["composition"] = mm.get("comp", replay["composition"])
                run.report("C13/fragmentation-dependent", what + "; not explained by the regex split finding: "
                           + json.dumps(mm)[:400], replay)
        # (b) can_continue soundness
        for u in rec["cc_unsound"]:
            run.report("C13/can-continue-unsound",
                       f"{spec.strip()!r}: can_continue() is False after {word[:u['prefix_len']]} but the "
                       f"extension {u['extension']} is accepted",
                       {"spec": spec, "kind": kind, "input": word[:u["prefix_len"]] + u["extension"],
                        "composition": [u["prefix_len"], len(u["extension"])], "check": "can_continue"})
        run.count("cc_false_prefixes", sum(1 for v in rec["cc_by_prefix"].values() if False in v))
        # (a') the protocol path: add_receive -> one-unit fragments -> parse_next_remote_packet
        io = rec.get("io")
        if io is not None:
            if "skip" in io:
                run.count("io:skipped")
            else:
                run.count("io:runs")
                run.count("io:packet" if "tree" in io else "io:" + io.get("raised", "?"))
                ioreplay = {"spec": spec, "kind": kind, "input": word, "composition": io["chunks"], "check": "io"}
                head = f"{spec.strip()!r}: {word} handed to FandangoIO.add_receive in chunks {io['chunks']}: "
                d = io["direct"]
                if not io["fragments_ok"]:
                    run.report("C13/io-fragments", head + "the fragment list is not the input unit by unit", ioreplay)
                elif ("tree" in io) != ("tree" in d) or io.get("tree") != d.get("tree") or \
                        ("tree" in io and io["consumed"] != d["consumed"]):
                    run.report("C13/io-differs-from-direct", head + "parse_next_remote_packet gives "
                               f"{io.get('tree') or io.get('raised')} (consumed {io.get('consumed')}), the incremental "
                               f"parser fed the same fragments gives {d.get('tree') or d.get('raised')} "
                               f"(consumed {d.get('consumed')})", ioreplay)
                elif "tree" in io and io["parties"] != ["Ext", "Fz"]:
                    run.report("C13/io-parties", head + f"sender/recipient {io['parties']}", ioreplay)
                elif "tree" in io and not io["in_once"]:
                    what = head + (f"the packet's tree is not among the {io['n_once']} complete parse(s) of the "
                                   f"consumed prefix {word[:io['consumed']]} supplied at once")
                    if io.get("split_explains") and not stable:
                        run.count("known:io-regex-nongreedy-split")
                        if run.counters["known:io-regex-nongreedy-split"] <= 2:
                            run.report(SIG_SPLIT, what + " (a regex leaf has a length only offered unit by unit)",
                                       ioreplay)
                    else:
                        run.report("C13/io-parse-not-among-at-once", what, ioreplay)
                elif io.get("longer_once") is not None and io.get("longer_explained") and not stable:
                    run.count("known:io-regex-nongreedy-split")
                elif io.get("longer_once") is not None:
                    run.report("C13/io-shorter-than-at-once", head + f"consumed {io.get('consumed')} unit(s) but the "
                               f"prefix of length {io['longer_once']} is accepted when supplied at once", ioreplay)
                else:
                    run.count("io:agree")
        # (c) scan calls
        for sc in rec["scans"]:
            req = {"op": "scan", "mode": sc["mode"], "term": sc["term"], "k": sc["k"], "inc": sc["inc"],
                   "idx": sc["idx"], "pre": sc["pre"], "rest": sc["rest"], "w": sc["w"], "len": sc["len"],
                   "oracle": sc.get("oracle", {"full": [], "part": []})}
            scan_reqs.append((req, sc, spec, word))
            run.count("scan:" + sc["fn"])
            if sc["inc"]:
                run.count("scan:resumed")
            if any(o["inc"] for o in sc["outs"]):
                run.count("scan:parks_incomplete")
        # (d) whole-run model for linear grammars
        if res["alts"] is not None and aligned:
            for r in rec["runs"]:
                if not r["steps"]:
                    continue
                pieces, i = [], 0
                for ln in r["comp"]:
                    pieces.append(word[i:i + ln])
                    i += ln
                req = {"op": "run", "mode": mode, "alts": res["alts"], "pieces": pieces, "oracle": rec["oracle"]}
                run_reqs.append((req, r, spec, word))


def compare_model(run: Run, corr: list, scan_reqs: list, run_reqs: list) -> None:
    if scan_reqs:
        answers = driver_ask("drv_incr", [q[0] for q in scan_reqs], timeout=900)
        for (req, sc, spec, word), a in zip(scan_reqs, answers):
            model = sorted(canon_model_out(o, req["mode"]) for o in a["outs"])
            real = sorted(canon_real_out(o) for o in sc["outs"])
            ok = model == real and all(o["advanced"] == (not o["inc"]) for o in sc["outs"])
            run.count("corr:scan")
            if not ok:
                corr.append({"kind": "scan", "spec": spec, "input": word, "call": {k: req[k] for k in
                            ("term", "k", "inc", "idx", "pre", "rest", "w", "len")},
                             "impl": sc["outs"], "model": a["outs"]})
    if run_reqs:
        answers = driver_ask("drv_incr", [q[0] for q in run_reqs], timeout=900)
        for (req, r, spec, word), a in zip(run_reqs, answers):
            run.count("corr:run")
            for i, (ms, rs) in enumerate(zip(a["steps"], r["steps"])):
                m_leaves = sorted(set(json.dumps([[l[0], l[1]] for l in p if not (l[0] != "i" and not l[1])])
                                      for p in ms["parses"]))
                m_res = sorted(set(json.dumps({"want": x["want"], "idx": x["idx"], "pre": x["pre"]},
                                              sort_keys=True) for x in ms["resumable"]))
                bad = None
                if m_leaves != rs["leaves"]:
                    bad = "complete parses"
                elif m_res != rs["resumable"]:
                    bad = "resumable states"
                elif ms["can_continue"] != rs["can_continue"]:
                    # the model's canContinue is a line-by-line model: exact agreement after every piece
                    bad = "can_continue"
                run.count("corr:can_continue_compared")
                if bad:
                    corr.append({"kind": "run", "what": bad, "spec": spec, "input": word, "pieces": req["pieces"],
                                 "step": i, "impl": rs, "model": {"leaves": m_leaves, "resumable": m_res,
                                                                  "can_continue": ms["can_continue"]}})
                    break


def replay(path: str) -> int:
    use_repo()
    from harness.impl import incr_real
    rp = json.load(open(path))
    if "spec" not in rp:
        print("replay: this file names broken obligations / correspondence cases, not an input:")
        print(json.dumps({k: rp[k] for k in rp if k in ("what", "broken_obligations", "correspondence")}, indent=1)[:3000])
        return 1
    res = run_pool("harness.impl.incr_real",
                   [{"spec": rp["spec"], "kind": rp["kind"], "words": [rp["input"]], "comps": [rp["composition"]],
                     "seed": 0}], nproc=1, per_case_s=60, hard_s=120)[0]
    if "words" not in res:
        print("replay: the implementation did not answer:", res)
        return 2
    rec = res["words"][0]
    print("input", rp["input"], "pieces of lengths", rp["composition"])
    print("complete parses at once:   ", rec["whole"]["final"])
    bad = False
    if rec["n_diffs"]:
        print("complete parses in pieces: ", rec["diffs"][0]["final"])
        bad = True
    else:
        print("complete parses in pieces:  the same")
    if rp.get("check") == "io":
        io = rec.get("io") or {}
        print("protocol path (add_receive in chunks", io.get("chunks"), "):")
        print("  packet:", io.get("tree") or io.get("raised"), "consumed", io.get("consumed"))
        print("  incremental parser, same fragments:", io.get("direct"))
        print("  tree among the parses of the consumed prefix at once:", io.get("in_once"),
              "; longer prefix accepted at once:", io.get("longer_once"))
        d = io.get("direct", {})
        bad = (not io.get("fragments_ok", True)) or io.get("tree") != d.get("tree") or \
            ("tree" in io and (io.get("consumed") != d.get("consumed") or not io.get("in_once"))) or \
            io.get("longer_once") is not None
    if rp.get("check") == "can_continue":
        k = rp["composition"][0]
        v = rec["cc_by_prefix"].get(str(k))
        print(f"can_continue after the first {k} units: {v}; whole input accepted: {bool(rec['whole']['final'])}")
        if v is not None and False in v and rec["whole"]["final"]:
            bad = True
    print("replay:", "property violated" if bad else "no violation on the current tree")
    return 1 if bad else 0


def main(tier: str) -> int:
    run = Run(PID, tier, "proof")
    use_repo()
    lean = lean_check("Props.C13", ["drv_incr"])
    cases = mk_cases(run, tier)
    quick = tier == "quick"
    # generous limits: the machine is shared, a loaded machine must not turn slow cases into missing cases
    results = run_pool("harness.impl.incr_real", cases, nproc=16, per_case_s=60 if quick else 180,
                       hard_s=900 if quick else 3000)
    corr: list = []
    scan_reqs: list = []
    run_reqs: list = []
    for case, res in zip(cases, results):
        if "words" not in res:
            key = "timeout" if res.get("timeout") else "killed" if res.get("killed") else "error"
            run.count("grammar:" + key)
            if key == "error":
                run.count("grammar:error:" + str(res.get("error", ""))[:40])
            continue
        run.count("grammar:ok")
        run.count("grammar:linear" if res["alts"] is not None else "grammar:not-linear")
        check_result(run, case, res, corr, scan_reqs, run_reqs)
    # deduplicate identical scan calls before asking the model
    seen, uniq = set(), []
    for q in scan_reqs:
        key = json.dumps([q[0], q[1]["outs"]], sort_keys=True)
        if key not in seen:
            seen.add(key)
            uniq.append(q)
    run.count("scan_calls_distinct", len(uniq))
    compare_model(run, corr, uniq, run_reqs)
    ok_share = run.counters.get("grammar:ok", 0) / max(1, len(cases))
    run.coverage["traces_validated_against_impl"] = run.counters.get("corr:scan", 0) + run.counters.get("corr:run", 0)
    run.coverage["correspondence_disagreements"] = len(corr)
    run.coverage["disagreement_samples"] = corr[:5]
    if ok_share < 0.6:
        from harness.common import MachineryError
        raise MachineryError(f"only {ok_share:.0%} of the grammars could be run (timeouts/errors): {run.counters}")
    if (not lean.ok or corr) and not run.violations:
        what = []
        if not lean.ok:
            what.append("proof obligations of Props/C13.lean no longer check: " + json.dumps(lean.broken)[:600])
        if corr:
            what.append(f"model/implementation correspondence broken on {len(corr)} cases, e.g. "
                        + json.dumps(corr[0])[:600])
        run.report("C13/unproved", "; ".join(what),
                   {"broken_obligations": lean.broken, "correspondence": corr[:20]}, no_input=True)
    return run.finish(
        lean,
        rule="grammars: corner list + seeded generator over {text (literals >= 3 units, multi-byte characters, "
             "shared prefixes), regex, bytes, bits (groups of eight), recursive}; inputs: members by the real "
             "fuzzer + one-edit near misses; all 2^(n-1) compositions for n <= 10, sampled beyond; a case is "
             "non-trivial when the input is accepted, has >= 2 units and >= 2 compositions; distinct by (spec, input)",
        trusted_base=TRUSTED)
