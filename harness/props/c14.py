"""C14 — the C++ and the Python spec readers agree.       (translation validation + proved lexer-base core)

1. obligations: `Props/C14.lean` — both hand-written lexer bases, as token-queue machines over an
   abstract raw-lexer event stream: the Python base delivers the intended token types on EVERY stream; the C++
   base as found does unless the stream ends with a silently skipped newline (witness of that exception =
   the open finding); the C++ base with the second end-of-input check equals the Python base on EVERY stream;
   INDENT/DEDENT balance; the source pins (harness/translate_lex.py) — lake build + axiom audit.
2. tie of the two machines to /repo, per text:
   (a) Python machine: the event stream is RECORDED from the real Python lexer (an instrumented subclass
       of FandangoLexer: on_newline / open_brace / close_brace / emit) and the model's `pyPulls` must equal
       the real lexer's token-type stream;
   (b) C++ machine: the bridge returns no token stream — the C++ lexer is observable only through the
       leaves of the parse tree of texts the C++ front end ACCEPTS (default channel only).  For those the
       model's `cppPulls` (fed with the events recorded from the Python raw lexer, i.e. assuming the two
       generated ATN lexers agree) must equal the leaves.  Rejected texts give no observation (counted).
3. the deciding differential (translation validation, no theorem): for every spec text both front ends —
   through the production path `parse_content` selected by `fandango.Fandango.parser` — either both raise
   (same exception class) or both give the same grammar, constraints, generators and Python code text.
   Texts: all shipped .fan files (size-capped in the quick tier), generated specs, and perturbed variants.
   All counts are fixed per tier (no wall-clock budget decides what is compared).

Known finding `C14/silent-newline-at-eof` (/var/tmp/fixes/C14-eof-after-skipped-newline): a disagreement gets
that signature ONLY IF (i) Python accepts and C++ rejects, (ii) the recorded event stream of the text ends with a
newline that `on_newline` skipped because the bracket counter is positive (computed from the recorded events, no
model involved), and (iii) the model explains it: `cppPullsR true` (the base with the fix) delivers the real Python
token stream on these events and `cppPullsR false` (the base as found) does not, and (iv) the C++ source is still the one as found (pinned
hash of nextToken).  Everything else is
`C14/divergence:<python outcome>/<cpp outcome>` and a VIOLATION.
"""
from __future__ import annotations

import json
import re
import signal
import time
from typing import Any, Optional

from harness import translate_lex
from harness.common import REPO, MachineryError, Run, driver_ask, lean_check, use_repo

PID = "C14"


class Alarm:
    """wall-clock guard around one call of the (slow) pure-Python reader; generous, and a text that hits it is
    counted and skipped, never reported"""

    def __init__(self, seconds: float):
        self.s = seconds

    def __enter__(self):
        def on(signum, frame):
            raise TimeoutError("alarm")
        self.old = signal.signal(signal.SIGALRM, on)
        signal.setitimer(signal.ITIMER_REAL, self.s)

    def __exit__(self, *a):
        signal.setitimer(signal.ITIMER_REAL, 0)
        signal.signal(signal.SIGALRM, self.old)

TRUSTED = [
    "Lean 4.33.0 kernel; axioms ⊆ {propext, Classical.choice, Quot.sound} (audited per run)",
    "hand-written model lean/Model/LexBase.lean of FandangoLexerBase.py and FandangoLexerBase.cpp; the Python "
    "machine is tied per run to the real lexer on recorded event streams, the C++ machine only through the parse "
    "tree leaves of accepted texts",
    "the C++ base runs from the PREBUILT sa_fandango_cpp_parser.so: its source is pinned "
    "(C14_model_matches_pinned_sources), the binary is not — the per-run differential is what exercises it",
    "abstraction: the effect of the generated ATN lexer is the recorded event stream; `LA(1)==EOF` = no event left",
    "NOT covered by any theorem: the generated ATN interpreters / runtimes (Unicode, indices, prediction), the "
    "speedy-antlr bridge, everything after the parse tree — differential testing only",
]

SYN = {"NEWLINE", "INDENT", "DEDENT", "EOF"}
PLACEHOLDER = re.compile(r"___fandango_\d+_(\d+)___")
HEXID = re.compile(r"_[0-9a-f]{6,}\b")


# ================================================================================================
# the real Python lexer, instrumented
# ================================================================================================

def make_recorder():
    from fandango.language.parser.FandangoLexer import FandangoLexer

    class Rec(FandangoLexer):
        def __init__(self, inp):
            super().__init__(inp)
            self.events: list = []
            self._bracket: Optional[str] = None

        def open_brace(self):
            self._bracket = "opn"
            return super().open_brace()

        def close_brace(self):
            self._bracket = "cls"
            return super().close_brace()

        def on_newline(self):
            text = self.text
            spaces = re.sub(r"[\r\n\f]+", "", text)
            la1, la2 = self._input.LA(1), self._input.LA(2)
            self.events.append(["nl", [1 if c == "\t" else 0 for c in spaces], bool(la2 != -1 and la1 in (10, 13, 35))])
            return super().on_newline()

        def emit(self):
            t = super().emit()
            kind = self._bracket or "tok"
            self._bracket = None
            self.events.append([kind, self._type if self._type >= 0 else 0])
            return t
    return Rec


def py_lex(text: str, limit: int = 20000) -> dict:
    """token types of the real Python lexer + the recorded events"""
    from antlr4.InputStream import InputStream
    from fandango.language.parser.FandangoParser import FandangoParser as P
    Rec = make_recorder()
    lx = Rec(InputStream(text))
    lx.removeErrorListeners()
    out, chans = [], []
    for _ in range(limit):
        t = lx.nextToken()
        out.append(t.type)
        chans.append(t.channel)
        if t.type == P.EOF:
            break
    # EOF is reported by emit() too (`emitEOF` does not go through emit, but an empty input does)
    evs = [e for e in lx.events if not (e[0] == "tok" and e[1] == 0)]
    return {"types": out, "channels": chans, "events": evs}


def tname(t: int) -> Any:
    from fandango.language.parser.FandangoParser import FandangoParser as P
    if t == P.EOF:
        return "EOF"
    if t == P.NEWLINE:
        return "NEWLINE"
    if t == P.INDENT:
        return "INDENT"
    if t == P.DEDENT:
        return "DEDENT"
    return t


# ================================================================================================
# outcomes of the two front ends
# ================================================================================================

def canon_text(s: str) -> str:
    return HEXID.sub("_H", PLACEHOLDER.sub(r"___ph\1___", s))


def outcome(text: str, parser: str, filename: str = "<verif>") -> dict:
    from harness.impl import pyfront as pf
    try:
        spec = pf.front_end(text, parser, run_code=False, filename=filename)
    except TimeoutError:
        raise
    except RecursionError:
        return {"err": "RecursionError"}
    except Exception as e:  # noqa
        return {"err": type(e).__name__}
    try:
        g = spec.grammar
        rules = {k.name(): canon_text(v.format_as_spec()) for k, v in g.rules.items()}
        gens = {k.name(): canon_text(v.call) for k, v in g.generators.items()}
        cons = [canon_text(c.format_as_spec()) for c in spec.constraints]
        return {"ok": {"rules": rules, "generators": gens, "constraints": cons, "code": spec.code_text,
                       "mode": str(g.fuzzing_mode)}}
    except Exception as e:  # noqa
        return {"err": "post:" + type(e).__name__}


def first_difference(a: dict, b: dict) -> str:
    if ("err" in a) != ("err" in b):
        return f"python: {'rejects with ' + a['err'] if 'err' in a else 'accepts'}; cpp: " \
               f"{'rejects with ' + b['err'] if 'err' in b else 'accepts'}"
    if "err" in a:
        return f"exception classes differ: python {a['err']}, cpp {b['err']}"
    for k in ("code", "rules", "generators", "constraints", "mode"):
        if a["ok"][k] != b["ok"][k]:
            return f"{k} differ: python {json.dumps(a['ok'][k])[:200]} / cpp {json.dumps(b['ok'][k])[:200]}"
    return "?"


def kind_of(o: dict) -> str:
    return "err:" + o["err"] if "err" in o else "ok"


# ================================================================================================
# generators of spec texts
# ================================================================================================

BASES = [
    "<start> ::= <a> <b>\n<a> ::= 'x' | 'y'\n<b> ::= <a>* 'z'\n",
    "<start> ::= <n>{2,3}\n<n> ::= r'[0-9]+'\nwhere int(<n>) > 1\n",
    "import random\n<start> ::= <a>\n<a> ::= 'a' := pick()\ndef pick():\n    return 'a'\n",
    "<start> ::= <x>\n<x> ::= 'é' | \"ü\" | 'ok'\nwhere str(<x>) != 'é'\n",
    "def f(x):\n    if x:\n        return [\n            1,\n            2,\n        ]\n    return {\n        'a': (x,\n              x),\n    }\n<start> ::= 'q'\n",
    "<start> ::= <a>\n<a> ::= 'a' <a> | 'b'\nwhere len(str(<a>)) < 5\nwhere str(<a>).startswith('a') or True\n",
    "class K:\n    def m(self):\n        for i in range(3):\n            if i:\n                continue\n        return 1\n<start> ::= 'k'\n",
    "<start> ::= <h> <t>\n<h> ::= b'\\x01' | 0 1 0 1\n<t> ::= 'z'+\n",
    "x = f'{1}'\ndef g():\n    s = f\"v={x!r:>4}\"\n    return s\n<start> ::= 'g'\n",
    "<start> ::= <a>;\n<a> ::= ('x' | 'y')+ ;\n",
    "def f():\n    try:\n        pass\n    except Exception as e:\n        raise\n    finally:\n        pass\n<start> ::= 'a'\n",
    "<start> ::= <a>\n<a> ::= 'a'\nwhere forall <x> in <a>:\n    str(<x>) == 'a'\n",
    "x = [1,\n     2]\ny = (3\n     + 4)\n<start> ::= 'a'\n",
    "# comment first\n\n<start> ::= 'a'  # trailing\n\n# end\n",
    "def f():\n    x = 1 \\\n        + 2\n    return x\n<start> ::= 'a'\n",
]

WITNESSES = [
    'def f():\n    return f"("\n',
    '<start> ::= "a"\ndef f():\n    x = f"{{"\n',
    'def f():\n    return f"["\n',
    'if 1:\n    x = f"("',
    'def f():\n    return (1\n',
    'def f():\n    return 1\n    ',
    'def f():\n    return 1\n\n\n',
    'def f():\n    if 1:\n        return 1',
    'def f():\n\treturn 1\n',
    'def f():\n    return 1\n  # dedented comment\n',
    'def f():\n    x = [\n',
    # TAB = next multiple of 8 (get_indentation_count / getIndentationCount): one block / two blocks
    'def f():\n\tx = 1\n        return x\n',
    'if 1:\n    \tx = 1\n\ty = 2\n',
    'if 1:\n  \tx = 1\n    y = 2\n',
    'def f():\n    if 1:\n\treturn 1\n    return 2\n',
    # a newline inside one / two bracket levels, closing at different depths
    'x = [(1,\n  2),\n 3]\ndef f():\n    return (\n1)\n',
    # lexer-level error (both must raise), and DEDENT to an indentation that was never pushed
    'def f():\n    return 1 ?\n',
    'if 1:\n        x = 1\n    y = 2\n',
]


INCLUDE = re.compile(r"""include\(\s*['"]([^'"]+)['"]\s*\)""")


def effective_size(path: str, depth: int = 0) -> int:
    """characters both readers have to read: the file plus what it include()s (resolved like the front end does,
    relative to the including file)"""
    import os
    try:
        txt = open(path, encoding="utf-8", errors="replace").read()
    except OSError:
        return 0
    n = len(txt)
    if depth < 5:
        for m in INCLUDE.finditer(txt):
            q = os.path.join(os.path.dirname(path), m.group(1))
            if os.path.isfile(q):
                n += effective_size(q, depth + 1)
    return n


def corpus_texts() -> list[str]:
    """corpus/C14/*.json: minimised past disagreements ({"text": …}); run first"""
    from harness.common import VERIF
    out = []
    d = VERIF / "corpus" / PID
    if d.is_dir():
        for f in sorted(d.glob("*.json")):
            try:
                out.append(json.load(open(f))["text"])
            except Exception as e:  # noqa
                raise RuntimeError(f"unreadable corpus file {f}: {e}")
    return out


def ends_with_bracket_skipped_newline(events: list) -> bool:
    """from the recorded events alone: the last thing the raw lexer saw is a NEWLINE, and at that point
    `opened` (open_brace() calls minus close_brace() calls) is positive — `on_newline` skips it"""
    if not events or events[-1][0] != "nl":
        return False
    opened = sum(1 for e in events if e[0] == "opn") - sum(1 for e in events if e[0] == "cls")
    return opened > 0


def perturb(rng, text: str) -> tuple[str, str]:
    k = rng.choice(["del_tok", "dup_tok", "indent_tabs", "indent_mixed", "indent_more", "indent_less", "trail_ws",
                    "no_final_nl", "crlf", "cr", "comment", "continuation", "bracket_nl", "fstring", "nonascii",
                    "nul", "blank_lines", "formfeed", "eof_spaces", "unbalanced_open", "fstring_bracket",
                    "fstring_nested", "formfeed_any", "formfeed_any"])
    lines = text.split("\n")
    if k in ("del_tok", "dup_tok"):
        toks = list(re.finditer(r"\S+", text))
        if not toks:
            return k, text
        m = rng.choice(toks)
        return k, (text[:m.start()] + text[m.end():]) if k == "del_tok" else (text[:m.end()] + " " + m.group(0) + text[m.end():])
    if k == "indent_tabs":
        return k, "\n".join(re.sub(r"^( {4})+", lambda m: "\t" * (len(m.group(0)) // 4), ln) for ln in lines)
    if k == "indent_mixed":
        # 8 blanks -> TAB, or 4 blanks + TAB: the same column (8) only if a TAB advances to the next multiple of 8
        return k, "\n".join(re.sub(r"^ {8}", rng.choice(["\t", "    \t", "  \t"]), ln) if rng.random() < 0.6 else ln for ln in lines)
    if k in ("indent_more", "indent_less"):
        idx = [i for i, ln in enumerate(lines) if ln.strip()]
        if not idx:
            return k, text
        i = rng.choice(idx)
        lines[i] = ("  " + lines[i]) if k == "indent_more" else lines[i][min(2, len(lines[i]) - len(lines[i].lstrip())):]
        return k, "\n".join(lines)
    if k == "trail_ws":
        return k, "\n".join(ln + rng.choice(["", " ", "  ", "\t"]) for ln in lines)
    if k == "no_final_nl":
        return k, text.rstrip("\n")
    if k == "crlf":
        return k, text.replace("\n", "\r\n")
    if k == "cr":
        return k, text.replace("\n", "\r")
    if k == "comment":
        i = rng.randrange(len(lines))
        ind = rng.choice(["", "  ", "    ", "\t"])
        lines.insert(i, ind + "# a comment é")
        return k, "\n".join(lines)
    if k == "continuation":
        m = [x for x in re.finditer(r" \+ | = |, ", text)]
        if not m:
            return k, text
        x = rng.choice(m)
        return k, text[:x.end()] + "\\\n      " + text[x.end():]
    if k == "bracket_nl":
        m = [x for x in re.finditer(r"[(\[{,]", text)]
        if not m:
            return k, text
        x = rng.choice(m)
        return k, text[:x.end()] + "\n   " + text[x.end():]
    if k == "fstring":
        return k, text + rng.choice(["y = f'{1}{2!r}'\n", "y = f\"a{ 1 }b\"\n", "y = f'{{}}'\n", "y = f'''{1}\n'''\n",
                                     "def h():\n    return f'{1:>{2}}'\n"])
    if k == "fstring_bracket":
        return k, text + rng.choice(["def h():\n    return f'('\n", "def h():\n    y = f'[' + f']'\n    return y\n",
                                     "def h():\n    return f')'\n", "def h():\n    y = f'{{'\n"])
    if k == "fstring_nested":
        # an f-string inside a replacement field of another, followed by further quotes (seeded change C14-1: the
        # Python lexer counting nesting depth where the C++ lexer keeps a flag)
        return k, text + rng.choice(['v = f"{f\'{1}\'}" + "a"\n', 'v = f"{f\'{1}\' + \'a\'}"\n',
                                     "def tag(s):\n    return f'<{f'{s}'}>' + '!'\n",
                                     'w = f"{f"{1}"}" + \'b\' + "c"\n', "u = f'{f'{f'{2}'}'}' 'x'\n"])
    if k == "formfeed_any":
        # a form feed acting as (part of) a line break anywhere, mixed with ordinary breaks (seeded change C14-2)
        idx = [i for i, ch in enumerate(text) if ch == "\n"]
        if not idx:
            return k, text
        i = rng.choice(idx)
        return k, text[:i] + rng.choice(["\f", "\f\n", "\n\f", "\f\f\n", "\n\f\n"]) + text[i + 1:]
    if k == "nonascii":
        return k, text.replace("'a'", "'ä€'").replace("<a>", "<ä>") if rng.random() < 0.5 else text + "é = 'ü'\n"
    if k == "nul":
        i = rng.randrange(len(text) + 1)
        return k, text[:i] + "\x00" + text[i:]
    if k == "blank_lines":
        i = rng.randrange(len(lines))
        lines.insert(i, rng.choice(["", "   ", "\t", "    "]))
        return k, "\n".join(lines)
    if k == "formfeed":
        return k, text.replace("\n", "\f\n", 1)
    if k == "eof_spaces":
        return k, text + rng.choice(["    ", "  ", "\t", "    \n    ", " \n"])
    if k == "unbalanced_open":
        return k, text + rng.choice(["def h():\n    return (1\n", "def h():\n    x = [\n", "y = {\n"])
    return k, text


def gen_spec(rng) -> str:
    """a small spec: a few productions, optionally an indented helper and a constraint"""
    parts = ["<start> ::= <a> <b>\n", "<a> ::= " + rng.choice(["'x'", "'x' | 'y'", "('x' 'y')+", "<b>*", "'x'{2}", "r'[a-z]'"]) + "\n",
             "<b> ::= " + rng.choice(["'z'", "\"q\"?", "'z' := str(1)", "b'\\x00'"]) + "\n"]
    if rng.random() < 0.6:
        body = rng.choice(["    return 1\n", "    if x:\n        return [1,\n                2]\n    return 0\n",
                           "    for i in x:\n        pass\n    else:\n        pass\n    return x\n",
                           "    y = (x,\n         x)\n    return y\n", "\treturn x\n", "    return f'{x}'\n"])
        parts.insert(rng.randrange(len(parts) + 1), "def h(x):\n" + body)
    if rng.random() < 0.6:
        parts.append("where " + rng.choice(["len(str(<a>)) > 0", "str(<a>) != str(<b>)", "<a> == 'x' or <b> != 'z'",
                                            "all(c in 'xy' for c in str(<a>))", "int('1') < 2"]) + "\n")
    return "".join(parts)


# ================================================================================================

def replay(path: str) -> int:
    use_repo()
    rp = json.load(open(path))
    if "text" not in rp:
        print("replay file names broken obligations / correspondence only:", json.dumps(rp, indent=1)[:2000])
        return 1
    text = rp["text"]
    a, b = outcome(text, "python"), outcome(text, "cpp")
    print("text:", repr(text))
    print("python:", json.dumps(a)[:600])
    print("cpp   :", json.dumps(b)[:600])
    bad = a != b
    print("replay:", "property violated: " + first_difference(a, b) if bad else "no violation on the current tree")
    return 1 if bad else 0


# fixed case counts per tier (nothing below is decided by the clock; the safety caps are ~5x the measured time)
COUNTS = {
    "quick":    {"generated": 20, "perturbed": 80, "file_cap": 260, "py_alarm": 90, "safety_cap_s": 1200},
    "thorough": {"generated": 200, "perturbed": 800, "file_cap": 6500, "py_alarm": 600, "safety_cap_s": 6000},
}


def main(tier: str) -> int:
    run = Run(PID, tier, "translation_validation")
    use_repo()
    from harness.impl import pyfront as pf
    gen = translate_lex.regenerate()
    lean = lean_check("Props.C14", ["drv_lex"])
    for r in gen["refusals"]:
        lean.broken.append({"module": "Generated.Lex", "reason": "translator refused: " + r})
    cfg = COUNTS[tier]
    drv_ok = not any(b.get("reason") == "lake build failed" for b in lean.broken)
    counters: dict[str, int] = {}
    corr: list = []

    def count(k: str, n: int = 1) -> None:
        counters[k] = counters.get(k, 0) + n

    # ---------------------------------------------------------------- texts
    rng = run.rng("texts")
    texts: list[tuple[str, str]] = [("corpus", t) for t in corpus_texts()] + [("witness", w) for w in WITNESSES] \
        + [("base", b) for b in BASES]
    for _ in range(cfg["generated"]):
        texts.append(("generated", gen_spec(rng)))
    pool = BASES + [t for k, t in texts if k == "generated"]
    for _ in range(cfg["perturbed"]):
        k, t = perturb(rng, rng.choice(pool))
        if rng.random() < 0.25:
            k2, t = perturb(rng, t)
            k = k + "+" + k2
        for kk in k.split("+"):
            run.count("perturbation:" + kk)
        texts.append(("perturbed:" + k, t))
    files = sorted((effective_size(str(p)), str(p)) for p in REPO.rglob("*.fan") if ".git" not in p.parts)
    for size, p in files:
        try:
            txt = open(p, encoding="utf-8").read()
        except Exception:  # noqa
            count("files_unreadable")
            continue
        if size <= cfg["file_cap"]:
            texts.append(("file:" + p, txt))
        else:
            count("files_over_size_cap(incl. what they include)")
    # distinct texts only, first origin wins
    seen_t: set[str] = set()
    uniq = []
    for kind, text in texts:
        if text in seen_t:
            count("duplicate_texts_dropped")
            continue
        seen_t.add(text)
        uniq.append((kind, text))
    texts = uniq
    for kind, text in texts:
        run.count("texts:" + kind.split(":")[0])
        n = len(text)
        run.count("text_size:" + ("<100" if n < 100 else "<500" if n < 500 else "<5000" if n < 5000 else ">=5000"))

    # ---------------------------------------------------------------- (2) lexer-base correspondence
    reqs, metas = [], []
    for kind, text in texts:
        try:
            lx = py_lex(text, limit=max(20000, 2 * len(text) + 100))
        except Exception as e:  # noqa
            count("pylex_failed:" + type(e).__name__)
            continue
        reqs.append({"op": "run", "evs": lx["events"], "n": len(lx["types"]) + 2})
        metas.append((kind, text, lx))
    run.coverage["t_lexing_s"] = round(time.time() - run.t0, 1)
    answers = []
    if reqs:
        try:
            # also when Props.C14 no longer builds (a pinned source changed): the driver does not depend on Props/,
            # and the model's answers are what turns a broken pin into a concrete failing text
            answers = driver_ask("drv_lex", reqs, timeout=1800)
        except MachineryError:
            if drv_ok:
                raise
            count("driver_unavailable(build failed)")
    # per text: does the stream end with a newline skipped inside brackets (events only), and does the model
    # explain a C++ rejection by the known defect (fixed base = real Python stream ≠ base as found)?
    skipped_end: dict[str, bool] = {}
    explained: dict[str, bool] = {}
    for (kind, text, lx), a in zip(metas, answers):
        real = [tname(t) for t in lx["types"]]
        model = a["py"][:len(real)]
        skipped_end[text] = ends_with_bracket_skipped_newline(lx["events"])
        explained[text] = a["cpp_fixed"][:len(real)] == real and a["cpp_as_found"][:len(real)] != real
        count("lexer_streams")
        count("loud" if a["loud"] else "ends_with_silent_newline")
        if explained[text]:
            count("streams_on_which_the_cpp_base_as_found_differs")
        nontriv = any(t in ("INDENT", "DEDENT") for t in real)
        run.case(["lex", text], nontriv, {"kind": kind, "text": text[:120], "tokens": real[:40]} if len(run._samples) < 3 else None)
        if model != real:
            corr.append({"kind": "python-machine", "text": text, "model": model[:60], "impl": real[:60]})
        if a["loud"] and (a["cpp"][:len(real)] != real or a["cpp_fixed"][:len(real)] != real):
            # C14_bases_equal_partial says this cannot happen; a driver/model regression if it does
            corr.append({"kind": "model-self-check(loud stream, machines differ)", "text": text,
                         "model": a["cpp"][:60], "impl": real[:60]})
        # (b) the C++ machine through the parse tree of accepted texts
        try:
            tree = pf.parse_tree(text, "cpp")
        except Exception:  # noqa
            count("cpp_rejects(no token observation)")
            continue
        leaves = [nm for nm, _ in pf.leaves(tree)]
        hidden = {t for t, ch in zip(lx["types"], lx["channels"]) if ch != 0}
        want = []
        for t in a["cpp"]:
            if isinstance(t, int) and t in hidden:
                continue
            want.append(t if isinstance(t, str) else pf.tok_name(t))
            if t == "EOF":
                break
        # the tree holds the tokens the parser consumed: up to and including the first EOF
        got = leaves[:leaves.index("EOF") + 1] if "EOF" in leaves else leaves
        count("cpp_leaf_checks")
        if got != want:
            corr.append({"kind": "cpp-machine", "text": text, "model": want[:60], "impl": got[:60]})
    run.coverage["traces_validated_against_impl"] = counters.get("lexer_streams", 0)
    run.coverage["t_lexer_part_s"] = round(time.time() - run.t0, 1)

    # ---------------------------------------------------------------- (3) the deciding differential
    t_d = time.time()
    diffs: dict[str, dict] = {}
    dcount: dict[str, int] = {}
    pairs: dict[str, int] = {}
    n_prog = 0
    # corpus and witnesses first, then by size
    order = sorted(range(len(texts)), key=lambda i: (0 if texts[i][0] in ("corpus", "witness") else 1 if texts[i][0] == "base" else 2,
                                                     len(texts[i][1])))
    for i in order:
        kind, text = texts[i]
        if time.time() - t_d > cfg["safety_cap_s"]:
            count("differential_cut_short(safety cap)")
            break
        fn = kind[5:] if kind.startswith("file:") else "<verif>"
        b = outcome(text, "cpp", fn)
        try:
            with Alarm(cfg["py_alarm"]):
                a = outcome(text, "python", fn)
        except TimeoutError:
            count("python_reader_too_slow(skipped)")
            continue
        n_prog += 1
        k = kind.split(":")[0]
        count("diff:" + k)
        key = kind_of(a) + " / " + kind_of(b)
        pairs[key] = pairs.get(key, 0) + 1
        run.case(["diff", text], "err" not in a or "err" not in b, None)
        if a != b:
            # … and only while the SOURCE of the C++ base is the one as found: with the fix in the source the same
            # rejection means the binary is stale, which must not hide behind the known finding
            known_class = (kind_of(a) == "ok" and kind_of(b) == "err:FandangoSyntaxError"
                           and gen.get("cppRecheck") is False
                           and skipped_end.get(text) is True and explained.get(text) is True)
            sig = "C14/silent-newline-at-eof" if known_class else f"C14/divergence:{kind_of(a)}/{kind_of(b)}"
            dcount[sig] = dcount.get(sig, 0) + 1
            if sig not in diffs or len(text) < len(diffs[sig]["text"]):
                diffs[sig] = {"text": text, "kind": kind, "what": first_difference(a, b)}
    for sig, d in diffs.items():
        run.report(sig, f"the two readers disagree on {d['text'][:160]!r} ({d['kind']}): {d['what']} "
                        f"[{dcount[sig]} text(s) with this signature]", {"text": d["text"], "origin": d["kind"]})
    run.coverage["t_differential_s"] = round(time.time() - t_d, 1)
    run.coverage["programs"] = n_prog
    run.coverage["disagreements_checked"] = sum(dcount.values())
    run.coverage["disagreement_signatures"] = dcount
    run.coverage["outcome_pairs(python / cpp)"] = dict(sorted(pairs.items()))
    run.coverage["c14_counters"] = dict(sorted(counters.items()))
    run.coverage["pins"] = gen["pins"]
    run.coverage["cpp_base_variant"] = "with the second end-of-input check (fixed)" if gen.get("cppRecheck") else "as found"
    run.coverage["correspondence_disagreements"] = len(corr)
    run.coverage["correspondence_samples"] = corr[:5]

    if (not lean.ok or corr) and not run.violations:
        what = []
        if not lean.ok:
            what.append("proof obligations of Props/C14.lean no longer check: " + json.dumps(lean.broken)[:700])
        if corr:
            what.append(f"lexer-base model / implementation correspondence broken on {len(corr)} texts, e.g. "
                        + json.dumps(corr[0])[:500])
        rp: dict = {"broken_obligations": lean.broken, "correspondence": corr[:20]}
        if corr:
            rp["text"] = corr[0]["text"]
        run.report("C14/unproved", "; ".join(what), rp, no_input=True)
    return run.finish(
        lean,
        rule="corpus + witness texts, hand-written base specs, generated specs (productions + indented helper + constraint), "
             "perturbed variants (token deletion/duplication, tabs/mixed/more/less indentation, trailing blanks, no final "
             "newline, CRLF/CR, comments, continuations, brackets across lines, f-strings incl. bracket characters, "
             "non-ASCII, NUL, blank lines, form feed, blanks at EOF, unbalanced brackets) and the shipped .fan files "
             "(size-capped in the quick tier); counts fixed per tier; non-trivial = the token stream has INDENT/DEDENT "
             "(lexer part) or at least one reader accepts (differential); distinct by text",
        explanation="differential of the two production front ends for all of the property; machine-checked proof "
                    "(Props/C14.lean) only for the two hand-written lexer bases, see level_note",
        trusted_base=TRUSTED)
