"""C15 — printing a spec and reading it back preserves its meaning.

1. obligations: harness/translate_print.py -> Generated/Print.lean, Props/C15.lean (lake build, axiom audit)
2. correspondence (model vs code)
   P  printer: random IR built from the real node classes, `node.format_as_spec()` vs the model's
      `print` (tokens rendered with the layout of the code); literal tokens through the model of
      `repr` (Model/PyLit.lean), compared with CPython `repr()`/`eval` directly as well
   R  reader: the printed text (and random, mostly ill-formed, token strings incl. computed brace groups) read by
      the REAL front end (ANTLR + GrammarProcessor) vs the model's `read`; and real read(print n) vs `norm n`
   X  regex terminals: model `printRegex` vs `Terminal.format_as_spec()`; model `evalRaw` vs the real front end on
      the printed literal and on mutated literal texts; every instance of the oracle assumption `HexEscapeSound`
      the proof uses (`spellSteps`) and the conclusion vs CPython `re` on a candidate set
   Q  selectors: model `printSel`/`printTop` vs the real search classes' `format_as_spec()`; model `readTop` vs the
      real front end on the printed text and on mutated token strings; `normSel` vs what the front end builds;
      the re-read search object FINDS what the original finds (real `find` on real trees)
   Y  payloads: specs with computed repetition bounds and generators: real grammar -> model rules (`crep`, `Expr`);
      model `printG` vs `repr(grammar)`; real read of the printed text vs model `readG` / `normG`
3. the property on the real code
   (i)   the printed text parses; (ii) same language: the re-read IR accepts exactly the same child
   token sequences (verified `matchIR`, drv_ir) on sequences sampled from both + mutations (+ all short
   sequences in the thorough tier); printing is idempotent; multi-rule specs through `repr(grammar)`
   and through `fandango convert` (.fan -> .fan) incl. parties, python code, generators, computed
   repetitions; regex terminals compared by what they match; words parsed by both real grammars;
   (iii) constraints: `c.format_as_spec()` re-read as `where …` gives the same verdicts (real `check`)
Replay = the spec text (regex: the pattern; selector: the term).
"""
from __future__ import annotations

import contextlib
import io
import itertools
import json
import os
import re
import shutil
import tempfile
import warnings
from typing import Any, Iterable, Optional

from harness import translate_print
from harness.common import LEAN, MachineryError, Run, driver_ask, lean_check, use_repo
from harness.impl import grammar_io as gio

PID = "C15"

TRUSTED = [
    "Lean 4.33.0 kernel; axioms ⊆ {propext, Classical.choice, Quot.sound} (audited per run)",
    "hand-written models lean/Model/Print.lean (format_as_spec of grammar nodes; ANTLR production sub-grammar + "
    "GrammarProcessor) and lean/Model/PyLit.lean (CPython repr / literal evaluation); tied by this run's correspondence",
    "translator harness/translate_print.py (operand parenthesisation, bound printing, operator characters, "
    "shapes of Alternative/Concatenation/NonTerminalNode.format_as_spec, MAX_REPETITIONS) -> Generated/Print.lean",
    "shared E2 core (Model/IR.lean Matches/matchIR, Proofs/IR.lean matchIR_iff) and harness/impl/grammar_io.py",
    "CPython re.fullmatch as the regex oracle; str.isprintable as the printability oracle of repr",
    "hand-written model lean/Model/PrintSearch.lean (format_as_spec of the search classes; selector sub-grammar + "
    "SearchProcessor) and the regex part of lean/Model/PyLit.lean (_spell_regex; lexer SHORT_STRING/SHORT_BYTES + CPython "
    "raw literal evaluation); tied by this run's correspondence (phases X, Q, Y) and by the translator's MIRRORED sources",
    "oracle assumption PyLit.HexEscapeSound about `re` (c, \\c and \\xNN denote the same wherever a unit stands): every "
    "instance used is checked against CPython re on a fixed candidate set; refuted for verbose patterns (open finding)",
    "the segmentation of Python expression text into text chunks and selector occurrences is taken from the real front "
    "end (placeholders of ast.unparse text), not modelled",
    "the boolean/comparison/quantifier layer of constraint printing above the selectors is NOT modelled: differential only",
]

# ------------------------------------------------------------------------------------------------
# pools
# ------------------------------------------------------------------------------------------------

TEXTS = ["a", "b", "ab", "x", "0", " ", "it's", 'say "hi"', "'\"", "\\", "\\n", "\n", "\t\r", "\x00", "\x7f", "\x80",
         "é", "ÿ", "€", "😀", "\ud800", "\u2028", "\xad", "a'b\"c\\d", "<a>", "{2}", "(|)*", "#c", "''", '""',
         "\U0010ffff", "ǅ", "\u0378", "\xa0"]
BYTESS = [b"a", b"b", b"\x00", b"\xff", b"\x80\x7f", b"'", b'"', b"'\"", b"\\", b"\n\t\r", b"it's", b" ", b"\\x00"]
# (pattern, is_bytes)
REGEXES: list[Any] = ["[a-z]+", "\\d", "a|b", "'", '"', "x'y\"z", "\\\\", "é+", "a b", "\\x41", "[^\\n]", "\\.", "(ab)*c",
                      "[']", "\\w\\s", "a{2,3}", b"[\\x00-\\x10]", b"a+", b"'", b'"', b"\\xff", b"\\\\", b"[^a]"]
# regexes whose value holds both quote kinds with a backslash-escaped quote: only these can be written as
# a one-line raw literal, and these are what the `\x27` rewriting gets wrong (known finding)
REGEXES_MIXED: list[Any] = ["\\'\"", "a\\'b\"", b"\\'\"", "\\\"'", b"\\\"'"]
NTS = ["<a>", "<b>", "<c_d>", "<e1>"]
PARTIES = ["Alice", "Bob", "S"]
CANDS_T = ["", "a", "b", "c", "ab", "abc", "aa", "aaa", "aaaa", "z", "A", "5", "55", " ", "a b", "'", '"', "x'y\"z", "'\"", "\"'",
           "\\", "\\\\", "\\'\"", "\\x27\"", "x27\"", "é", "éé", "\n", ".", "q.", "c", "ababc", "a 1", "_ ", "a'b\"", "a\\'b\"",
           "\\x27", "\\\"'", "\\\"\\x27", "\"\\x27"]
CANDS_B = [c.encode("latin-1") for c in CANDS_T if all(ord(x) < 256 for x in c)] + [b"\x00", b"\x05", b"\xff", b"\x10", b"\x11"]


def leaf_of(v: Any) -> list:
    return gio.leaf_json(v)


def leaf_val(leaf: list) -> Any:
    return gio.leaf_value(leaf[0], leaf[1])


# ------------------------------------------------------------------------------------------------
# IR generation (JSON of Driver/IRJson.lean; regexes as ["re", index into `pats`])
# ------------------------------------------------------------------------------------------------

class Gen:
    def __init__(self, rng, cap: int, parties: bool = True, mixed_regex: bool = False):
        self.rng, self.cap, self.parties, self.mixed = rng, cap, parties, mixed_regex
        self.pats: list[Any] = []
        self.n = 0

    def fresh(self, kind: str) -> str:
        self.n += 1
        return f"{kind}{self.n}"

    def re_id(self, pat: Any) -> int:
        for i, p in enumerate(self.pats):
            if p == pat and type(p) is type(pat):
                return i
        self.pats.append(pat)
        return len(self.pats) - 1

    def atom(self) -> list:
        r = self.rng.random()
        if r < 0.30:
            return ["lit", leaf_of(self.rng.choice(TEXTS))]
        if r < 0.40:
            return ["lit", leaf_of(self.rng.choice(BYTESS))]
        if r < 0.48:
            return ["lit", ["i", self.rng.randint(0, 1)]]
        if r < 0.62:
            pool = REGEXES + (REGEXES_MIXED if self.mixed else [])
            return ["re", self.re_id(self.rng.choice(pool))]
        name = self.rng.choice(NTS)
        if self.parties and self.rng.random() < 0.35:
            s = self.rng.choice(PARTIES)
            rcp = self.rng.choice(PARTIES + [None])
            return ["nt", name, s, rcp]
        return ["nt", name, None, None]

    def bounds(self) -> tuple:
        r = self.rng.random()
        if r < 0.3:
            k = self.rng.randint(1, 4)
            return k, k
        if r < 0.6:
            return self.rng.randint(0, min(4, self.cap)), None
        lo = self.rng.randint(0, 3)
        return lo, lo + self.rng.randint(0 if lo else 1, 3)

    def node(self, depth: int, allow_single: bool) -> list:
        """allow_single: singleton / empty-free alternatives and sequences of one element, which only the
        constructors (not the parser) can build"""
        if depth <= 0 or self.rng.random() < 0.22:
            return self.atom()
        r = self.rng.random()
        lo = 1 if allow_single and self.rng.random() < 0.25 else 2
        if r < 0.28:
            k = self.rng.randint(lo, 3)
            return ["alt", self.fresh("a"), [self.node(depth - 1, allow_single) for _ in range(k)]]
        if r < 0.60:
            k = self.rng.randint(lo, 4)
            return ["cat", self.fresh("c"), [self.node(depth - 1, allow_single) for _ in range(k)]]
        kind = self.rng.choice(["star", "plus", "opt", "braces", "braces"])
        inner = self.node(depth - 1, allow_single)
        if kind == "star":
            return ["rep", self.fresh("s"), "star", inner, 0, None]
        if kind == "plus":
            return ["rep", self.fresh("p"), "plus", inner, 1, None]
        if kind == "opt":
            return ["rep", self.fresh("o"), "opt", inner, 0, 1]
        mn, mx = self.bounds()
        return ["rep", self.fresh("r"), "braces", inner, mn, mx]


def node_stats(ir: list, acc: dict) -> None:
    acc[ir[0]] = acc.get(ir[0], 0) + 1
    if ir[0] in ("alt", "cat"):
        for k in ir[2]:
            node_stats(k, acc)
    elif ir[0] == "rep":
        acc["rep:" + ir[2]] = acc.get("rep:" + ir[2], 0) + 1
        acc["under_postfix:" + ir[3][0]] = acc.get("under_postfix:" + ir[3][0], 0) + 1
        if ir[5] is None and ir[2] == "braces":
            acc["open_bound"] = acc.get("open_bound", 0) + 1
        node_stats(ir[3], acc)
    elif ir[0] == "nt" and ir[2]:
        acc["party"] = acc.get("party", 0) + 1


def depth_of(ir: list) -> int:
    if ir[0] in ("alt", "cat"):
        return 1 + max([depth_of(k) for k in ir[2]] or [0])
    if ir[0] == "rep":
        return 1 + depth_of(ir[3])
    return 0


# ------------------------------------------------------------------------------------------------
# the real classes
# ------------------------------------------------------------------------------------------------

def build_real(ir: list, pats: list):
    from fandango.language.grammar.nodes.alternative import Alternative
    from fandango.language.grammar.nodes.concatenation import Concatenation
    from fandango.language.grammar.nodes.non_terminal import NonTerminalNode
    from fandango.language.grammar.nodes.repetition import Option, Plus, Repetition, Star
    from fandango.language.grammar.nodes.terminal import TerminalNode
    from fandango.language.symbols import NonTerminal, Terminal
    t = ir[0]
    if t == "lit":
        return TerminalNode(Terminal(leaf_val(ir[1])), [])
    if t == "re":
        sym = Terminal(pats[ir[1]])
        sym._is_regex = True
        return TerminalNode(sym, [])
    if t == "nt":
        return NonTerminalNode(NonTerminal(ir[1]), [], ir[2], ir[3])
    if t == "alt":
        return Alternative([build_real(k, pats) for k in ir[2]], [], ir[1])
    if t == "cat":
        return Concatenation([build_real(k, pats) for k in ir[2]], [], ir[1])
    if t == "rep":
        inner = build_real(ir[3], pats)
        if ir[2] == "star":
            return Star(inner, [], ir[1])
        if ir[2] == "plus":
            return Plus(inner, [], ir[1])
        if ir[2] == "opt":
            return Option(inner, [], ir[1])
        return Repetition(inner, [], ir[1], ir[4], ir[5])
    raise MachineryError(f"bad ir {ir!r}")


def real_terminal_text(ir: list, pats: list) -> str:
    return build_real(ir, pats).format_as_spec()


def current_cap() -> int:
    import fandango.language.grammar.nodes as nodes
    return int(nodes.MAX_REPETITIONS)


def quiet():
    return contextlib.redirect_stderr(io.StringIO())


_counter = [0]


def read_real(text: str):
    """the real front end without the post-processing of parse() (what `fandango convert` uses):
    FandangoSpec (grammar, constraints) or raises"""
    from fandango.language.parse.parse_spec import parse_content
    _counter[0] += 1
    with warnings.catch_warnings():
        warnings.simplefilter("ignore")
        with quiet():
            return parse_content(text, filename=f"<c15-{_counter[0]}>", use_cache=False)


def reject_kind(e: BaseException) -> str:
    n = type(e).__name__
    return {"FandangoSyntaxError": "syntax", "FandangoValueError": "value", "UnsupportedOperation": "unsupported"}.get(n, "other:" + n)


# ------------------------------------------------------------------------------------------------
# canonical forms
# ------------------------------------------------------------------------------------------------

_fp_cache: dict = {}


def regex_fingerprint(pat: Any) -> str:
    key = (type(pat).__name__, pat)
    if key not in _fp_cache:
        cands = CANDS_T if isinstance(pat, str) else CANDS_B
        try:
            cre = re.compile(pat)
            bits = "".join("1" if cre.fullmatch(c) else "0" for c in cands)
        except re.error as e:
            bits = "error:" + str(e)
        _fp_cache[key] = ("t:" if isinstance(pat, str) else "b:") + bits
    return _fp_cache[key]


def canon(ir: Optional[list], pats: list, textual_regex: bool = False) -> Any:
    """ids erased, regexes by what they match on the candidate set (or by text)"""
    if ir is None:
        return None
    t = ir[0]
    if t == "lit":
        return ["lit", ir[1]]
    if t == "re":
        p = pats[ir[1]]
        if textual_regex:
            return ["re", "b" if isinstance(p, bytes) else "t", list(p) if isinstance(p, bytes) else [ord(c) for c in p]]
        return ["re", regex_fingerprint(p)]
    if t == "nt":
        return ["nt", ir[1], ir[2], ir[3]]
    if t in ("alt", "cat"):
        return [t, [canon(k, pats, textual_regex) for k in ir[2]]]
    if t == "crep":
        return ["crep", canon(ir[2], pats, textual_regex), ir[3]]
    return ["rep", ir[2], canon(ir[3], pats, textual_regex), ir[4], ir[5]]


def regex_positions(ir: list, out: list) -> list:
    if ir[0] == "re":
        out.append(ir[1])
    elif ir[0] in ("alt", "cat"):
        for k in ir[2]:
            regex_positions(k, out)
    elif ir[0] == "rep":
        regex_positions(ir[3], out)
    return out


# ------------------------------------------------------------------------------------------------
# rendering the model's tokens with the code's layout
# ------------------------------------------------------------------------------------------------

def printable_of(cps: Iterable[int]) -> list[int]:
    return sorted({c for c in cps if c >= 128 and chr(c).isprintable()})


def render(toks: list, lit_text, re_text) -> str:
    out: list[str] = []
    prev = None
    for t in toks:
        if isinstance(t, str):
            s = t
            postfix = t in "*+?"
        elif t[0] in ("{", "{,"):
            s = "{%d}" % t[1] if (t[0] == "{" and len(t) == 2) else "{%d,%d}" % (t[1], t[2]) if t[0] == "{" else "{%d,}" % t[1]
            postfix = True
        elif t[0] == "nt":
            name = t[1][1:-1]
            s = f"<{name}>" if t[2] is None else f"<{t[2]}:{name}>" if t[3] is None else f"<{t[2]}:{t[3]}:{name}>"
            postfix = False
        elif t[0] == "lit":
            s, postfix = lit_text(t[1]), False
        else:
            s, postfix = re_text(t[1]), False
        if prev is not None and not (prev == "(" or s == ")" or postfix):
            out.append(" ")
        out.append(s)
        prev = s
    return "".join(out)


def model_literal_texts(leaves: list[list]) -> dict[str, str]:
    """repr of each distinct str/bytes leaf by the model (drv_print pyrepr)"""
    keys, reqs = [], []
    for lf in leaves:
        k = json.dumps(lf)
        if k in keys or lf[0] == "i":
            continue
        keys.append(k)
        if lf[0] == "t":
            reqs.append({"op": "pyrepr", "kind": "t", "v": lf[1], "printable": printable_of(lf[1])})
        else:
            reqs.append({"op": "pyrepr", "kind": "b", "v": lf[1]})
    ans = driver_ask("drv_print", reqs) if reqs else []
    return {k: "".join(chr(c) for c in a["text"]) for k, a in zip(keys, ans)}


def leaves_in(ir: list, out: list) -> list:
    if ir[0] == "lit":
        out.append(ir[1])
    elif ir[0] in ("alt", "cat"):
        for k in ir[2]:
            leaves_in(k, out)
    elif ir[0] == "rep":
        leaves_in(ir[3], out)
    return out


# ------------------------------------------------------------------------------------------------
# language comparison with the verified matcher
# ------------------------------------------------------------------------------------------------

def tok_leaf(v: Any) -> list:
    return leaf_of(v)


def oracle_table(pats: list) -> list:
    out = []
    for i, p in enumerate(pats):
        try:
            cre = re.compile(p)
        except re.error:
            continue
        for c in (CANDS_T if isinstance(p, str) else CANDS_B):
            if cre.fullmatch(c):
                out.append([i, leaf_of(c)])
    return out


def sample_word(ir: list, pats: list, rng, accepted: dict) -> Optional[list]:
    t = ir[0]
    if t == "lit":
        return [ir[1]]
    if t == "re":
        ok = accepted.get(ir[1])
        if not ok:
            return None
        return [rng.choice(ok)]
    if t == "nt":
        return [["nt", ir[1]]]
    if t == "alt":
        return sample_word(rng.choice(ir[2]), pats, rng, accepted)
    if t == "cat":
        out: list = []
        for k in ir[2]:
            w = sample_word(k, pats, rng, accepted)
            if w is None:
                return None
            out += w
        return out
    mn, mx = ir[4], ir[5]
    hi = mn + 2 if mx is None else min(mx, mn + 2)
    n = rng.choice([mn, mn, hi, rng.randint(mn, hi)])
    out = []
    for _ in range(n):
        w = sample_word(ir[3], pats, rng, accepted)
        if w is None:
            return None
        out += w
    return out


def alphabet(ir: list, acc: list) -> list:
    t = ir[0]
    if t == "lit":
        if ir[1] not in acc:
            acc.append(ir[1])
    elif t == "nt":
        k = ["nt", ir[1]]
        if k not in acc:
            acc.append(k)
    elif t in ("alt", "cat"):
        for k in ir[2]:
            alphabet(k, acc)
    elif t == "rep":
        alphabet(ir[3], acc)
    return acc


def rep_nesting(ir: list) -> int:
    """longest chain of nested repetitions (the derivative matcher is exponential in the word length on
    ambiguous nestings like (a+)+, so words are kept short there)"""
    if ir[0] in ("alt", "cat"):
        return max([rep_nesting(k) for k in ir[2]] or [0])
    if ir[0] == "rep":
        return 1 + rep_nesting(ir[3])
    return 0


def words_for(ir1: list, pats1: list, ir2: Optional[list], pats2: list, rng, n_samples: int, exhaustive: int) -> list[list]:
    nest = max(rep_nesting(ir1), rep_nesting(ir2) if ir2 is not None else 0)
    max_len = 12 if nest <= 1 else 8 if nest == 2 else 6
    acc1 = {}
    for i, lf in oracle_table(pats1):
        acc1.setdefault(i, []).append(lf)
    acc2 = {}
    for i, lf in oracle_table(pats2):
        acc2.setdefault(i, []).append(lf)
    words: list[list] = [[]]
    for _ in range(n_samples):
        for ir, pats, acc in ((ir1, pats1, acc1), (ir2, pats2, acc2)):
            if ir is None:
                continue
            w = sample_word(ir, pats, rng, acc)
            if w is None or len(w) > max_len:
                continue
            words.append(w)
            if w:
                r = rng.random()
                i = rng.randrange(len(w))
                if r < 0.3:
                    words.append(w[:i] + w[i + 1:])
                elif r < 0.6:
                    words.append(w[:i] + [w[i]] + w[i:])
                elif r < 0.8 and len(w) > 1:
                    j = rng.randrange(len(w))
                    v = list(w)
                    v[i], v[j] = v[j], v[i]
                    words.append(v)
                else:
                    words.append(w + w)
    if exhaustive:
        alpha = alphabet(ir1, [])
        for lf in [x for v in acc1.values() for x in v][:3]:
            if lf not in alpha:
                alpha.append(lf)
        alpha = alpha[:4]
        for n in range(1, exhaustive + 1):
            for w in itertools.product(alpha, repeat=n):
                words.append(list(w))
    seen, out = set(), []
    for w in words:
        if len(w) > max_len + 1:
            continue
        k = json.dumps(w)
        if k not in seen:
            seen.add(k)
            out.append(w)
    return out


def match_requests(ir: list, pats: list, words: list[list]) -> list[dict]:
    orc = oracle_table(pats)
    return [{"op": "match", "node": ir, "oracle": orc, "toks": w} for w in words]


# ------------------------------------------------------------------------------------------------
# source text for the spec route
# ------------------------------------------------------------------------------------------------

def src_literal(v: Any, rng) -> str:
    if isinstance(v, int):
        return str(v)
    if isinstance(v, bytes):
        return repr(v) if rng.random() < 0.5 else "b'" + "".join("\\x%02x" % c for c in v) + "'"
    r = rng.random()
    if r < 0.4:
        return repr(v)
    if r < 0.7:
        return ascii(v)
    body = "".join("\\u%04x" % ord(c) if ord(c) < 0x10000 else "\\U%08x" % ord(c) for c in v)
    return '"' + body + '"'


def src_regex(p: Any) -> Optional[str]:
    """a one-line raw literal with this value, if there is one"""
    pre = "rb" if isinstance(p, bytes) else "r"
    s = p.decode("latin-1") if isinstance(p, bytes) else p
    if "\n" in s:
        return None
    for q in ("'", '"'):
        # inside r'…' a quote must be preceded by a backslash (which stays part of the value)
        ok = True
        for i, c in enumerate(s):
            if c == q:
                j, n = i - 1, 0
                while j >= 0 and s[j] == "\\":
                    n += 1
                    j -= 1
                if n % 2 == 0:
                    ok = False
        j, n = len(s) - 1, 0
        while j >= 0 and s[j] == "\\":
            n += 1
            j -= 1
        if ok and n % 2 == 0:
            return pre + q + s + q
    if "'''" not in s and not s.endswith("'") and not s.endswith("\\"):
        return pre + "'''" + s + "'''"
    return None


def src_node(ir: list, pats: list, rng, top: bool = False) -> str:
    """source text for an IR: every group parenthesised where the grammar needs it (and sometimes where not)"""
    t = ir[0]
    if t == "lit":
        return src_literal(leaf_val(ir[1]), rng)
    if t == "re":
        s = src_regex(pats[ir[1]])
        if s is None:
            raise MachineryError(f"no source literal for regex {pats[ir[1]]!r}")
        return s
    if t == "nt":
        n = ir[1][1:-1]
        return f"<{n}>" if ir[2] is None else f"<{ir[2]}:{n}>" if ir[3] is None else f"<{ir[2]}:{ir[3]}:{n}>"
    if t == "alt":
        s = " | ".join(src_node(k, pats, rng) for k in ir[2])
        return s if top else "(" + s + ")"
    if t == "cat":
        s = " ".join(src_node(k, pats, rng) for k in ir[2])
        return s if top else "(" + s + ")"
    inner = src_node(ir[3], pats, rng)
    if ir[3][0] == "rep" or (ir[3][0] in ("lit", "re", "nt") and rng.random() < 0.15):
        inner = "(" + inner + ")"
    if ir[2] == "star":
        return inner + "*"
    if ir[2] == "plus":
        return inner + "+"
    if ir[2] == "opt":
        return inner + "?"
    mn, mx = ir[4], ir[5]
    if mx is None:
        return inner + "{%d,}" % mn
    if mn == mx and rng.random() < 0.7:
        return inner + "{%d}" % mn
    if mn == 0 and rng.random() < 0.3:
        return inner + "{,%d}" % mx
    return inner + "{%d,%d}" % (mn, mx)


PARTY_CODE = "".join(f"class {p}(FandangoParty):\n    def __init__(self):\n        super().__init__(connection_mode=ConnectionMode.OPEN)\n\n"
                     for p in PARTIES)


# ------------------------------------------------------------------------------------------------
# phase P/R: node-level correspondence and property
# ------------------------------------------------------------------------------------------------

class Ctx:
    def __init__(self, run: Run, tier: str):
        self.run, self.tier = run, tier
        # one report per signature and run: the first failing input of a class is the replay
        seen: set = set()
        orig = run.report

        def report_once(signature: str, what: str, replay: dict, no_input: bool = False) -> None:
            run.count("reported:" + signature)
            if signature in seen:
                return
            seen.add(signature)
            orig(signature, what, replay, no_input)
        run.report = report_once  # type: ignore[method-assign]
        self.corr: list[dict] = []      # correspondence disagreements
        self.cap = current_cap()
        self.stats: dict[str, int] = {}

    def corr_fail(self, kind: str, detail: dict) -> None:
        if len(self.corr) < 40:
            self.corr.append({"kind": kind, **detail})
        self.run.count("corr_fail:" + kind)


def rule_defs(extra: str = "") -> str:
    return "".join(f"{n} ::= 'x'\n" for n in NTS) + extra


def classify_ir_feature(ir: list, pats: list) -> Optional[str]:
    """known-finding class of a node-level failure, if the node has the feature"""
    for i in regex_positions(ir, []):
        p = pats[i]
        s = p.decode("latin-1") if isinstance(p, bytes) else p
        if "'" in s and '"' in s and ("\\'" in s):
            return "C15/regex-mixed-quotes"
    return None


def node_phase(ctx: Ctx, cases: list[tuple]) -> None:
    """cases: (ir, pats, allow_single)"""
    run = ctx.run
    # --- model side, batched
    reqs = [{"op": "print", "cfg": "generated", "cap": ctx.cap, "node": ir} for ir, _, _ in cases]
    ans = driver_ask("drv_print", reqs)
    all_leaves: list = []
    for ir, _, _ in cases:
        leaves_in(ir, all_leaves)
    lit_texts = model_literal_texts(all_leaves)
    lang_reqs: list[dict] = []
    lang_meta: list[tuple] = []
    rng = run.rng("words")
    for (ir, pats, single), a in zip(cases, ans):
        st: dict = {}
        node_stats(ir, st)
        for k, v in st.items():
            run.count("node:" + k, v)
        run.count("depth:%d" % depth_of(ir))
        real = build_real(ir, pats)
        real_text = real.format_as_spec()
        nontrivial = any(k.startswith("under_postfix:") and k.split(":")[1] in ("cat", "alt", "rep") for k in st) or \
            st.get("open_bound", 0) > 0 or st.get("party", 0) > 0
        run.case(canon(ir, pats, True), nontrivial, {"ir": ir if len(json.dumps(ir)) < 300 else "…", "printed": real_text[:200]})
        if not a["wf"]:
            ctx.corr_fail("wf", {"ir": ir, "what": "generator produced a node the model calls inexpressible"})
            continue
        if not a["postfix_ok"]:
            ctx.corr_fail("postfix", {"ir": ir, "toks": a["toks"]})

        def lit_text(lf):
            return str(lf[1]) if lf[0] == "i" else lit_texts[json.dumps(lf)]

        def re_text(i):
            return real_terminal_text(["re", i], pats)

        # (P) printer correspondence, textually
        model_text = render(a["toks"], lit_text, re_text)
        if model_text != real_text:
            ctx.corr_fail("print", {"ir": ir, "model": model_text, "impl": real_text})
        # (R) + property (i): the REAL front end reads the REAL text
        spec = "<start> ::= " + real_text + "\n" + rule_defs()
        replay = {"kind": "node", "spec": spec, "ir": ir, "pats": [pat_show(p) for p in pats]}
        feature = classify_ir_feature(ir, pats)
        try:
            sp = read_real(spec)
        except Exception as e:  # noqa
            run.report(feature or "C15/printed-text-rejected",
                       f"printed form is not accepted by the front end ({reject_kind(e)}: {str(e)[:160]}): {real_text[:200]}", replay)
            continue
        from fandango.language.symbols import NonTerminal
        g2 = sp.grammar
        table2 = gio.RegexTable()
        ir2 = gio.node_to_json(g2.rules[NonTerminal("<start>")], table2)
        pats2 = table2.patterns
        c_read = canon(a["read"], pats)
        c_norm = canon(a["norm"], pats)
        c_real = canon(ir2, pats2)
        if c_read != c_norm:
            ctx.corr_fail("read_vs_norm", {"ir": ir, "read": a["read"], "norm": a["norm"]})
        if c_real != c_read:
            # model reader vs real reader on the printed text
            if feature:
                run.report(feature, f"regex with both quote kinds is re-read as a different regex: {real_text[:160]}", replay)
            else:
                ctx.corr_fail("read", {"ir": ir, "printed": real_text, "model_read": c_read, "impl_read": c_real})
        # regexes textually
        for i in regex_positions(ir, []):
            run.count("regex_terminals")
        if canon(ir2, pats2, True) != canon(a["read"], pats, True):
            run.count("regex_rewritten_but_equivalent" if c_real == c_read else "reread_differs")
        # (iii) idempotence of the text
        text2 = g2.rules[NonTerminal("<start>")].format_as_spec()
        parser_shaped = not single
        if text2 != real_text and parser_shaped and canon(ir2, pats2, True) == canon(a["read"], pats, True):
            run.report("C15/print-not-idempotent", f"printing the re-read grammar gives {text2[:120]!r}, the original printed {real_text[:120]!r}", replay)
        # (ii) language, by the verified matcher, on the two REAL IRs
        n_s = 6 if ctx.tier == "quick" else 10
        ex = 0 if ctx.tier == "quick" else (3 if len(json.dumps(ir)) < 400 else 0)
        words = words_for(ir, pats, ir2, pats2, rng, n_s, ex)
        lang_reqs += match_requests(ir, pats, words)
        lang_reqs += match_requests(ir2, pats2, words)
        lang_meta.append((len(words), replay, real_text, feature))
    if lang_reqs:
        res = driver_ask("drv_ir", lang_reqs)
        pos = 0
        for n, replay, real_text, feature in lang_meta:
            r1 = res[pos:pos + n]
            r2 = res[pos + n:pos + 2 * n]
            words = [q["toks"] for q in lang_reqs[pos:pos + n]]
            pos += 2 * n
            run.count("words_compared", n)
            run.count("words_accepted", sum(1 for x in r1 if x["match"]))
            for w, x, y in zip(words, r1, r2):
                if x["match"] != y["match"]:
                    rp = dict(replay)
                    rp["word"] = w
                    run.report(feature or "C15/language-changed",
                               f"child sequence {json.dumps(w)[:120]} is {'accepted' if x['match'] else 'rejected'} by the rule and "
                               f"{'accepted' if y['match'] else 'rejected'} after print+read: {real_text[:160]}", rp)
                    break


def pat_show(p: Any) -> Any:
    return {"b": list(p)} if isinstance(p, bytes) else {"t": [ord(c) for c in p]}


def pat_unshow(d: dict) -> Any:
    return bytes(d["b"]) if "b" in d else "".join(chr(c) for c in d["t"])


# ------------------------------------------------------------------------------------------------
# phase T: the reader on arbitrary token strings (model `read` vs the real front end)
# ------------------------------------------------------------------------------------------------

def gen_tokens(rng, cap: int) -> list:
    n = rng.choice([1, 2, 3, 3, 4, 5, 6, 8, 10])
    out: list = []
    depth = 0
    for _ in range(n):
        r = rng.random()
        if r < 0.34:
            out.append(rng.choice([["lit", leaf_of("a")], ["lit", leaf_of(b"b")], ["lit", ["i", 1]], ["nt", "<a>", None, None],
                                   ["nt", "<b>", "Alice", None], ["nt", "<a>", "Alice", "Bob"], ["re", 0]]))
        elif r < 0.48:
            out.append("(")
            depth += 1
        elif r < 0.62:
            out.append(")")
            depth -= 1
        elif r < 0.72:
            out.append("|")
        elif r < 0.84:
            out.append(rng.choice(["*", "+", "?", ["{", rng.randint(0, 3)], ["{", rng.randint(0, 3), rng.randint(0, 3)],
                                   ["{,", rng.choice([0, 1, 2, cap, cap + 1])]]))
        elif r < 0.90:
            e = ["expr", [["code", "int("], ["s", ["nt", "<a>"]], ["s", rng.choice([".", ".."])], ["s", ["nt", "<b>"]], ["code", ")"]]]
            num = lambda: ["num", rng.choice([0, 1, 2, cap, cap + 1])]   # noqa: E731
            out.append(["{c", rng.choice([["single", e[1]], ["range", e, None], ["range", None, e], ["range", num(), e], ["range", e, num()],
                                          ["range", e, e], ["range", None, None], ["range", None, num()]])])
        else:
            out.append(rng.choice(["(", ")"]))
    if rng.random() < 0.6:
        while depth > 0:
            out.append(")")
            depth -= 1
    return out


def simplify_atoms(ir: list) -> list:
    """keep the structure, use a single regex (id 0) and plain literals: the token phase is about structure"""
    t = ir[0]
    if t == "re":
        return ["re", 0]
    if t in ("alt", "cat"):
        return [t, ir[1], [simplify_atoms(k) for k in ir[2]]]
    if t == "rep":
        return ["rep", ir[1], ir[2], simplify_atoms(ir[3]), ir[4], ir[5]]
    return ir


def token_phase(ctx: Ctx, n_cases: int) -> None:
    run = ctx.run
    rng = run.rng("tokens")
    pats = ["[a-z]+"]
    cases = [gen_tokens(rng, ctx.cap) for _ in range(n_cases // 2)]
    # the other half: the printed form of a node with at most one token deleted / duplicated / replaced
    seeds = []
    for _ in range(n_cases - len(cases)):
        g = Gen(rng, ctx.cap, parties=True)
        g.pats = list(pats)
        ir = g.node(rng.choice([1, 2, 3]), False)
        seeds.append(ir)
    printed = driver_ask("drv_print", [{"op": "print", "cfg": "generated", "cap": ctx.cap, "node": simplify_atoms(ir)} for ir in seeds])
    for a in printed:
        toks = list(a["toks"])
        r = rng.random()
        if toks and r < 0.7:
            i = rng.randrange(len(toks))
            m = rng.random()
            if m < 0.35:
                del toks[i]
            elif m < 0.6:
                toks.insert(i, toks[i])
            else:
                toks[i] = rng.choice(["(", ")", "|", "*", "+", "?", ["{", 2], ["{,", 1], ["nt", "<a>", None, None]])
        cases.append(toks)
    ans = driver_ask("drv_print", [{"op": "read", "cap": ctx.cap, "toks": t} for t in cases])
    for toks, a in zip(cases, ans):
        text = render_e(toks, lambda lf: repr(leaf_val(lf)) if lf[0] != "i" else str(lf[1]), lambda i: "r'[a-z]+'")
        spec = "<start> ::= " + text + "\n" + rule_defs()
        try:
            sp = read_real(spec)
            from fandango.language.symbols import NonTerminal
            t2 = gio.RegexTable()
            real = canon(enode_json(sp.grammar.rules[NonTerminal("<start>")], t2), t2.patterns, True)
            kind = "accept"
        except Exception as e:  # noqa
            real, kind = None, "reject:" + reject_kind(e)
        run.count("tokens:" + kind)
        run.evaluations += 1
        model = canon(a["node"], pats, True)
        if model != real:
            ctx.corr_fail("read_tokens", {"text": text, "model": model, "impl": real, "impl_kind": kind})


# ------------------------------------------------------------------------------------------------
# phase L: literal quoting (model repr/eval vs CPython; printed literal re-read by the front end)
# ------------------------------------------------------------------------------------------------

def gen_string(rng) -> str:
    n = rng.choice([0, 1, 1, 2, 3, 5, 8])
    pool = ["'", '"', "\\", "\n", "\t", "\r", "\x00", "\x1f", "\x7f", "\x80", "\x9f", "\xa0", "\xad", "é", "ÿ", "Ā", "€",
            "\u2028", "\ud800", "\udfff", "\ufffe", "😀", "\U000e0001", "\U0010ffff", "a", "b", " ", "x", "0", "{", "<", "#", "n", "u"]
    return "".join(rng.choice(pool) if rng.random() < 0.8 else chr(rng.choice([rng.randrange(0, 0x300), rng.randrange(0, 0x110000)]))
                   for _ in range(n))


def gen_bytes(rng) -> bytes:
    n = rng.choice([0, 1, 1, 2, 3, 5, 8])
    pool = [39, 34, 92, 10, 9, 13, 0, 31, 127, 128, 255, 97, 32, 120]
    return bytes(rng.choice(pool) if rng.random() < 0.7 else rng.randrange(256) for _ in range(n))


def literal_phase(ctx: Ctx, n_cases: int) -> None:
    run = ctx.run
    rng = run.rng("literals")
    vals: list[Any] = list(TEXTS) + list(BYTESS)
    for _ in range(n_cases):
        vals.append(gen_string(rng) if rng.random() < 0.6 else gen_bytes(rng))
    reqs = []
    for v in vals:
        if isinstance(v, str):
            cps = [ord(c) for c in v]
            reqs.append({"op": "pyrepr", "kind": "t", "v": cps, "printable": printable_of(cps)})
        else:
            reqs.append({"op": "pyrepr", "kind": "b", "v": list(v)})
    ans = driver_ask("drv_print", reqs)
    ev = driver_ask("drv_print", [{"op": "pyeval", "kind": q["kind"], "text": a["text"]} for q, a in zip(reqs, ans)])
    from fandango.language.symbols import Terminal
    specs = []
    for v, a, e in zip(vals, ans, ev):
        run.evaluations += 1
        run.count("literal:" + ("str" if isinstance(v, str) else "bytes"))
        model_text = "".join(chr(c) for c in a["text"])
        if model_text != repr(v):
            ctx.corr_fail("pyrepr", {"value": ascii(v), "model": ascii(model_text), "impl": ascii(repr(v))})
        want = [ord(c) for c in v] if isinstance(v, str) else list(v)
        if e["v"] != want:
            ctx.corr_fail("pyeval", {"value": ascii(v), "model_eval": e["v"]})
        # the real printer of a terminal, and CPython's evaluation of that text
        printed = Terminal(v).format_as_spec()
        try:
            back = Terminal.clean(printed)
        except Exception as ex:  # noqa
            back = ("raised", type(ex).__name__)
        if back != v or type(back) is not type(v):
            run.report("C15/literal-quoting", f"Terminal({v!a}).format_as_spec() = {printed!a} evaluates to {back!a}",
                       {"kind": "literal", "value": ascii(v), "spec": f"<start> ::= {printed}\n"})
        specs.append((v, printed))
    # through the real lexer/parser, many literals per spec
    from fandango.language.symbols import NonTerminal
    for i in range(0, len(specs), 25):
        chunk = specs[i:i + 25]
        text = "<start> ::= " + " ".join(f"<l{j}>" for j in range(len(chunk))) + "\n" + \
               "".join(f"<l{j}> ::= {p}\n" for j, (_, p) in enumerate(chunk))
        try:
            sp = read_real(text)
        except Exception as e:  # noqa
            # find the culprit
            for v, p in chunk:
                try:
                    read_real(f"<start> ::= {p}\n")
                except Exception as e2:  # noqa
                    run.report("C15/literal-quoting", f"printed literal {p!a} (value {v!a}) is rejected by the front end: "
                               f"{reject_kind(e2)} {str(e2)[:100]}", {"kind": "literal", "value": ascii(v), "spec": f"<start> ::= {p}\n"})
            continue
        for j, (v, p) in enumerate(chunk):
            sym = sp.grammar.rules[NonTerminal(f"<l{j}>")].symbol
            got = gio.terminal_payload(sym)
            if got != v or type(got) is not type(v) or sym.is_regex:
                run.report("C15/literal-quoting", f"printed literal {p!a} is read back as {got!a}, not {v!a}",
                           {"kind": "literal", "value": ascii(v), "spec": f"<start> ::= {p}\n"})


# ------------------------------------------------------------------------------------------------
# phase X: regex terminals (model printRegex / evalRaw / spellSteps vs Terminal.format_as_spec, the real
# front end and CPython `re`)
# ------------------------------------------------------------------------------------------------

# candidate subjects for "what a pattern denotes" (the oracle D of PyLit.HexEscapeSound)
DEN_T = CANDS_T + ["a\nb", "a\n b", "a\tb", "a\x0cb", "a\x0bb", "a\rb", "a #c", "a#c\nb", "\t", "\x0c", "\x0b", "\r", "#", "ÿ", "a\xffb",
                   "\x00", "\x01", "\x7f", "[", "a'", "a\"", "'a", "x27", "a\\", "\\a", "\\\\'", "\\\\\"", "a\\nb", "\\n", "n"]
DEN_B = [c.encode("latin-1") for c in DEN_T if all(ord(x) < 256 for x in c)] + [b"\x80", b"\xfe\xff"]
_den_cache: dict = {}


def denote(p: Any) -> str:
    """compile error, or the verdicts of re.fullmatch on the candidate set"""
    key = (type(p).__name__, p)
    if key not in _den_cache:
        try:
            with warnings.catch_warnings():
                warnings.simplefilter("ignore")
                cre = re.compile(p)
            _den_cache[key] = "".join("1" if cre.fullmatch(c) else "0" for c in (DEN_T if isinstance(p, str) else DEN_B))
        except (re.error, RecursionError, OverflowError):
            _den_cache[key] = "error"
    return _den_cache[key]


Q3S, Q3D = "'" * 3, '"' * 3
RE_UNITS = ["a", "b", "x", " ", "'", '"', "\\'", '\\"', "\\\\", "\\\\\\'", "\\\\'", "[']", "[\"']", ".", "*", "+", "?", "|", "(", ")", "[a-c]",
            "[^']", "\\d", "\\x27", "\\x41", "\\n", "\\.", "\n", "\r", "\t", "\\\n", "\\\t", "é", "ÿ", "€", "😀", "\x85", " ", "\x01", "\x7f",
            "\x80", "\xff", "\\\xff", "\\é", "#", "{2}", "\\", "''", '""', Q3S, Q3D, "\x0b", "\\\x0c", "\x0c"]
# verbose patterns and an unescaped form feed (in RE_UNITS) hit the open findings C15/regex-verbose-whitespace and
# C15/regex-formfeed: generated on every run, reported through run.report with exactly these signatures
RE_VERBOSE = ["(?x)", "(?x)", "(?xi)", "(?x:a b)"]
WS = "\t\n\r\x0b\x0c"
_VERBOSE_RE = re.compile(r"\(\?[aiLmsu]*x[aiLmsux]*(-[imsx]+)?[:)]")


def gen_regex(rng) -> Any:
    n = rng.choice([1, 1, 2, 3, 4, 5, 7])
    s = "".join(rng.choice(RE_UNITS) for _ in range(n))
    if rng.random() < 0.2:
        s = rng.choice(RE_VERBOSE) + s
    if rng.random() < 0.45 and all(ord(c) < 256 for c in s):
        return s.encode("latin-1")
    return s


def pat_cps(p: Any) -> list[int]:
    return list(p) if isinstance(p, bytes) else [ord(c) for c in p]


def cps_pat(cps: list[int], is_bytes: bool) -> Any:
    return bytes(cps) if is_bytes else "".join(chr(c) for c in cps)


def read_symbol_text(text: str):
    """the real front end on `<start> ::= text`: ("regex"|"plain", value) for a single terminal, ("other",) for
    anything else it accepts, ("reject", kind) otherwise"""
    from fandango.language.symbols import NonTerminal
    try:
        sp = read_real("<start> ::= " + text + "\n")
    except Exception as e:  # noqa
        return ("reject", reject_kind(e))
    node = sp.grammar.rules.get(NonTerminal("<start>"))
    if type(node).__name__ != "TerminalNode" or len(sp.grammar.rules) != 1:
        return ("other",)
    sym = node.symbol
    return ("regex" if sym.is_regex else "plain", gio.terminal_payload(sym))


def corpus_file() -> dict:
    from harness.common import VERIF
    with open(VERIF / "corpus" / PID / "cases.json", encoding="utf-8") as fh:
        return json.load(fh)


def regex_phase(ctx: Ctx, n_cases: int) -> None:
    run = ctx.run
    rng = run.rng("regexes")
    corpus = corpus_file()
    from fandango.language.symbols import Terminal
    pats: list[Any] = list(REGEXES) + list(REGEXES_MIXED) + ["x'y\"z\\\\", "\\\\", "\\\\\\\\", "é'\"", "a\nb", b"\\\xff'\"", b"\n'", "'\\\"",
                                                              "a\\\n'\"", "a" + Q3S + "b", Q3S + Q3D]
    pats = [cps_pat(cps, b) for b, cps in corpus["regex_patterns"]] + pats
    pats += ["a\x0cb", "\x0c'\""]                                                    # C15/regex-formfeed
    pats += ["(?x)a # it's \"c\"\n b", "(?x)a\n b", b"(?x)a\tb", b"(?x)a # c\n b"]     # C15/regex-verbose-whitespace
    for _ in range(n_cases):
        pats.append(gen_regex(rng))
    seen: set = set()
    uniq = []
    for p in pats:
        k = (type(p).__name__, p)
        if k not in seen:
            seen.add(k)
            uniq.append(p)
    ans = driver_ask("drv_print", [{"op": "reprint", "bytes": isinstance(p, bytes), "pat": pat_cps(p)} for p in uniq])
    texts: list[tuple] = []
    for p, a in zip(uniq, ans):
        is_b = isinstance(p, bytes)
        run.evaluations += 1
        s = p.decode("latin-1") if is_b else p
        feats = [("bytes" if is_b else "str"), ("rewritten" if a["rewrites"] else "verbatim")]
        if "'" in s and '"' in s:
            feats.append("both_quotes")
        if s.endswith("\\"):
            feats.append("backslash_at_end")
        if any(ord(c) > 127 for c in s):
            feats.append("non_ascii")
        if not a["wf"]:
            feats.append("inexpressible")
        for f in feats:
            run.count("regex:" + f)
        run.case(["regex", "b" if is_b else "t", pat_cps(p)], a["rewrites"] or ("both_quotes" in feats), {"pattern": ascii(p)})
        t = Terminal(p)
        t._is_regex = True
        real_text = t.format_as_spec()
        model_text = "".join(chr(c) for c in a["text"])
        # (P) printer correspondence
        p_ok = model_text == real_text
        if not p_ok:
            ctx.corr_fail("regex_print", {"pattern": ascii(p), "model": ascii(model_text), "impl": ascii(real_text)})
        else:
            texts.append((model_text, p))
        # the theorem's instance, re-computed by the driver (sanity of the executable definitions)
        if a["wf"] and a["noff"]:
            if a["eval"] is None or a["eval"]["bytes"] != is_b or a["eval"]["v"] != a["spelled"]:
                ctx.corr_fail("regex_theorem_instance", {"pattern": ascii(p), "eval": a["eval"], "spelled": a["spelled"]})
        # (R) reader correspondence on the printed text + the property on the real code (the REAL text, whatever the
        # model printed)
        real = read_symbol_text(real_text)
        replay = {"kind": "regex", "spec": "<start> ::= " + real_text + "\n", "pattern": pat_show(p)}
        model_v = None if a["eval"] is None else cps_pat(a["eval"]["v"], a["eval"]["bytes"])
        real_v = real[1] if real[0] == "regex" else None
        if p_ok and ((model_v is None) != (real_v is None) or
                     (model_v is not None and (model_v != real_v or type(model_v) is not type(real_v)))):
            ctx.corr_fail("regex_read", {"pattern": ascii(p), "text": ascii(real_text), "model": ascii(model_v), "impl": ascii(real)})
        if not a["wf"]:
            continue                      # not the value of any raw literal: outside the quantifier
        verbose_ws = bool(_VERBOSE_RE.search(s)) and any(c in WS for c in s)
        if real_v is None:
            sig = "C15/regex-formfeed" if (not is_b and not a["noff"]) else "C15/printed-text-rejected"
            run.report(sig, f"regex terminal {p!a} prints as {real_text!a}, which the front end rejects ({real})", replay)
            continue
        # (O) the oracle assumption, instance by instance, and the conclusion
        for before, after in a["steps"]:
            b0, b1 = cps_pat(before, is_b), cps_pat(after, is_b)
            run.count("oracle_instances")
            if denote(b0) != denote(b1):
                sig = "C15/regex-verbose-whitespace" if verbose_ws else "C15/regex-hex-escape-unsound"
                run.report(sig, f"re: {b0!a} and {b1!a} (one unit spelled \\xNN) do not denote the same regex; "
                                f"{p!a} is printed {real_text!a}", replay)
                break
        if type(real_v) is not type(p) or denote(real_v) != denote(p):
            sig = "C15/regex-verbose-whitespace" if verbose_ws else "C15/regex-changed"
            run.report(sig, f"regex terminal {p!a} is printed {real_text!a} and read back as {real_v!a}, a different regex", replay)
        elif real_v == p:
            run.count("regex_identical_after_roundtrip")
        else:
            run.count("regex_rewritten_same_denotation")
    # (R') the reader on mutated literal texts: model evalRaw vs the real front end
    muts: list[str] = list(corpus["raw_texts"])
    alphabet = ["'", '"', "\\", "a", "r", "b", "R", "B", "u", "é", "\t", "\x0c", " ", "\\'", "''", "x"]
    for text, p in texts:
        for _ in range(2):
            t = text
            r = rng.random()
            i = rng.randrange(len(t) + 1)
            if r < 0.35 and i < len(t):
                t = t[:i] + t[i + 1:]
            elif r < 0.75:
                t = t[:i] + rng.choice(alphabet) + t[i:]
            elif i < len(t):
                t = t[:i] + rng.choice(alphabet) + t[i + 1:]
            if rng.random() < 0.3:
                t = rng.choice(["R", "rb", "bR", "Br", "RB", "br", "rB", "r", "b", "u", "rr", "fr", ""]) + t.lstrip("rb")
            muts.append(t)
    # the token itself: no layout around it (blanks, a line-joining backslash), no line break / NUL / comment
    muts = list(dict.fromkeys(m for m in muts if m and not any(c in m for c in "\n\r\x00#") and m.strip(" \t\x0c") == m
                              and not m.endswith("\\")))
    ans2 = driver_ask("drv_print", [{"op": "raweval", "text": [ord(c) for c in m]} for m in muts])
    for m, a in zip(muts, ans2):
        run.evaluations += 1
        real = read_symbol_text(m)
        model_v = None if a["v"] is None else cps_pat(a["v"]["v"], a["v"]["bytes"])
        real_v = real[1] if real[0] == "regex" else None
        run.count("rawtext:" + ("accept" if real_v is not None else real[0]))
        if (model_v is None) != (real_v is None) or (model_v is not None and (model_v != real_v or type(model_v) is not type(real_v))):
            ctx.corr_fail("regex_raweval", {"text": ascii(m), "model": ascii(model_v), "impl": ascii(real)})


# ------------------------------------------------------------------------------------------------
# phase Q: selectors (model printSel/readSel/normSel of Model/PrintSearch.lean vs the real search classes'
# format_as_spec() and the real front end), and the payloads that embed them: computed repetition bounds,
# generators (model printE/readE, crep, rules of Model/Print.lean)
# ------------------------------------------------------------------------------------------------

def multi_entry_group_on_dotted_base(s: list) -> bool:
    """the input class of C15/selector-parens-dropped: a `{…}` group with >= 2 entries whose base is not a plain
    non-terminal (its parentheses are not printed, and the entries-first loop of SelectiveSearch._find makes the
    ORDER of what is found depend on them)"""
    if s[0] == "rule":
        return False
    if s[0] in ("attr", "desc"):
        return multi_entry_group_on_dotted_base(s[1]) or multi_entry_group_on_dotted_base(s[2])
    if s[0] == "sel" and len(s[2]) >= 2 and s[1][0] != "rule":
        return True
    return multi_entry_group_on_dotted_base(s[1])


SEL_NTS = ["<a>", "<b>", "<c>", "<start>"]
# recursive, so that dotted bases find several trees and the entries of a {…} group several trees below each
SEL_GRAMMAR = "<start> ::= <a> <a>\n<a> ::= <c> <c>?\n<c> ::= <b> <a>? | <b> <b>\n<b> ::= 'p' | 'q' | 'r'\n"
SEL_WORDS = ["pq", "pqrp", "ppqq", "prqpq", "pqq", "qprrq"]


def gen_slice(rng) -> list:
    if rng.random() < 0.4:
        return ["idx", rng.randint(0, 3)]
    opt = lambda: rng.choice([None, 0, 1, 2, 10])   # noqa: E731
    a, b = opt(), opt()
    c = rng.choice([None, None, 1, 2])
    return ["rng", a, b, c]


def gen_selection(rng, bad: bool) -> list:
    """a non-terminal with at most one group"""
    base = ["rule", rng.choice(SEL_NTS)]
    r = rng.random()
    if r < 0.55:
        return base
    if r < 0.8:
        k = 0 if (bad and rng.random() < 0.15) else rng.randint(1, 3)
        return ["item", base, [gen_slice(rng) for _ in range(k)]]
    k = 0 if (bad and rng.random() < 0.15) else rng.randint(1, 3)
    return ["sel", base, [[rng.choice(SEL_NTS), bool(bad and rng.random() < 0.3), gen_slice(rng) if rng.random() < 0.5 else None] for _ in range(k)]]


def gen_sel(rng, depth: int, shape: str) -> list:
    """shape: "flat" (what a paren-free text denotes), "paren" (groups on dotted / grouped bases, dotted attributes:
    needs parentheses in the source), "bad" (may leave the printable class: direct entries, empty groups)"""
    if shape == "flat":
        s = gen_selection(rng, False)
        for _ in range(rng.choice([0, 0, 1, 1, 2, 3])):
            s = [rng.choice(["attr", "attr", "desc"]), s, gen_selection(rng, False)]
        return s
    if depth <= 0 or rng.random() < 0.3:
        return gen_selection(rng, shape == "bad")
    r = rng.random()
    if r < 0.6:
        return [rng.choice(["attr", "attr", "desc"]), gen_sel(rng, depth - 1, shape), gen_sel(rng, depth - 1, shape)]
    base = gen_sel(rng, depth - 1, shape)       # any base: it is printed in parentheses unless it is a plain non-terminal
    if r < 0.8:
        return ["item", base, [gen_slice(rng) for _ in range(rng.randint(1, 2))]]
    return ["sel", base, [[rng.choice(SEL_NTS), False, gen_slice(rng) if rng.random() < 0.5 else None] for _ in range(rng.randint(1, 2))]]


def last_bare(s: list) -> bool:
    if s[0] == "rule":
        return True
    if s[0] in ("attr", "desc"):
        return last_bare(s[2])
    return False


def gen_top(rng, shape: str) -> list:
    return [rng.choice(["plain", "plain", "plain", "star", "lenbar", "lenstar"]), gen_sel(rng, 3, shape)]


def py_slice(sl: Optional[list]) -> Any:
    if sl is None:
        return None
    return sl[1] if sl[0] == "idx" else slice(sl[1], sl[2], sl[3])


def build_search(s: list):
    from fandango.language import search as S
    from fandango.language.symbols import NonTerminal
    t = s[0]
    if t == "rule":
        return S.RuleSearch(NonTerminal(s[1]))
    if t == "attr":
        return S.AttributeSearch(build_search(s[1]), build_search(s[2]))
    if t == "desc":
        return S.DescendantAttributeSearch(build_search(s[1]), build_search(s[2]))
    if t == "item":
        return S.ItemSearch(build_search(s[1]), [py_slice(x) for x in s[2]])
    if t == "sel":
        return S.SelectiveSearch(build_search(s[1]), [(NonTerminal(p[0]), bool(p[1])) for p in s[2]], [py_slice(p[2]) for p in s[2]])
    raise MachineryError(f"bad selector term {s!r}")


def build_top(t: list):
    from fandango.language import search as S
    inner = build_search(t[1])
    if t[0] == "plain":
        return inner
    if t[0] == "star":
        return S.StarSearch(inner)
    if t[0] == "lenbar":
        return S.LengthSearch(inner)
    if t[0] == "lenstar":
        return S.LengthSearch(S.StarSearch(inner))
    raise MachineryError(f"bad selector top {t!r}")


class NotASelector(Exception):
    pass


def slice_json(x: Any) -> Optional[list]:
    if x is None:
        return None
    if isinstance(x, slice):
        for v in (x.start, x.stop, x.step):
            if v is not None and (not isinstance(v, int) or v < 0):
                raise NotASelector(f"slice bound {v!r}")
        return ["rng", x.start, x.stop, x.step]
    if isinstance(x, int) and not isinstance(x, bool) and x >= 0:
        return ["idx", x]
    raise NotASelector(f"slice {x!r}")


def search_json(s) -> list:
    n = type(s).__name__
    if n == "AnnotatedSearch":
        return search_json(s._inner)
    if n == "RuleSearch":
        return ["rule", s.symbol.name()]
    if n == "AttributeSearch":
        return ["attr", search_json(s.base), search_json(s.attribute)]
    if n == "DescendantAttributeSearch":
        return ["desc", search_json(s.base), search_json(s.attribute)]
    if n == "ItemSearch":
        return ["item", search_json(s.base), [slice_json(x) for x in s.slices]]
    if n == "SelectiveSearch":
        return ["sel", search_json(s.base), [[sym.name(), bool(d), slice_json(it)] for (sym, d), it in zip(s.symbols, s.slices)]]
    raise NotASelector(n)


def top_json(s) -> list:
    n = type(s).__name__
    if n == "AnnotatedSearch":
        return top_json(s._inner)
    if n == "StarSearch":
        return ["star", search_json(s.base)]
    if n == "LengthSearch":
        v = s.value
        while type(v).__name__ == "AnnotatedSearch":
            v = v._inner
        if type(v).__name__ == "StarSearch":
            return ["lenstar", search_json(v.base)]
        return ["lenbar", search_json(v)]
    return ["plain", search_json(s)]


def render_sel(toks: list) -> str:
    """the model's selector tokens with the layout of the code: `, ` between entries, `: ` before the index /
    slice of a `{…}` entry, nothing else"""
    out: list[str] = []
    stack: list[str] = []
    prev = None
    for t in toks:
        if isinstance(t, list):
            out.append(t[1] if t[0] == "nt" else str(t[1]))
        elif t == ",":
            out.append(", ")
        elif t == ":" and stack and stack[-1] == "{" and isinstance(prev, list) and prev[0] == "nt":
            out.append(": ")
        else:
            out.append(t)
            if t in "[{":
                stack.append(t)
            elif t in "]}" and stack:
                stack.pop()
        prev = t
    return "".join(out)


def read_selector_text(text: str):
    """the real front end on `where <text> == 0`: ("sel", top) when the left operand is exactly one selector,
    ("other",) when it is accepted as something else, ("reject", kind)"""
    try:
        sp = read_real(SEL_GRAMMAR + "where " + text + " == 0\n")
    except Exception as e:  # noqa
        return ("reject", reject_kind(e))
    cs = [c for c in sp.constraints if type(c).__name__ != "RepetitionBoundsConstraint"]
    if len(cs) != 1 or type(cs[0]).__name__ != "ComparisonConstraint":
        return ("other",)
    c = cs[0]
    if str(c._left) not in c.searches or len(c.searches) != 1 or str(c._right) != "0":
        return ("other",)
    try:
        return ("sel", top_json(c.searches[str(c._left)]), c.searches[str(c._left)])
    except NotASelector:
        return ("other",)


def found(search, tree) -> Any:
    """what a search finds in a tree, canonically: container class + the (symbol, text, position) of each tree"""
    def key(t):
        path = []
        x = t
        while x.parent is not None:
            path.append(next(i for i, k in enumerate(x.parent.children) if k is x))
            x = x.parent
        return [str(t.symbol), str(t), path[::-1]]
    def kind(c):
        while type(c).__name__ == "AnnotatedContainer":
            c = c._inner
        return type(c).__name__
    try:
        return [[kind(c), [key(t) for t in c.get_trees()]] for c in search.find(tree)]
    except Exception as e:  # noqa
        return "raises:" + type(e).__name__


def selector_phase(ctx: Ctx, n_cases: int) -> None:
    run = ctx.run
    rng = run.rng("selectors")
    tops: list[tuple] = []
    for src in ["<a>.<b>", "<a>..<b>.<c>", "<a>[0]", "<a>[:2]", "<a>[2:]", "<a>[::2]", "<a>[:]", "<a>[1:2:3]", "<a>[0, 1:]", "<a>{*<b>}",
                "<a>{*<b>: 1, *<c>: :2}", "*<a>.<b>", "|<a>..<c>|", "len(*<start>.<a>)", "<a>.(<b>.<c>)", "(<a>.<b>)[0]", "(<a>..<b>){*<c>}",
                "<a>.(<b>..<c>[0]).<c>", "((<a>))"] + corpus_file()["selector_sources"]:
        r = read_selector_text(src)
        if r[0] != "sel":
            raise MachineryError(f"selector source {src!r} is not read as a selector: {r[:2]}")
        tops.append((r[1], "source"))
    # the input class of F66 (fixed by 9a10ad80): a multi-entry {…} group on a parenthesised dotted base
    tops.append((["star", ["sel", ["attr", ["attr", ["rule", "<start>"], ["rule", "<a>"]], ["rule", "<c>"]],
                           [["<c>", False, None], ["<a>", False, None]]]], "paren"))
    tops.append((["plain", ["sel", ["desc", ["desc", ["rule", "<a>"], ["rule", "<c>"]], ["rule", "<c>"]],
                            [["<c>", False, None], ["<c>", False, None]]]], "paren"))
    for i in range(n_cases):
        shape = "flat" if i % 5 < 2 else "paren" if i % 5 < 4 else "bad"
        tops.append((gen_top(rng, shape), shape))
    ans = driver_ask("drv_print", [{"op": "selprint", "top": t} for t, _ in tops])
    trees = None
    printed: list[list] = []
    for (t, shape), a in zip(tops, ans):
        run.evaluations += 1
        run.count("selector:" + shape)
        run.count("selector_top:" + t[0])
        run.count("selector:" + ("wf" if a["wf"] else "not_wf") + ("/flat" if a["flat"] else "/paren"))
        real = build_top(t)
        real_text = real.format_as_spec()
        model_text = render_sel(a["toks"])
        run.case(["sel", t], not a["flat"] or t[0] != "plain", {"selector": real_text})
        # (P) printer correspondence
        p_ok = model_text == real_text
        if not p_ok:
            ctx.corr_fail("selector_print", {"term": t, "model": model_text, "impl": real_text})
        else:
            printed.append(a["toks"])
        # theorem instances, re-computed by the driver
        if a["wf"] and a["read"] != a["norm"]:
            ctx.corr_fail("selector_theorem_instance", {"term": t, "read": a["read"], "norm": a["norm"]})
        if a["wf"] and a["flat"] and a["norm"] != t:
            ctx.corr_fail("selector_flat_instance", {"term": t, "norm": a["norm"]})
        # (R) the real front end on the printed text (the REAL text, whatever the model printed)
        rr = read_selector_text(real_text)
        real_top = rr[1] if rr[0] == "sel" else None
        if p_ok and real_top != a["read"]:
            ctx.corr_fail("selector_read", {"term": t, "text": real_text, "model": a["read"], "impl": rr[:2]})
        if not a["wf"]:
            run.count("selector_unprintable:" + rr[0])
            continue
        sel_replay = {"kind": "selector", "spec": SEL_GRAMMAR + "where " + real_text + " == 0\n", "term": t}
        if rr[0] != "sel":
            run.report("C15/printed-text-rejected", f"the selector {real_text!r} printed for a search is not read back as a selector "
                       f"({rr[:2]})", sel_replay)
            continue
        # the property on the real code: the search read back finds what the original finds
        if trees is None:
            with quiet(), warnings.catch_warnings():
                warnings.simplefilter("ignore")
                g, _ = gio.parse_spec(SEL_GRAMMAR)
                trees = [g.parse(w) for w in SEL_WORDS]
                trees = [x for x in trees if x is not None]
        for tr in trees:
            f1, f2 = found(real, tr), found(rr[2], tr)
            run.count("selector_finds_compared")
            if f1 != f2:
                sig = "C15/selector-parens-dropped" if multi_entry_group_on_dotted_base(t[1]) else "C15/selector-changed"
                run.report(sig, f"selector {real_text!r}: the search object finds {str(f1)[:120]} in {str(tr)!r}, "
                           f"the search read back from its printed form finds {str(f2)[:120]}",
                           dict(sel_replay, input=str(tr)))
                break
    # (R') the selector reader on mutated token strings
    pool = [".", "..", "[", "]", "{", "}", ",", ":", "*", "(", ")", "|", "len", ["nt", "<a>"], ["nt", "<b>"], ["num", 0], ["num", 7]]
    muts: list[list] = []
    for toks in printed:
        t2 = list(toks)
        i = rng.randrange(len(t2) + 1)
        r = rng.random()
        if r < 0.35 and i < len(t2):
            del t2[i]
        elif r < 0.75:
            t2.insert(i, rng.choice(pool))
        elif i < len(t2):
            t2[i] = rng.choice(pool)
        if rng.random() < 0.25 and t2 and t2[0] not in ("*", "|", "len"):
            t2 = ["("] + t2 + [")"]          # a parenthesised dot_selection is a base_selection
        # the token list must survive rendering: no two tokens that the lexer would read as one
        def glued(x, y):
            num = lambda z: isinstance(z, list) and z[0] == "num"   # noqa: E731
            return (num(x) and num(y)) or (x in (".", "..") and y in (".", "..")) or (x == "*" and y == "*") \
                or (x == "len" and isinstance(y, list)) or (num(x) and y in (".", "..")) or (x in (".", "..") and num(y))
        # `(*<a>)`, `(|<a>|)`, `(len(*<a>))`: the parenthesis is a Python group around the selector — the expression
        # layer, not the selector sub-grammar
        k = 0
        while k < len(t2) and t2[k] == "(":
            k += 1
        py_group = 0 < k < len(t2) and t2[k] in ("*", "|", "len")
        if t2 and not py_group and not any(glued(x, y) for x, y in zip(t2, t2[1:])):
            muts.append(t2)
    ans2 = driver_ask("drv_print", [{"op": "selread", "toks": m} for m in muts])
    for m, a in zip(muts, ans2):
        run.evaluations += 1
        text = render_sel(m)
        rr = read_selector_text(text)
        real_top = rr[1] if rr[0] == "sel" else None
        run.count("selector_tokens:" + rr[0])
        if real_top != a["top"]:
            ctx.corr_fail("selector_read_tokens", {"text": text, "model": a["top"], "impl": rr[:2]})


# --- payloads: expressions with embedded selectors, computed bounds, generators ---------------------------

_PLACEHOLDER = re.compile(r"___fandango_[0-9]+_[0-9]+___")


def expr_json(text: str, searches: dict) -> list:
    """Python text with placeholders -> the model's Expr: text chunks verbatim + selector occurrences"""
    out: list = []
    pos = 0
    for m in _PLACEHOLDER.finditer(text):
        if m.group(0) not in searches:
            raise MachineryError(f"placeholder {m.group(0)} without a search in {text!r}")
        out.append(["code", text[pos:m.start()]])
        out.append(["sel", top_json(searches[m.group(0)])])
        pos = m.end()
    out.append(["code", text[pos:]])
    return out


def bound_json(data) -> list:
    text, _, searches = data
    if text.isdigit():
        return ["num", int(text)]
    return ["expr", expr_json(text, searches or {})]


def cb_json(node) -> list:
    bc = node.bounds_constraint
    if bc.expr_data_max is bc.expr_data_min:
        return ["single", expr_json(bc.expr_data_min[0], bc.expr_data_min[2] or {})]
    hi = None if (node.internal_max is None and bc.expr_data_max[0].isdigit()) else bound_json(bc.expr_data_max)
    return ["range", bound_json(bc.expr_data_min), hi]


def enode_json(node, table) -> list:
    from fandango.language.grammar.nodes.alternative import Alternative
    from fandango.language.grammar.nodes.concatenation import Concatenation
    from fandango.language.grammar.nodes.repetition import Option, Plus, Repetition, Star
    if isinstance(node, Alternative):
        return ["alt", str(node.id), [enode_json(n, table) for n in node.alternatives]]
    if isinstance(node, Concatenation):
        return ["cat", str(node.id), [enode_json(n, table) for n in node.nodes]]
    if isinstance(node, Repetition):
        if getattr(node, "bounds_constraint", None) is not None and not isinstance(node, (Star, Plus, Option)):
            return ["crep", str(node.id), enode_json(node.node, table), cb_json(node)]
        j = gio.node_to_json(node, table)
        return ["rep", j[1], j[2], enode_json(node.node, table), j[4], j[5]]
    return gio.node_to_json(node, table)


def rules_json(grammar, table) -> list:
    out = []
    for nt, rhs in grammar.rules.items():
        gen = None
        if nt in grammar.generators:
            g = grammar.generators[nt]
            gen = expr_json(str(g.call), g.nonterminals)
        out.append({"name": nt.name(), "rhs": enode_json(rhs, table), "gen": gen})
    return out


def render_etoks(etoks: list) -> str:
    """code chunks verbatim, runs of selector tokens through render_sel"""
    out, run_ = [], []
    for t in etoks:
        if t[0] == "s":
            run_.append(t[1])
        else:
            if run_:
                out.append(render_sel(run_))
                run_ = []
            out.append(t[1])
    if run_:
        out.append(render_sel(run_))
    return "".join(out)


def render_cbt(cbt: list) -> str:
    def b(x):
        return "" if x is None else str(x[1]) if x[0] == "num" else render_etoks(x[1])
    if cbt[0] == "single":
        return "{" + render_etoks(cbt[1]) + "}"
    return "{" + b(cbt[1]) + "," + b(cbt[2]) + "}"


def canon_rules(rules: Optional[list], pats: list) -> Any:
    """ids erased, regexes by fingerprint"""
    if rules is None:
        return None

    def cn(n):
        t = n[0]
        if t == "crep":
            return ["crep", cn(n[2]), n[3]]
        if t in ("alt", "cat"):
            return [t, [cn(k) for k in n[2]]]
        if t == "rep":
            return ["rep", n[2], cn(n[3]), n[4], n[5]]
        return canon(n, pats)
    return [[r["name"], cn(r["rhs"]), r["gen"]] for r in rules]


PAYLOAD_SELECTORS = ["<cnt>", "<cnt>.<d>", "<hdr>..<d>", "<hdr>.<cnt>.<d>", "<cnt>[0]", "<hdr>.<cnt>[0:1]", "(<hdr>.<cnt>).<d>", "<hdr>.(<cnt>.<d>)",
                     "<hdr>{*<d>}", "<hdr>..<d>[0]", "(<hdr>..<d>)[0]", "(<hdr>.<cnt>){*<d>}"]
PAYLOAD_EXPRS = ["int(%s)", "int(str(%s)) + 1", "max(1, int(%s))", "int(%s) * 2 - 1", "len(str(%s))", "int(%s) if True else 3", "int(str(%s)[0:1])"]
GEN_EXPRS = ["dup(%s)", "str(%s) * 2", "dup(%s) + dup(%s)", "'x' + str(%s)", "dup(str(%s)[0:1])", "dup(%s, %s)", "'k'"]


def gen_payload_spec(rng) -> str:
    sel = lambda: rng.choice(PAYLOAD_SELECTORS)   # noqa: E731
    e = lambda: rng.choice(PAYLOAD_EXPRS) % sel()   # noqa: E731
    lines = ["<start> ::= <hdr> <body>", "<hdr> ::= <cnt> <d>", "<cnt> ::= <d>", "<d> ::= '1' | '2' | '3'"]
    reps = []
    for _ in range(rng.randint(1, 3)):
        operand = rng.choice(["<x>", "'a'", "('a' <x>)", "(<x> | 'b')", "<x>+", "r'[a-c]'"])
        if operand == "<x>+":
            operand = "(<x>+)"
        r = rng.random()
        if r < 0.35:
            b = "{%s}" % e()
        elif r < 0.55:
            b = "{%d,%s}" % (rng.randint(0, 3), e())
        elif r < 0.7:
            b = "{%s,%d}" % (e(), rng.randint(0, 4))
        elif r < 0.8:
            b = "{%s,}" % e()
        elif r < 0.9:
            b = "{,%s}" % e()
        else:
            b = "{%s,%s}" % (e(), e())
        reps.append(operand + b)
    lines.append("<body> ::= " + rng.choice([" ", " | "]).join(reps))
    g = rng.choice(GEN_EXPRS)
    # a generator takes SYMBOLS as arguments (FandangoSpec reads `.symbol` of each of its searches)
    g = g % tuple(rng.choice(["<cnt>", "<d>", "<hdr>"]) for _ in range(g.count("%s")))
    lines.append("<x> ::= 'x' | 'xx'" + (" := " + g if rng.random() < 0.7 else ""))
    code = "def dup(x, y=''):\n    return str(x) * 2\n\n"
    return code + "\n".join(lines) + "\n"


def payload_phase(ctx: Ctx, n_cases: int) -> None:
    """computed repetition bounds and generators: real grammar -> model rules; model printG vs repr(grammar);
    the real front end on the printed text vs model readG / normG"""
    run = ctx.run
    rng = run.rng("payloads")
    for ci in range(n_cases):
        text = gen_payload_spec(rng)
        run.evaluations += 1
        try:
            sp1 = read_real(text)
        except Exception as e:  # noqa
            # a source the front end does not load is not a case of this property
            run.count("front_end:rejected:" + reject_kind(e))
            continue
        t1 = gio.RegexTable()
        rules1 = rules_json(sp1.grammar, t1)
        for r in rules1:
            if r["gen"] is not None:
                run.count("payload:generator")
                run.count("payload:generator_selectors", sum(1 for s in r["gen"] if s[0] == "sel"))
        a = driver_ask("drv_print", [{"op": "rules", "rules": rules1, "cap": ctx.cap}])[0]
        replay = {"kind": "spec", "spec": text, "via": "repr"}
        run.case(["payload", canon_rules(rules1, t1.patterns)], True, {"spec": text[-300:]})
        if not a["wf"]:
            ctx.corr_fail("payload_wf", {"spec": text, "what": "the front end built rules the model calls inexpressible"})
            continue
        # (P) model printG, rendered with the code's layout, vs repr(grammar)
        lit_texts = model_literal_texts([lf for r in rules1 for lf in leaves_in_e(r["rhs"], [])])

        def lit_text(lf):
            return str(lf[1]) if lf[0] == "i" else lit_texts[json.dumps(lf)]

        def re_text(i):
            return real_terminal_text(["re", i], t1.patterns)

        model_lines = []
        for rt in a["texts"]:
            line = rt["name"] + " ::= " + render_e(rt["rhs"], lit_text, re_text)
            if rt["gen"] is not None:
                line += " := " + render_etoks(rt["gen"])
            model_lines.append(line)
        printed = repr(sp1.grammar)
        p_ok = "\n".join(model_lines) == printed
        if not p_ok:
            ctx.corr_fail("payload_print", {"spec": text, "model": "\n".join(model_lines), "impl": printed})
        for rt in a["texts"]:
            for t in rt["rhs"]:
                if isinstance(t, list) and t[0] == "{c":
                    run.count("payload:computed_bounds:" + t[1][0])
        # (R) the real front end on the printed text vs the model's reader
        full = (sp1.code_text + "\n\n" if sp1.code_text else "") + printed + "\n"
        try:
            sp2 = read_real(full)
        except Exception as e:  # noqa
            run.report("C15/printed-text-rejected", f"printed spec is not accepted by the front end ({reject_kind(e)}: {str(e)[:160]})", replay)
            continue
        t2 = gio.RegexTable()
        rules2 = rules_json(sp2.grammar, t2)
        c_read, c_norm, c_real = canon_rules(a["read"], t1.patterns), canon_rules(a["norm"], t1.patterns), canon_rules(rules2, t2.patterns)
        if c_read != c_norm:
            ctx.corr_fail("payload_theorem_instance", {"spec": text, "read": a["read"], "norm": a["norm"]})
        if p_ok and c_real != c_read:
            ctx.corr_fail("payload_read", {"spec": text, "printed": printed, "model": c_read, "impl": c_real})
        # the property on the real code, whatever the model says: generators and bound expressions survive
        g1, g2 = generators_of(sp1.grammar), generators_of(sp2.grammar)
        if g1 != g2:
            run.report("C15/generator-changed", f"generators {g1} are re-read as {g2}", replay)
        b1, b2 = bounds_constraints_of(sp1), bounds_constraints_of(sp2)
        if b1 != b2:
            run.report("C15/bounds-changed", f"computed repetition bounds {b1} are re-read as {b2}", replay)
        # the static bounds of the re-read repetitions (what parse / fuzz use)
        if grammar_canon(sp1.grammar) != grammar_canon(sp2.grammar):
            run.report("C15/language-changed", "the static repetition bounds / rule bodies change on print+read", replay)
        if repr(sp2.grammar) != printed:
            run.report("C15/print-not-idempotent", "printing the re-read spec gives a different text", replay)


def leaves_in_e(n: list, out: list) -> list:
    if n[0] == "crep":
        return leaves_in_e(n[2], out)
    if n[0] in ("alt", "cat"):
        for k in n[2]:
            leaves_in_e(k, out)
        return out
    if n[0] == "rep":
        return leaves_in_e(n[3], out)
    return leaves_in(n, out)


def render_e(toks: list, lit_text, re_text) -> str:
    """render() for token lists that may hold computed brace groups"""
    plain: list = []
    for t in toks:
        if isinstance(t, list) and t[0] == "{c":
            plain.append(["{raw", render_cbt(t[1])])
        else:
            plain.append(t)
    out: list[str] = []
    prev = None
    for t in plain:
        if isinstance(t, list) and t[0] == "{raw":
            s, postfix = t[1], True
        else:
            s = render([t], lit_text, re_text)
            postfix = isinstance(t, str) and t in "*+?" or (isinstance(t, list) and t[0] in ("{", "{,"))
        if prev is not None and not (prev == "(" or s == ")" or postfix):
            out.append(" ")
        out.append(s)
        prev = s
    return "".join(out)


# ------------------------------------------------------------------------------------------------
# phase S: whole specs — repr(grammar), `fandango convert`, generators, computed repetitions, parties
# ------------------------------------------------------------------------------------------------

def spec_features(text: str) -> list[str]:
    f = []
    if re.search(r":=\s*[^\n]*<", text):
        f.append("C15/generator-args")
    if re.search(r"\{[^}\n]*[(<][^}\n]*\}", text.split("where")[0]):
        f.append("C15/computed-repetition")
    if re.search(r"^(minimizing|maximizing)", text, re.M):
        f.append("C15/soft-constraint-where")
    return f


def gen_spec(rng, cap: int, with_parties: bool, extras: bool) -> tuple[str, dict]:
    g = Gen(rng, cap, parties=with_parties)
    nrules = rng.randint(2, 5)
    names = [f"<r{i}>" for i in range(nrules)]
    lines = ["<start> ::= " + " ".join(names)]
    meta: dict = {"rules": {}}
    for nm in names:
        ir = g.node(rng.randint(1, 3), False)
        meta["rules"][nm] = ir
        lines.append(f"{nm} ::= " + src_node(ir, g.pats, rng, top=True))
    defs = [f"{n} ::= 'x'" for n in NTS]
    code = ""
    feats = []
    if extras:
        r = rng.random()
        if r < 0.35:
            # a generator with symbol arguments (F13)
            code = "def dup(x):\n    return str(x) * 2\n\n"
            defs[0] = "<a> ::= 'x' | 'xx' := dup(<b>)"
            feats.append("generator-args")
        elif r < 0.55:
            defs[0] = "<a> ::= 'x' := 'x'"
            feats.append("generator-const")
        elif r < 0.85:
            lines.append("<cnt> ::= '1' | '2' | '3'")
            lines[0] += " <cnt> <b>{int(<cnt>)}" if rng.random() < 0.6 else " <cnt> <b>{1,int(<cnt>)}"
            feats.append("computed-repetition")
    tail = []
    if extras and rng.random() < 0.5:
        tail.append("where str(<b>) != 'zz'")
        feats.append("where")
    if extras and rng.random() < 0.25:
        tail.append(rng.choice(["minimizing", "maximizing"]) + " len(str(<start>))")
        feats.append("soft")
    meta["pats"] = g.pats
    meta["feats"] = feats
    text = (PARTY_CODE if with_parties else "") + code + "\n".join(lines + defs + tail) + "\n"
    return text, meta


def grammar_canon(grammar, textual: bool = False) -> dict:
    gj, table = gio.grammar_to_json(grammar)
    return {name: canon(node, table.patterns, textual) for name, node in gj["rules"]}


def generators_of(grammar) -> dict:
    out = {}
    for k, gen in grammar.generators.items():
        call = gen.call
        for ident, nt in gen.nonterminals.items():
            call = call.replace(ident, nt.format_as_spec())
        out[k.name()] = call
    return out


def bounds_constraints_of(spec) -> list:
    from fandango.constraints.repetition_bounds import RepetitionBoundsConstraint
    out = []
    for c in spec.constraints:
        if isinstance(c, RepetitionBoundsConstraint):
            def show(data, search):
                expr = data[0]
                for ident, s in (data[2] or {}).items():
                    expr = expr.replace(ident, s.format_as_spec())
                return expr
            out.append([show(c.expr_data_min, c.search_min), show(c.expr_data_max, c.search_max)])
    return sorted(out)


def spec_phase(ctx: Ctx, n_cases: int, tmpdir: str) -> None:
    run = ctx.run
    rng = run.rng("specs")
    from fandango.converters.fan.FandangoFandangoConverter import FandangoFandangoConverter
    lang_reqs: list[dict] = []
    lang_meta: list[tuple] = []
    wrng = run.rng("spec-words")
    for ci in range(n_cases):
        with_parties = rng.random() < 0.3
        text, meta = gen_spec(rng, ctx.cap, with_parties, extras=rng.random() < 0.35)
        via_convert = rng.random() < 0.5
        run.evaluations += 1
        run.count("spec:" + ("convert" if via_convert else "repr"))
        for f in meta["feats"]:
            run.count("spec_feature:" + f)
        if with_parties:
            run.count("spec_feature:parties")
        try:
            sp1 = read_real(text)
        except Exception as e:  # noqa
            run.count("front_end:rejected:" + reject_kind(e))
            continue
        if via_convert:
            fn = os.path.join(tmpdir, f"s{ci}.fan")
            with open(fn, "w", encoding="utf-8", errors="surrogatepass") as fh:
                fh.write(text)
            try:
                with quiet(), warnings.catch_warnings():
                    warnings.simplefilter("ignore")
                    printed = FandangoFandangoConverter(fn).to_fan()
            except UnicodeError:
                run.count("spec_not_utf8")
                continue
        else:
            printed = (sp1.code_text + "\n\n" if sp1.code_text else "") + repr(sp1.grammar) + "\n"
        replay = {"kind": "spec", "spec": text, "via": "convert" if via_convert else "repr"}
        known_class = None
        if "generator-args" in meta["feats"]:
            known_class = "C15/generator-args"
        if "computed-repetition" in meta["feats"]:
            known_class = "C15/computed-repetition"
        if via_convert and "soft" in meta["feats"]:
            known_class = "C15/soft-constraint-where"
        try:
            sp2 = read_real(printed)
        except Exception as e:  # noqa
            run.report(known_class or "C15/printed-text-rejected",
                       f"printed spec is not accepted by the front end ({reject_kind(e)}: {str(e)[:160]})", replay)
            continue
        c1, c2 = grammar_canon(sp1.grammar), grammar_canon(sp2.grammar)
        g1, g2 = generators_of(sp1.grammar), generators_of(sp2.grammar)
        b1, b2 = bounds_constraints_of(sp1), bounds_constraints_of(sp2)
        if g1 != g2:
            run.report("C15/generator-args" if "generator-args" in meta["feats"] else "C15/generator-changed",
                       f"generators {g1} are re-read as {g2}", replay)
        if b1 != b2:
            run.report("C15/computed-repetition" if "computed-repetition" in meta["feats"] else "C15/bounds-changed",
                       f"computed repetition bounds {b1} are re-read as {b2}", replay)
        if list(c1) != list(c2):
            run.report("C15/rules-changed", f"rules {list(c1)} re-read as {list(c2)}", replay)
            continue
        if via_convert:
            k1 = sorted(type(c).__name__ + ":" + c.format_as_spec() for c in sp1.constraints)
            k2 = sorted(type(c).__name__ + ":" + c.format_as_spec() for c in sp2.constraints)
            if k1 != k2:
                run.report(known_class or "C15/constraints-changed", f"constraints {k1} are re-read as {k2}", replay)
        # languages rule by rule, through the verified matcher on the REAL IRs
        gj1, t1 = gio.grammar_to_json(sp1.grammar)
        gj2, t2 = gio.grammar_to_json(sp2.grammar)
        for (name, ir1), (_, ir2) in zip(gj1["rules"], gj2["rules"]):
            words = words_for(ir1, t1.patterns, ir2, t2.patterns, wrng, 4, 0)
            lang_reqs += match_requests(ir1, t1.patterns, words) + match_requests(ir2, t2.patterns, words)
            lang_meta.append((len(words), replay, name, known_class if name == "<start>" else None))
        # idempotence of the printed text
        printed2 = (sp2.code_text + "\n\n" if sp2.code_text else "") + repr(sp2.grammar) + "\n"
        base = printed if not via_convert else (sp1.code_text + "\n\n" if sp1.code_text else "") + repr(sp1.grammar) + "\n"
        if printed2 != base and not known_class:
            run.report("C15/print-not-idempotent", "printing the re-read spec gives a different text", replay)
    if lang_reqs:
        res = driver_ask("drv_ir", lang_reqs)
        pos = 0
        for n, replay, name, known in lang_meta:
            r1, r2 = res[pos:pos + n], res[pos + n:pos + 2 * n]
            words = [q["toks"] for q in lang_reqs[pos:pos + n]]
            pos += 2 * n
            run.count("words_compared", n)
            for w, x, y in zip(words, r1, r2):
                if x["match"] != y["match"]:
                    rp = dict(replay)
                    rp.update({"rule": name, "word": w})
                    run.report(known or "C15/language-changed",
                               f"rule {name}: child sequence {json.dumps(w)[:120]} is {'accepted' if x['match'] else 'rejected'} before and "
                               f"{'accepted' if y['match'] else 'rejected'} after print+read", rp)
                    break


# ------------------------------------------------------------------------------------------------
# phase W: words through both REAL grammars (parse), safe grammar class only
# ------------------------------------------------------------------------------------------------

def word_phase(ctx: Ctx, n_cases: int) -> None:
    """`parse_spec` (the full front end with checks), fuzz a few words from the original, parse them with
    the original and with the re-read grammar: same verdicts.  Grammars: text literals only, no nullable
    operand under an unbounded repetition (F9), no regexes (F10)."""
    run = ctx.run
    rng = run.rng("wordspecs")
    import random as pyrandom
    for ci in range(n_cases):
        g = Gen(rng, ctx.cap, parties=False)

        def safe(depth: int) -> list:
            if depth <= 0 or rng.random() < 0.3:
                return ["lit", leaf_of(rng.choice(["a", "b", "c", "ab", "'", "é", "\\"]))] if rng.random() < 0.8 else \
                    ["nt", rng.choice(["<a>", "<b>"]), None, None]
            r = rng.random()
            if r < 0.3:
                return ["alt", "", [safe(depth - 1) for _ in range(rng.randint(2, 3))]]
            if r < 0.65:
                return ["cat", "", [safe(depth - 1) for _ in range(rng.randint(2, 3))]]
            kind = rng.choice(["star", "plus", "braces", "opt"])
            inner = safe(depth - 1)
            if kind == "opt":
                return ["rep", "", "opt", ["cat", "", [safe(0), inner]], 0, 1]
            body = ["cat", "", [["lit", leaf_of(rng.choice(["a", "b", "-"]))], inner]]   # never nullable
            if kind == "star":
                return ["rep", "", "star", body, 0, None]
            if kind == "plus":
                return ["rep", "", "plus", body, 1, None]
            mn = rng.randint(0, 2)
            return ["rep", "", "braces", body, mn, rng.choice([None, mn + 1, mn + 2])]

        ir = safe(3)
        text = "<start> ::= " + src_node(ir, [], rng, top=True) + "\n<a> ::= 'x' | 'y'\n<b> ::= 'z'\n"
        run.evaluations += 1
        run.count("wordspec")
        with quiet(), warnings.catch_warnings():
            warnings.simplefilter("ignore")
            g1, _ = gio.parse_spec(text)
            printed = repr(g1) + "\n"
            replay = {"kind": "spec", "spec": text, "via": "repr+parse"}
            try:
                g2, _ = gio.parse_spec(printed)
            except Exception as e:  # noqa
                run.report("C15/printed-text-rejected", f"repr(grammar) is rejected by parse(): {reject_kind(e)} {str(e)[:120]}", replay)
                continue
            if repr(g2) != repr(g1):
                run.report("C15/print-not-idempotent", f"repr(parse(repr(g))) = {repr(g2)[:100]!r} differs from repr(g) = {repr(g1)[:100]!r}", replay)
            st = pyrandom.getstate()
            pyrandom.seed(rng.randrange(1 << 30))
            try:
                words = []
                for _ in range(3):
                    try:
                        words.append(str(g1.fuzz("<start>", max_nodes=30)))
                    except Exception:  # noqa
                        run.count("fuzz_raised")
                for _ in range(2):
                    try:
                        words.append(str(g2.fuzz("<start>", max_nodes=30)))
                    except Exception:  # noqa
                        run.count("fuzz_raised")
            finally:
                pyrandom.setstate(st)
            extra = []
            for w in words:
                if w:
                    i = rng.randrange(len(w))
                    extra.append(w[:i] + w[i + 1:])
                    extra.append(w + w[-1])
            for w in dict.fromkeys(words + extra):
                if len(w) > 60:
                    continue
                v1 = g1.parse(w) is not None
                v2 = g2.parse(w) is not None
                run.count("real_parse:" + ("accept" if v1 else "reject"))
                if v1 != v2:
                    rp = dict(replay)
                    rp["input"] = w
                    run.report("C15/language-changed", f"{w!r} is {'accepted' if v1 else 'rejected'} by the grammar and "
                               f"{'accepted' if v2 else 'rejected'} by the grammar re-read from its printed form", rp)
                    break


# ------------------------------------------------------------------------------------------------
# phase C: constraints
# ------------------------------------------------------------------------------------------------

CONS_GRAMMAR = ("<start> ::= <a> <b> <a>\n<a> ::= <c>+ | 'q'\n<b> ::= 'y' | 'z' <c>\n<c> ::= '1' | '2'\n")
CONS_WORDS = ["1y1", "qyq", "2z12", "11y2", "qz2q", "12z1q", "1z11", "2y2", "21yq", "qz1q", "1y2", "22z21", "qy1", "2yq"]

ATOMS = ["str(<a>) == '1'", "str(<b>) != 'y'", "int(<c>) > 1", "len(str(<start>)) > 3", "str(<a>).startswith('1')",
         "str(<start>.<b>) == 'y'", "str(<start>..<c>) == '2'", "str(<b>.<c>) == '1'", "str(<a>[0]) == '1'",
         "str(<start>[0:2]) != 'qy'", "str(<start>[1:]) == 'yq'", "str(<a>) == str(<b>)", "str(<a>) in ['1', 'q', \"'\"]",
         "str(<a>) == 'it\"s'", "<a> == '1'", "str(<start>.<a>[0]) == '1'", "int(<b>.<c>) >= 2",
         "|<c>| >= 1", "str(<a>) == '<b>'", "str(<a>) == '___x___'", "len(str(<a>)) == len(str(<b>))"]
# forms whose printed text is known to be wrong (each is its own finding)
ATOMS_LEN_STAR = ["len(*<c>) > 2", "len(*<a>.<c>) == 1", "len(*<start>.<b>) == 1"]
# a parenthesised star selection with a trailer: the placeholder is an atom in the ast.unparse text, `*<a>` is not
ATOMS_STAR_SUBSCRIPTED = ["str((*<a>)[0]) == '1'", "len((*<c>)[0:1]) == 1", "str((*<start>.<a>)[1]) == 'q'"]
_STAR_TRAILER = re.compile(r"\(\*<[^()]*\)\s*[\[.(]")


def gen_constraint(rng, depth: int = 2) -> tuple[str, list[str]]:
    """(text, features)"""
    r = rng.random()
    if depth <= 0 or r < 0.35:
        if rng.random() < 0.12:
            return "int(<a>) == 1", ["may-raise"]          # <a> can be 'q'
        return rng.choice(ATOMS), []
    if r < 0.42:
        return rng.choice(ATOMS_LEN_STAR), ["len-star"]
    if r < 0.58:
        a, fa = gen_constraint(rng, depth - 1)
        b, fb = gen_constraint(rng, depth - 1)
        op = rng.choice(["and", "or"])
        wrap = rng.random() < 0.5
        if wrap:
            return f"({a}) {op} ({b})", fa + fb + ["bool-parens"]
        return f"{a} {op} {b}", fa + fb + ["bool"]
    if r < 0.80:
        body, f = gen_constraint(rng, depth - 1)
        var = rng.choice(["<x>", "x"])
        sel = rng.choice(["*<a>", "*<start>.<a>", "*<c>", "*<start>.<b>.<c>", "*<b>.<c>"])
        q = rng.choice(["all", "any"])
        atom = rng.choice([f"str({var}) != 'q'", f"int({var}) == 1" if "<c>" in sel else f"len(str({var})) >= 1", f"str({var}) == '1'"])
        # below the top level a quantifier is a Python generator expression: keep its body on the bound
        # variable (a search placeholder inside a generator body is a NameError today — not C15's business)
        if depth < 2 or rng.random() < 0.6:
            return f"{q}({atom} for {var} in {sel})", ["quantifier"]
        return f"{q}({atom} {rng.choice(['and', 'or'])} {body} for {var} in {sel})", f + ["quantifier"]
    if r < 0.90:
        body = rng.choice(["str(<x>) != 'q'", "str(<x>) == '1'"])
        sel = rng.choice(["<a>", "<start>.<a>", "<c>"])
        q = rng.choice(["forall", "exists"])
        return f"{q} <x> in {sel}: {body}", ["legacy-quantifier"]
    a, fa = gen_constraint(rng, depth - 1)
    if rng.random() < 0.5:
        return f"not ({a})", fa + ["not-paren"]
    return f"({a})", fa + ["paren"]


def verdicts(grammar, constraint, trees_of) -> list:
    out = []
    for w in CONS_WORDS:
        t = trees_of(grammar, w)
        if t is None:
            out.append(None)
            continue
        try:
            with quiet():
                out.append(bool(constraint.check(t)))
        except Exception as e:  # noqa
            out.append("raises:" + type(e).__name__)
    return out


def operands_roundtrip(c, trees_of) -> bool:
    """every operand of a conjunction / disjunction keeps its verdicts when printed and re-read on its own
    (then a verdict change of the whole is due to the group being re-read as one expression)"""
    for o in c.constraints:
        if type(o).__name__ in ("ConjunctionConstraint", "DisjunctionConstraint"):
            if not operands_roundtrip(o, trees_of):
                return False
            continue
        try:
            with quiet(), warnings.catch_warnings():
                warnings.simplefilter("ignore")
                # no consistency check: inside a quantifier the operand mentions the bound variable
                from fandango.language.parse.parse import parse as _parse
                go, co = _parse(CONS_GRAMMAR + "where " + o.format_as_spec() + "\n", use_cache=False, use_stdlib=False, check=False)
                gc, _ = gio.parse_spec(CONS_GRAMMAR)
        except Exception:  # noqa
            return False
        if len(co) != 1 or verdicts(gc, o, trees_of) != verdicts(go, co[0], trees_of):
            return False
    return True


_Q = ("ForallConstraint", "ExistsConstraint")
_B = ("ConjunctionConstraint", "DisjunctionConstraint")


def diff_kinds(c1, c2, trees_of, out: set) -> None:
    """where and how the re-read constraint differs in shape from the original:
    not-cmp  an expression `not a OP b` re-read as the comparison `(not a) OP b` (formula_comparison: expr OP expr)
    regroup  a conjunction/disjunction, printed in parentheses, re-read as ONE Python expression although each
             operand on its own keeps its verdicts
    other    anything else"""
    n1, n2 = type(c1).__name__, type(c2).__name__
    if n1 in _Q and n2 == n1:
        diff_kinds(c1.statement, c2.statement, trees_of, out)
    elif n1 in _B and n2 == n1 and len(c1.constraints) == len(c2.constraints):
        for a, b in zip(c1.constraints, c2.constraints):
            diff_kinds(a, b, trees_of, out)
    elif n1 in _B and n2 in ("ExpressionConstraint", "ComparisonConstraint"):
        out.add("regroup" if operands_roundtrip(c1, trees_of) else "other")
    elif n1 == "ExpressionConstraint" and n2 == "ComparisonConstraint" and c1.expression.startswith("not ") \
            and str(c2._left).startswith("not "):
        out.add("not-cmp")
    elif n1 != n2:
        out.add("other")


def constraint_phase(ctx: Ctx, n_cases: int) -> None:
    run = ctx.run
    rng = run.rng("constraints")
    cache: dict = {}

    def trees_of(g, w):
        key = (id(g), w)
        if key not in cache:
            with quiet():
                cache[key] = g.parse(w)
        return cache[key]

    texts = [(a, []) for a in ATOMS] + [(a, ["len-star"]) for a in ATOMS_LEN_STAR] + \
            [("(str(<a>) == '1' or str(<b>) == 'y') and int(<c>) == 1", ["bool-parens"]),
             ("forall <x> in <a>: str(<x>) == '1'", ["legacy-quantifier"]),
             ("not (int(<b>.<c>) >= 2)", ["not-paren"]),
             ("int(<a>) == 1 or str(<b>) == 'y'", ["may-raise", "bool"])]
    texts += [(a, ["star-subscripted"]) for a in ATOMS_STAR_SUBSCRIPTED]       # open finding F67
    for _ in range(n_cases):
        texts.append(gen_constraint(rng, 2))
    seen = set()
    for text, feats in texts:
        if text in seen:
            continue
        seen.add(text)
        run.evaluations += 1
        for f in feats or ["atom"]:
            run.count("constraint_feature:" + f)
        spec = CONS_GRAMMAR + "where " + text + "\n"
        try:
            with quiet(), warnings.catch_warnings():
                warnings.simplefilter("ignore")
                g1, cs1 = gio.parse_spec(spec)
        except Exception as e:  # noqa
            run.count("constraint_source_rejected:" + reject_kind(e))
            continue
        if len(cs1) != 1:
            run.count("constraint_count_%d" % len(cs1))
            continue
        c1 = cs1[0]
        run.count("constraint_class:" + type(c1).__name__)
        printed = c1.format_as_spec()
        replay = {"kind": "constraint", "spec": spec, "printed": printed}
        known = None
        if "len-star" in feats and "|*" in printed:
            known = "C15/len-star"
        if _STAR_TRAILER.search(text) and not _STAR_TRAILER.search(printed):
            known = "C15/star-selection-subscripted"
        # narrow: the legacy form `forall/exists <x> in <sel>:` printed as a comprehension over a bare <sel>
        legacy_bare = "legacy-quantifier" in feats and type(c1).__name__ in ("ForallConstraint", "ExistsConstraint") \
            and re.match(r"^(all|any)\(.* for <x> in <[^*]*\)$", printed) is not None
        try:
            with quiet(), warnings.catch_warnings():
                warnings.simplefilter("ignore")
                g2, cs2 = gio.parse_spec(CONS_GRAMMAR + "where " + printed + "\n")
        except Exception as e:  # noqa
            if legacy_bare and reject_kind(e) == "syntax":
                known = "C15/legacy-quantifier"
            run.report(known or "C15/constraint-text-rejected",
                       f"`where {text}` prints as `{printed}`, which the front end rejects ({reject_kind(e)}: {str(e)[:100]})", replay)
            continue
        if len(cs2) != 1:
            run.report(known or "C15/constraint-text-rejected", f"`{printed}` is re-read as {len(cs2)} constraints", replay)
            continue
        v1 = verdicts(g1, c1, trees_of)
        v2 = verdicts(g2, cs2[0], trees_of)
        run.count("verdicts_compared", len(v1))
        run.count("verdicts_true", sum(1 for v in v1 if v is True))
        if v1 != v2:
            i = next(i for i, (x, y) in enumerate(zip(v1, v2)) if x != y)
            rp = dict(replay)
            rp["input"] = CONS_WORDS[i]
            lost_group = ("bool-parens" in feats or "paren" in feats) and " or " in text and " and " in text \
                and printed.count("(") < text.count("(")
            kinds: set = set()
            diff_kinds(c1, cs2[0], trees_of, kinds)
            sig = known or ("C15/bool-operand-parens" if lost_group else
                            "C15/not-over-comparison" if kinds == {"not-cmp"} else
                            "C15/bool-group-reread-as-expression" if kinds == {"regroup"} else
                            "C15/constraint-verdict-changed")
            run.report(sig, f"`where {text}` prints as `{printed}`; on {CONS_WORDS[i]!r} the original says {v1[i]} and the re-read one {v2[i]}", rp)
        p2 = cs2[0].format_as_spec()
        if p2 != printed:
            run.count("constraint_text_not_idempotent")


# ------------------------------------------------------------------------------------------------
# corpus: the cases the design documents + minimised past disagreements
# ------------------------------------------------------------------------------------------------

def lit(v: Any) -> list:
    return ["lit", leaf_of(v)]


def corpus_cases() -> list[tuple]:
    a, b = lit("a"), lit("b")
    nt = ["nt", "<a>", None, None]
    out = [
        (["rep", "s", "star", ["cat", "c", [a, b]], 0, None], [], False),                 # F5
        (["rep", "r", "braces", nt, 2, None], [], False),                                   # F5 open bound
        (["rep", "p", "plus", ["rep", "o", "opt", a, 0, 1], 1, None], [], False),
        (["rep", "r", "braces", ["rep", "s", "star", a, 0, None], 2, 2], [], False),
        (["alt", "a", [a, b]], [], False),
        (["cat", "c", [["alt", "a", [a, b]], lit("c")]], [], False),
        (["cat", "c", [["cat", "d", [a, b]], lit("c")]], [], False),                       # spliced
        (["cat", "c", [a, ["alt", "x", [["cat", "d", [a, b]]]], b]], [], True),            # singleton alt around a sequence
        (["alt", "a", [["cat", "c", [a]]]], [], True),
        (["rep", "s", "star", ["alt", "a", [a, b]], 0, None], [], False),
        (["cat", "c", [["lit", ["i", 0]], ["lit", ["i", 1]], ["rep", "r", "braces", ["alt", "a", [["lit", ["i", 0]], ["lit", ["i", 1]]]], 3, 3]]], [], False),
        (["cat", "c", [["nt", "<a>", "Alice", "Bob"], ["nt", "<b>", "Bob", None], nt]], [], False),
        (["cat", "c", [lit("it's \"q\""), lit(b"'\xff\\"), lit("\ud800"), lit("é\n\x00")]], [], False),
        (["cat", "c", [["re", 0], ["re", 1], ["re", 2]]], ["x'y\"z", b"[\\x00-\\x10]", "\\d+"], False),
        (["rep", "r", "braces", a, 0, 3], [], False),
        (["rep", "r", "braces", a, 20, None], [], False),
    ]
    return out


# ------------------------------------------------------------------------------------------------
# replay
# ------------------------------------------------------------------------------------------------

def replay(path: str) -> int:
    use_repo()
    rp = json.load(open(path))
    spec = rp.get("spec", "")
    print("spec:\n" + spec)
    bad: list[str] = []
    kind = rp.get("kind")
    if rp.get("no_failing_input_found"):
        print("replay: this replay names broken obligations / correspondence cases, there is no input to run")
        print(json.dumps({k: rp.get(k) for k in ("broken_obligations", "correspondence")}, indent=1)[:3000])
        return 1
    if kind == "constraint":
        with quiet(), warnings.catch_warnings():
            warnings.simplefilter("ignore")
            g1, cs1 = gio.parse_spec(spec)
        printed = cs1[0].format_as_spec()
        print("printed constraint:", printed)
        try:
            with quiet(), warnings.catch_warnings():
                warnings.simplefilter("ignore")
                g2, cs2 = gio.parse_spec(CONS_GRAMMAR + "where " + printed + "\n")
            v1 = verdicts(g1, cs1[0], lambda g, w: g.parse(w))
            v2 = verdicts(g2, cs2[0], lambda g, w: g.parse(w))
            for w, x, y in zip(CONS_WORDS, v1, v2):
                if x != y:
                    bad.append(f"verdict on {w!r}: original {x}, re-read {y}")
        except Exception as e:  # noqa
            bad.append(f"printed constraint rejected: {type(e).__name__}: {str(e)[:200]}")
    elif kind == "selector":
        real = build_top(rp["term"])
        text = real.format_as_spec()
        print("selector:", text)
        rr = read_selector_text(text)
        if rr[0] != "sel":
            bad.append(f"printed selector {text!r} is not read back as a selector: {rr[:2]}")
        else:
            with quiet(), warnings.catch_warnings():
                warnings.simplefilter("ignore")
                g, _ = gio.parse_spec(SEL_GRAMMAR)
            for w in SEL_WORDS:
                tr = g.parse(w)
                if tr is not None and found(real, tr) != found(rr[2], tr):
                    bad.append(f"on {w!r} the search finds {str(found(real, tr))[:150]}, the re-read one {str(found(rr[2], tr))[:150]}")
                    break
    elif kind == "regex":
        from fandango.language.symbols import Terminal
        p = pat_unshow(rp["pattern"])
        t = Terminal(p)
        t._is_regex = True
        text = t.format_as_spec()
        print("pattern:", ascii(p), " printed:", ascii(text))
        real = read_symbol_text(text)
        if real[0] != "regex":
            bad.append(f"printed regex literal {text!a} is not read back as a regex terminal: {real}")
        elif type(real[1]) is not type(p) or denote(real[1]) != denote(p):
            cands = DEN_T if isinstance(p, str) else DEN_B
            d = [c for c, x, y in zip(cands, denote(p), denote(real[1])) if x != y][:3] if "error" not in (denote(p), denote(real[1])) else "compile error"
            bad.append(f"{p!a} is read back as {real[1]!a}: re.fullmatch differs on {d!a}")
    elif kind == "literal":
        try:
            sp = read_real(spec)
            from fandango.language.symbols import NonTerminal
            got = gio.terminal_payload(sp.grammar.rules[NonTerminal("<start>")].symbol)
            if ascii(got) != rp.get("value"):
                bad.append(f"literal read back as {got!a}, expected {rp.get('value')}")
        except Exception as e:  # noqa
            bad.append(f"printed literal rejected: {type(e).__name__}: {str(e)[:200]}")
    else:
        sp1 = read_real(spec)
        if rp.get("via") == "convert":
            d = tempfile.mkdtemp(prefix="c15-replay-", dir="/var/tmp")
            try:
                fn = os.path.join(d, "s.fan")
                with open(fn, "w", encoding="utf-8", errors="surrogatepass") as fh:
                    fh.write(spec)
                from fandango.converters.fan.FandangoFandangoConverter import FandangoFandangoConverter
                printed = FandangoFandangoConverter(fn).to_fan()
            finally:
                shutil.rmtree(d, ignore_errors=True)
        else:
            printed = (sp1.code_text + "\n\n" if sp1.code_text else "") + repr(sp1.grammar) + "\n"
        print("printed:\n" + printed)
        try:
            sp2 = read_real(printed)
            c1, c2 = grammar_canon(sp1.grammar), grammar_canon(sp2.grammar)
            if generators_of(sp1.grammar) != generators_of(sp2.grammar):
                bad.append(f"generators {generators_of(sp1.grammar)} re-read as {generators_of(sp2.grammar)}")
            if bounds_constraints_of(sp1) != bounds_constraints_of(sp2):
                bad.append(f"computed bounds {bounds_constraints_of(sp1)} re-read as {bounds_constraints_of(sp2)}")
            gj1, t1 = gio.grammar_to_json(sp1.grammar)
            gj2, t2 = gio.grammar_to_json(sp2.grammar)
            import random
            rng = random.Random(0)
            if [n for n, _ in gj1["rules"]] != [n for n, _ in gj2["rules"]]:
                bad.append("rule names changed")
            else:
                for (name, ir1), (_, ir2) in zip(gj1["rules"], gj2["rules"]):
                    words = words_for(ir1, t1.patterns, ir2, t2.patterns, rng, 30, 3)
                    if rp.get("word") is not None:
                        words.append(rp["word"])
                    res = driver_ask("drv_ir", match_requests(ir1, t1.patterns, words) + match_requests(ir2, t2.patterns, words))
                    for w, x, y in zip(words, res[:len(words)], res[len(words):]):
                        if x["match"] != y["match"]:
                            bad.append(f"rule {name}: {json.dumps(w)} accepted={x['match']} before, {y['match']} after")
                            break
                if c1 != c2 and not bad:
                    print("note: structure differs beyond singleton collapsing / splicing, languages agree on the samples")
        except Exception as e:  # noqa
            bad.append(f"printed spec rejected: {type(e).__name__}: {str(e)[:200]}")
    for b in bad:
        print("FAILS:", b)
    print("replay:", "property violated" if bad else "no violation on the current tree")
    return 1 if bad else 0


# ------------------------------------------------------------------------------------------------

def build_driver_alone() -> None:
    """when Props.C15 does not build, the drivers must still be current"""
    import subprocess
    from harness.common import _Lock  # noqa
    with _Lock():
        r = subprocess.run(["lake", "build", "drv_print", "drv_ir"], cwd=LEAN, stdout=subprocess.PIPE, stderr=subprocess.STDOUT,
                           text=True, timeout=1500)
    if r.returncode != 0:
        raise MachineryError("cannot build drv_print/drv_ir:\n" + r.stdout[-2000:])


def main(tier: str) -> int:
    run = Run(PID, tier, "proof")
    use_repo()
    gen = translate_print.regenerate()
    lean = lean_check("Props.C15", ["drv_print", "drv_ir"])
    for r in gen["refusals"]:
        lean.broken.append({"module": "Generated.Print", "reason": "translator refused: " + r})
    if not lean.ok:
        build_driver_alone()
    ctx = Ctx(run, tier)
    quick = tier == "quick"
    tmpdir = tempfile.mkdtemp(prefix="c15-", dir="/var/tmp")
    try:
        # corpus first
        node_phase(ctx, corpus_cases())
        # P/R + property on nodes
        rng = run.rng("nodes")
        n_nodes = 700 if quick else 7000
        batch: list[tuple] = []
        for i in range(n_nodes):
            single = rng.random() < 0.3
            g = Gen(rng, ctx.cap, parties=True, mixed_regex=rng.random() < 0.15)
            ir = g.node(rng.choice([1, 2, 2, 3, 3, 4]), single)
            batch.append((ir, g.pats, single))
            if len(batch) >= 350:
                node_phase(ctx, batch)
                batch = []
        if batch:
            node_phase(ctx, batch)
        import time as _t
        t0 = _t.time()
        run.coverage["phase_s"] = {"nodes": round(t0 - run.t0, 1)}
        for name, fn in (("tokens", lambda: token_phase(ctx, 500 if quick else 5000)),
                         ("literals", lambda: literal_phase(ctx, 400 if quick else 6000)),
                         ("regexes", lambda: regex_phase(ctx, 500 if quick else 3000)),
                         ("selectors", lambda: selector_phase(ctx, 300 if quick else 1500)),
                         ("payloads", lambda: payload_phase(ctx, 50 if quick else 250)),
                         ("specs", lambda: spec_phase(ctx, 150 if quick else 1500, tmpdir)),
                         ("words", lambda: word_phase(ctx, 40 if quick else 400)),
                         ("constraints", lambda: constraint_phase(ctx, 120 if quick else 1500))):
            t1 = _t.time()
            fn()
            run.coverage["phase_s"][name] = round(_t.time() - t1, 1)
            if os.environ.get("C15_TIMING"):
                print(f"phase {name}: {run.coverage['phase_s'][name]}s", flush=True)
    finally:
        shutil.rmtree(tmpdir, ignore_errors=True)

    run.coverage["traces_validated_against_impl"] = run.evaluations
    run.coverage["correspondence_disagreements"] = len(ctx.corr)
    run.coverage["disagreement_samples"] = ctx.corr[:5]
    run.coverage["generated_constants"] = gen["constants"]
    run.coverage["repetition_cap"] = ctx.cap
    if (not lean.ok or ctx.corr) and not run.violations:
        what = []
        if not lean.ok:
            what.append("proof obligations of Props/C15.lean no longer check: " + json.dumps(lean.broken)[:600])
        if ctx.corr:
            what.append(f"model/implementation correspondence broken on {len(ctx.corr)} cases, e.g. " + json.dumps(ctx.corr[0])[:500])
        run.report("C15/unproved", "; ".join(what), {"broken_obligations": lean.broken, "correspondence": ctx.corr[:20]}, no_input=True)
    return run.finish(
        lean,
        rule="(nodes) random IR over text/bytes/bit literals with quotes, backslashes, non-ASCII, non-printables, lone surrogates; "
             "str/bytes regexes; party-annotated nonterminals; all operators nested to depth 4, 30% with singleton groups "
             "(constructor-only shapes); built from the real node classes, printed, re-read by the real front end; languages "
             "compared on sampled+mutated child sequences by the verified matcher.  (tokens) random token strings, mostly "
             "ill-formed (incl. computed brace groups), model reader vs real front end.  (literals) repr/eval model vs CPython "
             "and vs the real lexer.  (regexes) str/bytes patterns from units with both quote kinds, backslash pairs (also at "
             "the end), line breaks, form feeds, non-ASCII, verbose-mode prefixes: printer, reader (also on mutated literal "
             "texts) and the `re` oracle instances.  (selectors) search terms of every class, flat / parenthesised-source / "
             "unprintable shapes, slices with omitted bounds, `*`, `|..|`, `len(*..)`: printer, reader (also on mutated token "
             "strings), real find() of original vs re-read search on 7 trees.  (payloads) specs with computed repetition "
             "bounds {e} {n,e} {e,n} {e,} {,e} {e,e} over 12 selector forms and generators with symbol arguments.  "
             "(specs) multi-rule specs with python code, parties, generators, computed repetitions via repr(grammar) and "
             "`fandango convert`.  (words) real parse() verdicts of both grammars.  (constraints) template constraints, "
             "verdicts of real check() on 14 inputs.  A node case is non-trivial when a postfix operator applies to a group, "
             "a bound is open, or a party annotation occurs; distinct by (structure, literals, regex text)",
        trusted_base=TRUSTED)
