"""C16 — generator-defined fields carry generator output and are not edited behind it.   (partial)

1. obligations: harness/translate_gen.py -> Generated/GenFlags.lean (what the generator code paths do NOW),
   Props/C16.lean (lake build, axiom audit)
2. correspondence, model (drv_gen) vs real code: `Grammar.generate` (value logged / parsed / error), the generator
   branch of `NonTerminalNode.fuzz` (children read-only, arguments kept), `replace_multiple` on a read-only target,
   outside generated output, and after an argument changed (regen branch), the witness of
   `C16_parse_repair_breaks_inv` replayed on the implementation
2b. correspondence for the WHOLE of `DerivationTree.replace_multiple` (Model/GenReplace.lean `replaceTop`): the real
   function is run on real fuzzed trees with sources (constant / random-logged / dependent / converter / nested /
   chained generators) and on perturbed copies of them (flags flipped, sources in odd places), with 1-3
   replacements aimed at generated fields, their arguments (sources, sources of sources), nodes inside generated
   output, nodes outside, terminals, other symbols; the model gets the values the generator expressions returned
   (call by call) and the real parser's answers; result tree, sources, read-only flags, generator call log and
   error kind must agree exactly.  The hypotheses and the conclusion of `C16_replace_multiple_inv` are evaluated on
   every such run by the verified checkers.
3. the property itself on real runs: the generator functions are wrapped so that EVERY return value is logged with
   the argument values; every emitted solution and every individual that reaches `Evaluator.evaluate_individual`
   is sent — with sources, read-only flags and the log — to the verified checker `genInvB`
   (`C16_checker_decides_inv`: = `GenInv`): the text of each generator-defined node is a value the generator
   returned for the values of the node's recorded arguments, and its children are read-only.  Deterministic
   generators are additionally re-evaluated on the recorded arguments.  A generator value that does not parse must
   raise.
"""
from __future__ import annotations

import contextlib
import io
import itertools
import json
import random
import time
from typing import Any, Optional

from harness import translate_gen
from harness.common import MachineryError, Run, driver_ask, lean_check, use_repo
from harness.impl import grammar_io as gio
from harness.impl.grammar_io import NotModelled
from harness.props.c01 import Timeout, limit

PID = "C16"

TRUSTED = [
    "Lean 4.33.0 kernel; axioms ⊆ {propext, Classical.choice, Quot.sound} (audited per run)",
    "hand-written model lean/Model/Gen.lean (generate / fuzz generator branch / regen branch / read-only refusal / "
    "GenInv and its checker) and lean/Model/GenReplace.lean (the whole of DerivationTree.replace_multiple with "
    "populate_sources / derive_sources / _topological_sort / derive_generator_output, generators as an oracle with a "
    "call log); tied by this run's correspondence (generator-bounded): real replace_multiple vs replaceTop, exact on "
    "tree, sources, flags, call log, error kind",
    "model abstractions: a generator's value depends on the call index, the symbol and the argument TEXTS; tree "
    "equality (`!=`, `in`) is equality of (symbol, children) — hash collisions are C10; senders/recipients, bits and "
    "bytes/str mixing are outside; replace_multiple is modelled for a call on the root; parent pointers are assumed "
    "consistent (checked on every case)",
    "translator harness/translate_gen.py (which code paths mark generator output read-only — incl. derive_sources — "
    "generate raises on an unfit value, replace_multiple tests read_only) -> Generated/GenFlags.lean",
    "generator functions are observed by wrapping Grammar.generate_string (the single place that evaluates them)",
    "the parser's fit with the rule (parsed text = value) is C04/C05, assumed here as `ParseFits`",
    "texts are compared as code-unit lists (str: code points, bytes: byte values); bit-level grammars are skipped",
]


# ------------------------------------------------------------------------------------------------
# encoding
# ------------------------------------------------------------------------------------------------

def units(v: Any) -> list[int]:
    if isinstance(v, str):
        return [ord(c) for c in v]
    if isinstance(v, (bytes, bytearray)):
        return list(v)
    raise NotModelled(f"value {type(v).__name__}")


def leaf_units(sym) -> list[int]:
    return units(gio.terminal_payload(sym)) if not isinstance(gio.terminal_payload(sym), int) else \
        _bit(gio.terminal_payload(sym))


def _bit(_b: int) -> list[int]:
    raise NotModelled("bit terminal")


def gtree_json(t) -> list:
    if t.symbol.is_terminal:
        return ["l", leaf_units(t.symbol), bool(t.read_only)]
    if not t.symbol.is_non_terminal:
        raise NotModelled("slice")
    return ["n", t.symbol.name(), bool(t.read_only), [gtree_json(c) for c in t.children],
            [gtree_json(s) for s in t.sources]]


def text_units(t) -> list[int]:
    if t.symbol.is_terminal:
        return leaf_units(t.symbol)
    out: list[int] = []
    for c in t.children:
        out.extend(text_units(c))
    return out


def params_of(grammar, nt) -> list[str]:
    gen = grammar.generators[nt]
    return list(dict.fromkeys(x.symbol.name() for x in gen.nonterminals.values()))


def spec_json(grammar) -> dict:
    """gens: parameters in the order of `generator.nonterminals.values()`; deps: `generator_dependencies(sym)` in
    the iteration order of that set (what `_topological_sort` walks); rules: symbols with a rule"""
    return {"gens": [[nt.name(), params_of(grammar, nt)] for nt in grammar.generators],
            "deps": [[nt.name(), [d.name() for d in grammar.generator_dependencies(nt)]] for nt in grammar.generators],
            "rules": [nt.name() for nt in grammar.rules]}


class GenLog:
    """wraps Grammar.generate_string: every value a generator expression returns is recorded with the values of
    the arguments it was evaluated on"""

    def __init__(self):
        self.entries: list[list] = []
        self.raw: list[tuple] = []
        self.unmodelled = 0

    def __enter__(self):
        from fandango.language.grammar.grammar import Grammar
        from fandango.language.symbols import NonTerminal
        self._orig = Grammar.generate_string
        log = self

        def generate_string(g, symbol="<start>", sources=None):
            out = log._orig(g, symbol, sources)
            try:
                nt = NonTerminal(symbol) if isinstance(symbol, str) else symbol
                by_sym = {t.symbol.name(): t for t in out[0]}
                args = [text_units(by_sym[p]) for p in params_of(g, nt)]
                log.entries.append([nt.name(), args, units(out[1])])
                log.raw.append((nt.name(), out[1]))
            except (NotModelled, KeyError):
                log.unmodelled += 1
            return out

        Grammar.generate_string = generate_string
        return self

    def __exit__(self, *a):
        from fandango.language.grammar.grammar import Grammar
        Grammar.generate_string = self._orig
        return False


# ------------------------------------------------------------------------------------------------
# specs
# ------------------------------------------------------------------------------------------------

PY = '''import random
def pick():
    return random.choice(["ab", "cde", "q", "xyzzy", "abc"])
def num():
    return str(random.randint(0, 99))
def frame(body):
    return "%d:%s" % (len(body), body)
def unframe(m):
    return m.split(":", 1)[1]
def rev(s):
    return s[::-1]
def up(s):
    return s.upper()
def low(s):
    return s.lower()
'''

# (name, grammar text, deterministic generators, generated symbols of interest, argument symbols)
SPECS = [
    ("constant", '<start> ::= <g> "-" <x>\n<g> ::= r"[a-z]+" := "abc"\n<x> ::= r"[0-9]"\n', True, ["<g>"], []),
    ("random", PY + '<start> ::= <g> "-" <x> (";" <g>)?\n<g> ::= <l>+ := pick()\n<l> ::= r"[a-z]"\n<x> ::= r"[0-9]"\n',
     False, ["<g>"], []),
    ("random_num", PY + '<start> ::= <item> ("," <item>){0,2}\n<item> ::= <n> "=" <w>\n<n> ::= r"[0-9]+" := num()\n'
                        '<w> ::= r"[a-c]{1,3}"\n', False, ["<n>"], []),
    ("dependent", PY + '<start> ::= <m> ("!" <m>)?\n<m> ::= <len> ":" <body> := frame(str(<body>))\n'
                       '<len> ::= r"[0-9]+"\n<body> ::= r"[a-c]{1,5}"\n', True, ["<m>"], ["<body>"]),
    ("converter", PY + '<start> ::= <m> "." <x>\n<m> ::= <len> ":" <body> := frame(str(<body>))\n<len> ::= r"[0-9]+"\n'
                       '<body> ::= r"[a-c]{1,5}" := unframe(str(<m>))\n<x> ::= r"[0-9]"\n', True, ["<m>"], ["<body>"]),
    ("nested", PY + '<start> ::= <outer> "|" <x>\n<outer> ::= r"[A-Z]+" := up(str(<inner>))\n'
                    '<inner> ::= r"[a-z]+" := low(str(<outer>))\n<x> ::= <w> := rev(str(<v>))\n<w> ::= r"[a-c]+"\n'
                    '<v> ::= r"[a-c]{2,4}" := rev(str(<x>))\n', True, ["<outer>", "<x>"], ["<inner>", "<v>"]),
    ("two_args", PY + '<start> ::= <sum> "=" <k>\n<sum> ::= r"[a-c]*[0-9]*" := str(<p>) + str(<q>)\n'
                      '<p> ::= r"[a-c]{1,2}"\n<q> ::= r"[0-9]{1,2}"\n<k> ::= "k" | "kk"\n', True, ["<sum>"], ["<p>", "<q>"]),
]

UNFIT_SPECS = [
    ('<start> ::= <g>\n<g> ::= r"[0-9]+" := "abc"\n', "constant value outside the rule"),
    (PY + '<start> ::= "(" <g> ")"\n<g> ::= r"[a-c]{2}" := pick()\n', "random value mostly outside the rule"),
    (PY + '<start> ::= <m>\n<m> ::= <len> ";" <body> := frame(str(<body>))\n<len> ::= r"[0-9]+"\n<body> ::= r"[a-c]{1,5}"\n',
     "dependent value with the wrong separator"),
]


def constraints_for(rng, name: str, gens: list[str], args: list[str]) -> tuple[list[str], str]:
    """constraints that push repairs onto generated fields, their arguments, their parts, enclosing symbols"""
    g = rng.choice(gens)
    kind = rng.choice(["none", "eq_on_generated", "eq_on_enclosing", "eq_on_argument", "eq_on_part", "pred_on_generated",
                       "pred_on_part", "eq_two_generated", "len_start"])
    if kind == "eq_on_argument" and not args:
        kind = "pred_on_generated"
    word = rng.choice(["abc", "xyz", "q", "ab", "3:abc", "ABC", "7", "cab"])
    if kind == "none":
        return [], kind
    if kind == "eq_on_generated":
        return [rng.choice([f'where {g} == "{word}"', f'where str({g}) == "{word}"'])], kind
    if kind == "eq_on_enclosing":
        return [f'where str(<start>) == "{word}-1"' if name in ("constant", "random") else f'where <start> == "{word}"'], kind
    if kind == "eq_on_argument":
        a = rng.choice(args)
        return [rng.choice([f'where str({a}) == "{word}"', f'where {a} == "{word}"'])], kind
    if kind == "eq_on_part":
        part = {"dependent": "<len>", "converter": "<len>", "random": "<l>", "random_num": "<n>"}.get(name, g)
        return [f'where str({part}) == "{rng.choice(["9", "q", "12"])}"'], kind
    if kind == "pred_on_generated":
        return [rng.choice([f'where str({g}).startswith("{word[0]}")', f'where len(str({g})) >= {rng.randint(2, 5)}',
                            f'where str({g}) != "{word}"'])], kind
    if kind == "pred_on_part":
        part = {"dependent": "<body>", "converter": "<body>", "random": "<l>", "two_args": "<p>"}.get(name, g)
        return [f'where str({part}).startswith("{rng.choice("abcq")}")'], kind
    if kind == "eq_two_generated":
        return [f"where str({g}) == str({rng.choice(gens)})[::-1]"], kind
    return [f"where len(str(<start>)) >= {rng.randint(4, 9)}"], kind


# ------------------------------------------------------------------------------------------------
# property observation
# ------------------------------------------------------------------------------------------------

EQ_REPAIR = "equality-repair-assigns-generated-field"
PARAM_WRITABLE = "derive-sources-leaves-parameter-output-writable"


def report_finding(run: Run, sig: str, what: str, replay: dict) -> None:
    """a defect class with an entry in known_findings.json (open: KNOWN-FINDING line; fixed: a re-occurrence is a
    VIOLATION; no entry: a VIOLATION)"""
    run.report(sig, what, replay)


def classify(verdict: int, node: Optional[list], assigned: set) -> Optional[str]:
    """the open finding, narrowly: the node's text is one that equality repair (EqualComparisonSuggestion: the
    wanted value parsed under the target symbol) installed on this generator-defined symbol in this run"""
    if verdict == 1 and node is not None and node[0] == "n":
        if (node[1], tuple(_gunits(node))) in assigned:
            return EQ_REPAIR
    return None


def _gunits(tj: list) -> list[int]:
    if tj[0] == "l":
        return list(tj[1])
    out: list[int] = []
    for k in tj[3]:
        out.extend(_gunits(k))
    return out


def generator_nodes(grammar, t, out: list) -> list:
    """nodes the grammar uses a generator for (arguments are searched, generated output is not)"""
    if t.symbol.is_non_terminal and t.symbol in grammar.generators and grammar.is_use_generator(t):
        out.append(t)
        for s in t.sources:
            generator_nodes(grammar, s, out)
        return out
    for c in t.children:
        generator_nodes(grammar, c, out)
    for s in t.sources:
        generator_nodes(grammar, s, out)
    return out


class Ctx:
    def __init__(self, run: Run):
        self.run = run
        self.flags: dict = {}
        self.q: list[tuple[dict, dict]] = []
        self.corr_cases = 0
        self.corr_fail: list[dict] = []

    def corr(self, case: str, ok: bool, detail: dict) -> None:
        self.corr_cases += 1
        self.run.count("op:" + case)
        if not ok:
            d = dict(detail)
            d["case"] = case
            self.corr_fail.append(d)

    def queue_inv(self, spec_j: dict, log: list, trees_json: list, meta: dict) -> None:
        for tj in trees_json:
            m = dict(meta)
            m["tree"] = tj
            self.q.append(({"op": "inv", "spec": spec_j, "log": log, "path": [], "tree": tj}, m))
        if len(self.q) >= 1200:
            self.flush()

    def flush(self) -> None:
        if not self.q:
            return
        answers = driver_ask("drv_gen", [q for q, _ in self.q], timeout=900)
        for (q, m), a in zip(self.q, answers):
            origin = m["origin"]
            self.run.count("trees:" + origin)
            gens = _count_gen(m["tree"], {g[0] for g in q["spec"]["gens"]})
            self.run.case(m["tree"], gens > 0, None)
            self.run.count("generator_nodes:" + ("0" if gens == 0 else "1" if gens == 1 else "2+"))
            if a["ok"] and not a.get("srcok", True):
                # premise of GReachW.fresh / C16_reachable_inv_whole: sources only at generator-defined nodes
                self.corr("sources_only_at_generator_nodes", False, {"origin": origin, "tree": m["tree"],
                                                                     "spec": m.get("spec")})
            elif a["ok"]:
                self.corr_cases += 1
                self.run.count("op:sources_only_at_generator_nodes")
            if not a["ok"]:
                path, verdict = a["bad"]
                kind = m.get("kind", "?")
                node = _walk(m["tree"], path)
                cls = classify(verdict, node, m.get("assigned") or set())
                what = {1: "its text is not a value the generator returned for the values of its recorded arguments",
                        2: "its children (the generated text) are writable", 3: "an argument of its generator is missing"}[verdict]
                sig = f"C16/{cls}" if cls else f"C16/verdict{verdict}:{origin}:{kind}"
                self.run.count("invalid:" + (cls or f"verdict{verdict}:{kind}"))
                self.run.report(
                    sig,
                    f"{origin} ({m.get('name')}, constraint kind {kind}): in the tree for {_gtext(m['tree'])!r} the "
                    f"generator-defined node {node[1] if node else '?'} = {_gtext(node) if node else '?'!r} at {path}: {what}"
                    + (f" [{cls}]" if cls else ""),
                    {"kind": "tree", "origin": origin, "spec": m.get("spec"), "settings": m.get("settings"),
                     "tree": m["tree"], "bad": a["bad"], "log": q["log"][:200], "spec_json": q["spec"], "class": cls,
                     "assigned_by_equality_repair": sorted([s_, "".join(chr(c) for c in t_)] for s_, t_ in
                                                           (m.get("assigned") or set()))[:50]})
        self.q.clear()


def _count_gen(tj: list, names: set) -> int:
    if tj[0] == "l":
        return 0
    return (1 if tj[1] in names else 0) + sum(_count_gen(k, names) for k in tj[3]) + sum(_count_gen(k, names) for k in tj[4])


def _walk(tj: list, steps: list) -> Optional[list]:
    cur = tj
    for st in steps:
        if cur[0] != "n":
            return None
        seq = cur[4] if st % 2 else cur[3]
        if st // 2 >= len(seq):
            return None
        cur = seq[st // 2]
    return cur


def _gtext(tj) -> str:
    if tj is None:
        return "?"
    if tj[0] == "l":
        return "".join(chr(c) for c in tj[1])
    return "".join(_gtext(k) for k in tj[3])


def run_evolution(spec: str, seed: int, settings: dict, generations: int, want: int, seconds: int):
    from fandango.evolution.algorithm import Fandango
    from fandango.evolution.evaluation import Evaluator
    with limit(8):
        grammar, constraints = gio.parse_spec(spec)
    seen: dict[int, Any] = {}
    o_eval = Evaluator.evaluate_individual

    def evaluate_individual(self, individual):
        seen.setdefault(id(individual), individual)
        return o_eval(self, individual)

    sols, err = [], None
    Evaluator.evaluate_individual = evaluate_individual
    glog = GenLog()
    # call-site evidence for the open finding: texts that EqualComparisonSuggestion (parse of the wanted value under
    # the target symbol / copy of a same-symbol tree) puts onto generator-defined symbols
    from fandango.constraints.comparison import EqualComparisonSuggestion
    o_repl = EqualComparisonSuggestion.get_replacements
    glog.assigned = set()

    def get_replacements(self, individual, grammar):   # (keyword arguments at the call sites)
        grammar_ = grammar
        out = o_repl(self, individual, grammar_)
        try:
            for _tgt, new in out:
                stack = [new]
                while stack:
                    n = stack.pop()
                    if n.symbol.is_non_terminal and n.symbol in grammar_.generators:
                        glog.assigned.add((n.symbol.name(), tuple(text_units(n))))
                    stack.extend(n.children)
        except NotModelled:
            pass
        return out

    EqualComparisonSuggestion.get_replacements = get_replacements
    try:
        with glog, contextlib.redirect_stderr(io.StringIO()):
            with limit(seconds):
                try:
                    fan = Fandango(grammar, constraints, random_seed=seed, **settings)
                    for s in itertools.islice(fan.generate(max_generations=generations), want):
                        sols.append(s)
                    for t in fan.population:
                        seen.setdefault(id(t), t)
                except Timeout:
                    err = "timeout"
                except Exception as e:  # noqa
                    err = type(e).__name__
    finally:
        Evaluator.evaluate_individual = o_eval
        EqualComparisonSuggestion.get_replacements = o_repl
    return grammar, constraints, list(seen.values()), sols, glog, err


def reevaluate(ctx: Ctx, grammar, trees: list, meta: dict) -> None:
    """deterministic generators: the text equals the generator applied to the recorded argument values — decided
    by the real evaluator, independently of the model"""
    for t in trees:
        for n in generator_nodes(grammar, t, []):
            try:
                with contextlib.redirect_stderr(io.StringIO()):
                    _, val = grammar.generate_string(n.symbol, n.sources)
                ctx.run.count("reevaluated")
                if units(val) != text_units(n):
                    kind = meta.get("kind", "?")
                    cls = EQ_REPAIR if (n.symbol.name(), tuple(text_units(n))) in (meta.get("assigned") or set()) else None
                    ctx.run.report(
                        f"C16/{cls}" if cls else f"C16/reevaluation-differs:{meta['origin']}:{kind}",
                        f"{meta['origin']} ({meta.get('name')}, {kind}): {n.symbol.name()} reads {str(n)!r} but its generator "
                        f"gives {val!r} on the recorded arguments {[str(s) for s in n.sources]}" + (f" [{cls}]" if cls else ""),
                        {"kind": "tree", "origin": meta["origin"], "spec": meta.get("spec"), "settings": meta.get("settings"),
                         "tree": gtree_json(t), "class": cls})
                    ctx.run.count("invalid:" + (cls or "reevaluation-differs"))
            except NotModelled:
                ctx.run.count("not_modelled")
            except Exception as e:  # noqa
                ctx.run.count("reevaluate_raised:" + type(e).__name__)


def stage_evolution(ctx: Ctx, rng, n_runs: int, seconds: int) -> None:
    run = ctx.run
    for i in range(n_runs):
        name, text, deterministic, gens, args = SPECS[i % len(SPECS)]
        cons, kind = constraints_for(rng, name, gens, args)
        spec = text + "\n".join(cons) + ("\n" if cons else "")
        settings = {"population_size": rng.choice([4, 6, 8]), "max_nodes": rng.choice([20, 40]),
                    "mutation_rate": rng.choice([0.2, 0.6, 1.0]), "crossover_rate": rng.choice([0.8, 1.0])}
        seed = rng.getrandbits(30)
        try:
            grammar, constraints, inds, sols, glog, err = run_evolution(spec, seed, settings, rng.choice([2, 3, 5]), 10, seconds)
        except Timeout:
            run.count("spec_timeout")
            continue
        except Exception as e:  # noqa
            run.count("spec_rejected:" + type(e).__name__)
            continue
        run.count("spec:" + name)
        run.count("constraint:" + kind)
        run.count("end:" + (err or "ok"))
        run.count("solutions:" + ("0" if not sols else "1+"))
        run.count("generator_calls", len(glog.entries))
        meta = {"spec": spec, "settings": dict(settings, seed=seed), "kind": kind, "name": name,
                "assigned": set(glog.assigned)}
        sol_ids = {id(s) for s in sols}
        others = [t for t in inds if id(t) not in sol_ids]
        try:
            sj = spec_json(grammar)
            ctx.queue_inv(sj, glog.entries, [gtree_json(t) for t in sols], dict(meta, origin="solution"))
            ctx.queue_inv(sj, glog.entries, [gtree_json(t) for t in others], dict(meta, origin="individual"))
        except NotModelled as e:
            run.count("not_modelled:" + str(e)[:30])
            continue
        if deterministic:
            reevaluate(ctx, grammar, sols, dict(meta, origin="solution"))
    ctx.flush()


# ------------------------------------------------------------------------------------------------
# correspondence: generate / fuzz / replace
# ------------------------------------------------------------------------------------------------

def stage_ops(ctx: Ctx, rng, n: int) -> None:
    from fandango.errors import FandangoParseError
    from fandango.language.symbols import NonTerminal
    run = ctx.run
    for i in range(n):
        name, text, deterministic, gens, args = SPECS[i % len(SPECS)]
        try:
            with limit(8):
                grammar, _ = gio.parse_spec(text)
        except Exception as e:  # noqa
            raise MachineryError(f"C16 spec {name} no longer parses: {e!r}")
        sj = spec_json(grammar)
        random.seed(rng.getrandbits(32))
        with GenLog() as glog, contextlib.redirect_stderr(io.StringIO()):
            try:
                with limit(5):
                    tree = grammar.fuzz("<start>", rng.choice([10, 30]))
            except Exception as e:  # noqa
                run.count("fuzz_raised:" + type(e).__name__)
                continue
        gnodes = generator_nodes(grammar, tree, [])
        if not gnodes:
            continue
        g = rng.choice(gnodes)
        reqs, handlers = [], []
        try:
            # (a) generator branch of fuzz: the node is what fuzzGen builds from its arguments and the logged value
            entry = next((e for e in reversed(glog.entries) if e[0] == g.symbol.name() and e[2] == text_units(g)), None)
            if entry is not None:
                parsed = [gtree_json(c) for c in g.children]
                for c in parsed:
                    _clear_ro(c)
                want = gtree_json(g)
                reqs.append({"op": "fuzzgen", "spec": sj, "sym": g.symbol.name(), "srcs": [gtree_json(s) for s in g.sources],
                             "value": entry[2], "parsed": parsed})
                handlers.append(lambda a, want=want, entry=entry: ctx.corr(
                    "fuzz_generator_branch", a.get("tree") == want and a.get("entry") == entry,
                    {"spec": name, "impl": want, "model": a}))
            # (b) Grammar.generate on the same arguments (deterministic: same value again)
            with GenLog() as gl2:
                gen_tree = grammar.generate(g.symbol, [s for s in g.sources])
            e2 = gl2.entries[-1]
            parsed = [gtree_json(c) for c in gen_tree.children]
            want2 = gtree_json(gen_tree)
            reqs.append({"op": "generate", "spec": sj, "sym": g.symbol.name(), "srcs": [gtree_json(s) for s in g.sources],
                         "value": e2[2], "parsed": parsed})
            handlers.append(lambda a, want2=want2, e2=e2: ctx.corr(
                "generate", a.get("tree") == want2 and a.get("entry") == e2, {"spec": name, "impl": want2, "model": a}))
            # (c) a repair aimed at generated text: refused (read-only), tree unchanged
            inner = [c for c in g.children]
            if inner:
                tgt = rng.choice(inner)
                repl = tgt.deepcopy(copy_parent=False)
                repl.set_all_read_only(False)
                before = gtree_json(tree)
                res = tree.replace_multiple(grammar, [(tgt, repl)])
                ctx.corr("replace_inside_generated_refused", gtree_json(res) == before,
                         {"spec": name, "impl": gtree_json(res), "model": before})
                path = _child_path(tgt)
                if path is not None:
                    reqs.append({"op": "replace", "tree": before, "path": path, "repl": gtree_json(repl)})
                    handlers.append(lambda a, before=before: ctx.corr(
                        "replace_read_only_target", a["tree"] == before, {"spec": name, "impl": before, "model": a["tree"]}))
            # (d) an argument changes: the generator is re-run on the new arguments (regen branch)
            if g.sources and name in ("dependent", "two_args"):
                src = rng.choice(g.sources)
                with contextlib.redirect_stderr(io.StringIO()):
                    new_src = grammar.fuzz(src.symbol, 10)
                with GenLog() as gl3, contextlib.redirect_stderr(io.StringIO()):
                    res = tree.replace_multiple(grammar, [(src, new_src)])
                g2 = _follow(res, _mixed_path(g))
                if g2 is not None and gl3.entries:
                    e3 = gl3.entries[-1]
                    with contextlib.redirect_stderr(io.StringIO()):
                        parsed_t = grammar.parse("".join(chr(c) for c in e3[2]), g.symbol)
                    parsed = [gtree_json(c) for c in parsed_t.children] if parsed_t is not None else None
                    want3 = gtree_json(g2)
                    reqs.append({"op": "regen", "spec": sj, "sym": g.symbol.name(), "ro": bool(g.read_only),
                                 "srcs": [gtree_json(s) for s in g2.sources], "value": e3[2], "parsed": parsed})
                    handlers.append(lambda a, want3=want3, e3=e3: ctx.corr(
                        "regen_after_argument_change", a.get("tree") == want3 and a.get("entry") == e3,
                        {"spec": name, "impl": want3, "model": a}))
                    run.count("regen_children_read_only:" + str(all(c.read_only for c in g2.children)))
        except NotModelled as e:
            run.count("not_modelled:" + str(e)[:30])
            continue
        except Timeout:
            run.count("op_timeout")
            continue
        if reqs:
            for h, a in zip(handlers, driver_ask("drv_gen", reqs)):
                h(a)
    # unfit values must raise, in the model and in the code; never a substitute
    for text, why in UNFIT_SPECS:
        with limit(8):
            grammar, _ = gio.parse_spec(text)
        sj = spec_json(grammar)
        for _ in range(6):
            random.seed(rng.getrandbits(32))
            with GenLog() as glog, contextlib.redirect_stderr(io.StringIO()):
                try:
                    with limit(5):
                        tree = grammar.fuzz("<start>", 20)
                    outcome = "tree"
                except FandangoParseError:
                    outcome = "parseError"
                except Exception as e:  # noqa
                    outcome = "other:" + type(e).__name__
            if not glog.entries:
                continue
            e = glog.entries[-1]
            val = "".join(chr(c) for c in e[2])
            with contextlib.redirect_stderr(io.StringIO()):
                fits = grammar.parse(val, e[0])
            run.count("unfit:" + ("fits" if fits is not None else "does_not_fit") + ":" + outcome)
            if fits is None:
                nt = NonTerminal(e[0])
                srcs = []     # arguments are not needed to decide "raises": the model gets the real arguments' values
                a = driver_ask("drv_gen", [{"op": "generate", "spec": {"gens": [[e[0], []]]}, "sym": e[0], "srcs": srcs,
                                            "value": e[2], "parsed": None}])[0]
                ctx.corr("unfit_value", a == {"err": "parseError"} and outcome == "parseError",
                         {"spec": text, "value": val, "impl": outcome, "model": a})
                if outcome == "tree":
                    ctx.run.report("C16/unfit-value-not-raised",
                                   f"{why}: the generator of {e[0]} returned {val!r}, which does not parse under the rule, "
                                   f"yet fuzz() returned the tree for {str(tree)!r}",
                                   {"kind": "unfit", "spec": text, "value": val})
    # the witness of C16_parse_repair_breaks_inv on the implementation
    grammar, _ = gio.parse_spec('<start> ::= <g> "-"\n<g> ::= r"[a-z]+" := "abc"\n')
    with GenLog() as glog:
        t = grammar.fuzz("<start>", 10)
    g = t.children[0]
    repair = grammar.parse("xyz", "<g>")
    res = t.replace_multiple(grammar, [(g, repair)])
    a = driver_ask("drv_gen", [
        {"op": "replace", "tree": gtree_json(t), "path": [0], "repl": _with_ro_kids(gtree_json(repair))},
        {"op": "inv", "spec": spec_json(grammar), "log": glog.entries, "path": [], "tree": gtree_json(res)}])
    ctx.corr("eq_repair_witness", a[0]["tree"] == gtree_json(res) and a[1]["ok"] is False and str(res) == "xyz-",
             {"impl": gtree_json(res), "model": a[0]["tree"], "inv": a[1]})


# ------------------------------------------------------------------------------------------------
# correspondence: the whole of replace_multiple
# ------------------------------------------------------------------------------------------------

WHOLE_SPECS = [
    ("chain", PY + '<start> ::= <a> "/" <x>\n<a> ::= r"[A-C]+" := up(str(<b>))\n<b> ::= r"[a-c]+" := rev(str(<c>))\n'
              '<c> ::= r"[a-c]{1,3}"\n<x> ::= r"[0-9]"\n'),
    ("chain_conv", PY + '<start> ::= <a> "/" <x>\n<a> ::= r"[A-C]+" := up(str(<b>))\n'
                   '<b> ::= r"[a-c]+" := low(str(<a>))\n<x> ::= r"[0-9]"\n'),
    ("const_param", PY + '<start> ::= <m> "." <x>\n<m> ::= r"[A-Ca-c]+" := up(str(<body>))\n<body> ::= <l>+ := "abc"\n'
                    '<l> ::= r"[a-c]"\n<x> ::= r"[0-9]"\n'),
    ("in_rep", PY + '<start> ::= <it>{1,3}\n<it> ::= <m> ";"\n<m> ::= <len> ":" <body> := frame(str(<body>))\n'
               '<len> ::= r"[0-9]+"\n<body> ::= <l>{1,3} := unframe(str(<m>))\n<l> ::= r"[a-c]"\n'),
    ("random_arg", PY + '<start> ::= <w> "=" <g>\n<w> ::= <k> "+" <g> := str(<k>) + "+" + pick()\n<g> ::= <l>+ := pick()\n'
                   '<l> ::= r"[a-z]"\n<k> ::= r"[a-c]{1,2}"\n'),
    ("gen_child", PY + '<start> ::= <m> "." <x>\n<m> ::= <tag> ":" <body> := "t:" + rev(str(<body>))\n<tag> ::= r"[a-z]" := "t"\n'
                  '<body> ::= r"[a-c]{1,5}"\n<x> ::= r"[0-9]"\n'),
    ("two_conv", 'def join(a, b):\n    return a + "=" + b\ndef left(g):\n    return g.split("=")[0]\n'
                 'def right(g, a):\n    return g[len(a) + 1:]\n<start> ::= <g> "."\n'
                 '<g> ::= <a> "=" <b> := join(str(<a>), str(<b>))\n<a> ::= r"[a-c]{1,2}" := left(str(<g>))\n'
                 '<b> ::= r"[x-z]{1,2}" := right(str(<g>), str(<a>))\n'),
    ("unfit_regen", 'def pred(n):\n    return str(int(n) - 1)\n<start> ::= <m> "." <n>\n'
                    '<m> ::= r"[0-9]+" := pred(str(<n>))\n<n> ::= r"[0-9]{1,2}"\n'),
    ("unsound_conv", 'def fx(a):\n    return "x"\ndef hq(g):\n    return "q"\n<start> ::= <g> "-"\n'
                     '<g> ::= r"[a-z]" := fx(str(<a>))\n<a> ::= r"[pq]" := hq(str(<g>))\n'),
]


class CallLog:
    """every evaluation of a generator expression, in call order: [symbol, argument values, value] — value None
    when the expression raised"""

    def __init__(self):
        self.calls: list[list] = []

    def __enter__(self):
        from fandango.errors import FandangoValueError
        from fandango.language.grammar.grammar import Grammar
        from fandango.language.symbols import NonTerminal
        self._orig = Grammar.generate_string
        log = self

        def generate_string(g, symbol="<start>", sources=None):
            nt = NonTerminal(symbol) if isinstance(symbol, str) else symbol
            try:
                out = log._orig(g, symbol, sources)
            except FandangoValueError as e:
                if "missing generator parameter" in str(e):
                    raise
                log.calls.append([nt.name(), None, None])
                raise
            except Exception:
                log.calls.append([nt.name(), None, None])
                raise
            by_sym = {t.symbol.name(): t for t in out[0] if t.symbol.is_non_terminal}
            log.calls.append([nt.name(), [text_units(by_sym[p]) for p in params_of(g, nt)], units(out[1])])
            return out

        Grammar.generate_string = generate_string
        return self

    def __exit__(self, *a):
        from fandango.language.grammar.grammar import Grammar
        Grammar.generate_string = self._orig
        return False


def _all_nodes(grammar, t, out: list, inside_gen=False, in_src=False) -> list:
    out.append((t, inside_gen, in_src))
    ig = inside_gen or (t.symbol.is_non_terminal and t.symbol in grammar.generators and grammar.is_use_generator(t))
    for c in t.children:
        _all_nodes(grammar, c, out, ig, in_src)
    for s_ in t.sources:
        _all_nodes(grammar, s_, out, False, True)
    return out


def _steps(node) -> list[int]:
    from fandango.language.tree import ChildStep
    return [2 * st.index if isinstance(st, ChildStep) else 2 * st.index + 1 for st in node.get_choices_path()]


def _follow_steps(root, steps: list[int]):
    cur = root
    for st in steps:
        cur = (cur.sources if st % 2 else cur.children)[st // 2]
    return cur


def _err_kind(e: BaseException) -> str:
    from fandango.errors import FandangoParseError, FandangoValueError
    if isinstance(e, FandangoParseError):
        return "parseError"
    if isinstance(e, FandangoValueError):
        m = str(e)
        for needle, kind in (("missing generator parameter", "missingParam"), ("Missing converter", "missingConverter"),
                             ("not defined in grammar", "undefinedSymbol"), ("is not a nonterminal", "notNonterminal"),
                             ("No generator found", "noGenerator")):
            if needle in m:
                return kind
    if isinstance(e, (KeyError, ValueError)):
        tb, fns = e.__traceback__, []
        while tb is not None:
            fns.append(tb.tb_frame.f_code.co_name)
            tb = tb.tb_next
        if "_topological_sort" in fns or (isinstance(e, ValueError) and fns and fns[-1] == "derive_sources"):
            return "topoError"
    return "other:" + type(e).__name__


def _parents_ok(t) -> bool:
    return all(c._parent is t and _parents_ok(c) for c in t.children) and \
        all(s_._parent is t and _parents_ok(s_) for s_ in t.sources)


def tree_from_json(tj: list):
    """a real DerivationTree from the model's tree encoding (string grammars)"""
    from fandango.language.symbols import NonTerminal, Terminal
    from fandango.language.tree import DerivationTree
    if tj[0] == "l":
        return DerivationTree(Terminal("".join(chr(c) for c in tj[1])), [], read_only=bool(tj[2]))
    return DerivationTree(NonTerminal(tj[1]), [tree_from_json(k) for k in tj[3]],
                          sources=[tree_from_json(k) for k in tj[4]], read_only=bool(tj[2]))


def _perturb(rng, tj: list, gens: set) -> tuple[list, Optional[list[int]]]:
    """trees the operators need not produce (the theorem quantifies over all): flags flipped, sources moved onto
    children, a source duplicated among the children; `generator_child`: a generator-defined child of generated
    output gets (writable) sources of its own — the `self_is_generator_child` branch; returns the steps to such a
    source as a target to aim at"""
    out = json.loads(json.dumps(tj))
    nodes: list[list] = []
    forced: Optional[list[int]] = None

    def paths(x, pre, acc):
        acc.append((x, pre))
        if x[0] == "n":
            for i, k in enumerate(x[3]):
                paths(k, pre + [2 * i], acc)
            for i, k in enumerate(x[4]):
                paths(k, pre + [2 * i + 1], acc)
        return acc
    if rng.random() < 0.5:
        cands = [(x, pre, i) for x, pre in paths(out, [], []) if x[0] == "n" and x[1] in gens and x[4]
                 for i, k in enumerate(x[3]) if k[0] == "n" and k[1] in gens]
        if cands:
            x, pre, i = rng.choice(cands)
            src = json.loads(json.dumps(x[4]))
            x[3][i][4] = src
            forced = pre + [2 * i, 1]
            return out, forced

    def walk(x):
        nodes.append(x)
        if x[0] == "n":
            for k in x[3] + x[4]:
                walk(k)
    walk(out)
    inner = [x for x in nodes if x[0] == "n"]
    for _ in range(rng.choice([1, 2, 3])):
        how = rng.choice(["flip", "flip", "move_sources", "dup_source", "drop_sources"])
        x = rng.choice(inner)
        if how == "flip":
            y = rng.choice(nodes)
            y[2] = not y[2]
        elif how == "move_sources" and x[4]:
            kids = [k for k in x[3] if k[0] == "n"]
            if kids:
                rng.choice(kids)[4].extend(json.loads(json.dumps(x[4])))
        elif how == "dup_source" and x[4]:
            x[3].append(json.loads(json.dumps(rng.choice(x[4]))))
        elif how == "drop_sources":
            x[4] = []
    return out, forced


def whole_case(grammar, sj: dict, tree, pairs: list, log0: list) -> tuple[Optional[dict], Optional[dict]]:
    """run the real replace_multiple; return (its canonical result, the request for the model)"""
    before = gtree_json(tree)
    repl = [[_steps(a), gtree_json(b)] for a, b in pairs]
    with CallLog() as cl, contextlib.redirect_stderr(io.StringIO()):
        try:
            with limit(10):
                res = tree.replace_multiple(grammar, list(pairs))
            impl: dict = {"tree": gtree_json(res), "log": list(cl.calls)}
        except (RecursionError, Timeout):
            return None, None
        except Exception as e:  # noqa
            k = _err_kind(e)
            if cl.calls and cl.calls[-1][2] is None and k.startswith("other:"):
                k = "genRaised"
            impl = {"err": k}
    parses, seen = [], set()
    for c in cl.calls:
        if c[2] is None or (c[0], tuple(c[2])) in seen:
            continue
        seen.add((c[0], tuple(c[2])))
        with contextlib.redirect_stderr(io.StringIO()):
            pt = grammar.parse("".join(chr(u) for u in c[2]), c[0])
        parses.append([c[0], c[2], None if pt is None else [gtree_json(k) for k in pt.children]])
    req = {"op": "replace_multiple", "spec": sj, "tree": before, "repl": repl, "log": list(log0),
           "values": [c[2] for c in cl.calls], "parses": parses, "fuel": 100000}
    return impl, req


def _judge_whole(ctx: Ctx, name: str, kinds: list[str], impl: dict, req: dict, a: dict, origin: str) -> bool:
    run = ctx.run
    model = {"err": a["err"]} if "err" in a else {"tree": a["tree"], "log": a["log"]}
    ok = impl == model
    ctx.corr("replace_multiple_whole", ok, {"spec": name, "targets": kinds, "impl": impl, "model": model,
                                           "request": {k: req[k] for k in ("spec", "tree", "repl", "values", "log")}})
    run.case(["whole", req["tree"], req["repl"], req["values"]], True, None)
    for kd in kinds:
        run.count("whole_target:" + kd)
    run.count("whole_origin:" + origin)
    run.count("whole_replacements:" + str(len(req["repl"])))
    run.count("whole_result:" + (impl.get("err") or ("changed" if impl["tree"] != req["tree"] else "unchanged")))
    run.count("whole_generator_calls:" + str(min(len(req["values"]), 4)) + ("+" if len(req["values"]) >= 4 else ""))
    if "err" not in a:
        pre = a["inv0"] and a["srcok0"]
        post = a["inv"] and a["srcok"]
        run.count(f"whole_theorem:pre={pre}:installs={len(a['installs'])}:installs_ok={a['installs_ok']}:post={post}")
        if pre and a["installs_ok"] and not post and ok:
            # C16_replace_multiple_inv says this cannot happen for the model; reaching it means the driver's
            # evaluation and the theorem disagree — machinery, not the implementation
            raise MachineryError("C16: model run contradicts C16_replace_multiple_inv: " + json.dumps(req)[:800])
    return ok


def _pick_pairs(rng, grammar, tree, other, forced=None) -> tuple[list, list[str]]:
    nodes = _all_nodes(grammar, tree, [])
    onodes = _all_nodes(grammar, other, [])

    def cls(x):
        t_, ig_, is_ = x
        return ("leaf" if t_.symbol.is_terminal else "gen" if t_.symbol in grammar.generators else "plain", ig_, is_)
    classes = sorted({cls(x) for x in nodes})
    weights = [1 if c_[0] == "leaf" else 3 for c_ in classes]
    pairs, kinds = [], []
    for j in range(rng.choice([1, 1, 2, 3])):
        c_ = rng.choices(classes, weights)[0]
        tgt, ig, insrc = rng.choice([x for x in nodes if cls(x) == c_])
        how = rng.choice(["fuzz", "other", "parse", "diff", "self"])
        if j == 0 and forced is not None:
            tgt = _follow_steps(tree, forced)
            c_, ig, insrc, how = ("generator_child_source",), False, True, "fuzz"
        repl = None
        with contextlib.redirect_stderr(io.StringIO()):
            try:
                if tgt.symbol.is_terminal:
                    repl = rng.choice([x for x, _, _ in onodes if x.symbol.is_terminal]).deepcopy(copy_parent=False)
                    how = "leaf"
                elif how == "fuzz":
                    repl = grammar.fuzz(tgt.symbol, 10)
                elif how == "other":
                    cands = [x for x, _, _ in onodes if x.symbol == tgt.symbol]
                    repl = rng.choice(cands) if cands else None
                elif how == "parse":
                    cands = [x for x, _, _ in onodes if x.symbol == tgt.symbol]
                    repl = grammar.parse(str(rng.choice(cands)), tgt.symbol) if cands else None
                elif how == "diff":
                    repl = rng.choice([x for x, _, _ in onodes if x.symbol.is_non_terminal])
                else:
                    repl = tgt.deepcopy(copy_parent=False)
                    repl.set_all_read_only(False)
            except Exception:  # noqa
                repl = None
        if repl is None:
            continue
        pairs.append((tgt, repl))
        kinds.append(c_[0] + (":inside_generated" if ig else "") + (":in_sources" if insrc else "") + ":" + how)
    return pairs, kinds


def stage_whole(ctx: Ctx, rng, n: int) -> None:
    run = ctx.run
    specs = [(s_[0], s_[1]) for s_ in SPECS] + WHOLE_SPECS
    parsed: dict[str, Any] = {}
    pending: list[tuple] = []
    # corpus first: past disagreements / findings of the whole-function stage (kind "whole")
    from harness.common import VERIF
    for cp in sorted((VERIF / "corpus" / "C16").glob("*.json")):
        rp = json.loads(cp.read_text())
        if rp.get("kind") != "whole":
            continue
        grammar, _ = gio.parse_spec(rp["spec"])
        tree = tree_from_json(rp["tree"])
        pairs = [(_follow_steps(tree, st), tree_from_json(r)) for st, r in rp["repl"]]
        impl, req = whole_case(grammar, spec_json(grammar), tree, pairs, rp["log"])
        if impl is not None:
            pending.append(("corpus:" + cp.stem, ["corpus"], impl, req, "corpus", rp["spec"]))
    for i in range(n):
        name, text = specs[i % len(specs)]
        if name not in parsed:
            try:
                with limit(8):
                    parsed[name] = gio.parse_spec(text)[0]
            except Exception as e:  # noqa
                raise MachineryError(f"C16 spec {name} no longer parses: {e!r}")
        grammar = parsed[name]
        sj = spec_json(grammar)
        random.seed(rng.getrandbits(32))
        with CallLog() as fl, contextlib.redirect_stderr(io.StringIO()):
            try:
                with limit(5):
                    tree = grammar.fuzz("<start>", rng.choice([10, 30]))
                    other = grammar.fuzz("<start>", rng.choice([10, 30]))
            except Exception as e:  # noqa
                run.count("whole_fuzz_raised:" + type(e).__name__)
                continue
        if any(c[2] is None for c in fl.calls):
            continue
        try:
            origin = "fuzzed"
            forced = None
            if rng.random() < 0.35:
                ptj, forced = _perturb(rng, gtree_json(tree), {g_[0] for g_ in sj["gens"]})
                tree = tree_from_json(ptj)
                origin = "perturbed" if forced is None else "perturbed:generator_child"
            if not _parents_ok(tree):
                run.count("whole_parent_pointers_inconsistent")
                continue
            with CallLog() as fl2:
                pairs, kinds = _pick_pairs(rng, grammar, tree, other, forced)
            if not pairs or any(c[2] is None for c in fl2.calls):
                continue
            impl, req = whole_case(grammar, sj, tree, pairs, list(fl.calls) + list(fl2.calls))
        except NotModelled as e:
            run.count("not_modelled:" + str(e)[:30])
            continue
        if impl is None:
            run.count("whole_recursion_or_timeout")
            continue
        pending.append((name, kinds, impl, req, origin, text))
    # fixed cases: the witnesses of Props/C16.lean §6 on the implementation
    pending.extend(_witness_cases(run))
    if pending:
        answers = driver_ask("drv_gen", [p_[3] for p_ in pending], timeout=900)
        deeper: list[tuple] = []
        for (name, kinds, impl, req, origin, text), a in zip(pending, answers):
            if not _judge_whole(ctx, name, kinds, impl, req, a, origin) and "tree" in impl:
                deeper.append((name, kinds, impl, req, a, text))
            if origin.startswith("witness:"):
                want = {"witness:parse_repair": (True, False), "witness:unsound_converter": (True, False),
                        "witness:cascade": (True, True), "witness:generator_child": (False, True),
                        "witness:param_output_writable": (True, bool(ctx.flags.get("deriveMarksParamReadOnly")))}[origin]
                got = (a.get("inv0") and a.get("srcok0"), a.get("inv") and a.get("srcok"))
                ctx.corr(origin.replace(":", "_"), "err" not in a and got == want and impl == {"tree": a["tree"], "log": a["log"]},
                         {"impl": impl, "model": a, "want_pre_post": want})
                if origin == "witness:param_output_writable" and "tree" in impl:
                    iv = driver_ask("drv_gen", [{"op": "inv", "spec": req["spec"], "path": [], "tree": impl["tree"],
                                                 "log": req["log"] + impl["log"]}])[0]
                    if not iv["ok"] and iv["bad"][1] == 2 and any(st % 2 for st in iv["bad"][0]):
                        node = _walk(impl["tree"], iv["bad"][0])
                        report_finding(run, f"C16/{PARAM_WRITABLE}",
                                       f"after replace_multiple installed a copy of <m> (crossover), the recorded argument "
                                       f"{node[1] if node else '?'} = {_gtext(node)!r} at {iv['bad'][0]} — re-created by "
                                       f"derive_sources with the argument's own generator — has writable children "
                                       f"(NonTerminalNode.fuzz marks them read-only)",
                                       {"kind": "whole", "spec": text, "tree": req["tree"], "repl": req["repl"],
                                        "log": req["log"], "class": PARAM_WRITABLE})
        # deeper search on a disagreement: does the REAL result leave the invariant where the theorem says the
        # function keeps it?  Then the disagreement is a property violation with a concrete input.
        if deeper:
            invs = driver_ask("drv_gen", [{"op": "inv", "spec": req["spec"], "path": [], "tree": impl["tree"],
                                          "log": req["log"] + [c for c in impl["log"] if c[2] is not None]}
                                         for _n, _k, impl, req, _a, _t in deeper])
            for (name, kinds, impl, req, a, text), iv in zip(deeper, invs):
                model_fine = "err" in a or (a["inv"] and a["srcok"]) or not a["installs_ok"]
                pre = "err" in a or (a["inv0"] and a["srcok0"])
                if pre and model_fine and not iv["ok"] and ("err" in a or a["installs_ok"]):
                    node = _walk(impl["tree"], iv["bad"][0])
                    run.report(f"C16/replace_multiple-leaves-invariant:verdict{iv['bad'][1]}",
                               f"replace_multiple ({name}; targets {kinds}) on a tree that meets the invariant returns "
                               f"{_gtext(impl['tree'])!r} in which the generator-defined node "
                               f"{node[1] if node else '?'} = {_gtext(node)!r} at {iv['bad'][0]} does not "
                               f"(verdict {iv['bad'][1]}); the verified model of the function keeps it",
                               {"kind": "whole", "spec": text, "tree": req["tree"], "repl": req["repl"],
                                "log": req["log"], "impl": impl, "model": {k: a.get(k) for k in ("tree", "log", "err")}})


def _witness_cases(run: Run) -> list[tuple]:
    out = []
    # C16_whole_parse_repair_breaks_inv
    grammar, _ = gio.parse_spec('<start> ::= <g> "-"\n<g> ::= r"[a-z]+" := "abc"\n')
    with CallLog() as fl:
        t = grammar.fuzz("<start>", 10)
    impl, req = whole_case(grammar, spec_json(grammar), t, [(t.children[0], grammar.parse("xyz", "<g>"))], list(fl.calls))
    out.append(("witness", ["gen:parse"], impl, req, "witness:parse_repair", '<start> ::= <g> "-"\n<g> ::= r"[a-z]+" := "abc"\n'))
    # C16_FullStatement_refuted: a converter that is not inverse to the generator; crossover of <g> onto itself
    grammar, _ = gio.parse_spec(dict(WHOLE_SPECS)["unsound_conv"])
    for seed in range(40):
        random.seed(seed)
        with CallLog() as fl:
            t = grammar.fuzz("<start>", 10)
        if str(t.children[0].sources[0]) == "p":
            break
    else:
        raise MachineryError("C16: could not fuzz the unsound-converter witness")
    g = t.children[0]
    impl, req = whole_case(grammar, spec_json(grammar), t, [(g, g.deepcopy(copy_parent=False))], list(fl.calls))
    out.append(("witness", ["gen:self"], impl, req, "witness:unsound_converter", dict(WHOLE_SPECS)["unsound_conv"]))
    # C16_cascade_example: the argument of the argument changes
    grammar, _ = gio.parse_spec(dict(WHOLE_SPECS)["chain"])
    random.seed(3)
    with CallLog() as fl:
        t = grammar.fuzz("<start>", 10)
    c = t.children[0].sources[0].sources[0]
    new_c = grammar.parse("ba" if str(c) != "ba" else "ab", "<c>")
    impl, req = whole_case(grammar, spec_json(grammar), t, [(c, new_c)], list(fl.calls))
    out.append(("witness", ["plain:in_sources:parse"], impl, req, "witness:cascade", dict(WHOLE_SPECS)["chain"]))
    # the `self_is_generator_child` branch: a generator-defined child of generated output that has sources of its
    # own, one of which changes: its sources are dropped, no generator runs
    grammar, _ = gio.parse_spec(dict(WHOLE_SPECS)["gen_child"])
    random.seed(1)
    with CallLog() as fl:
        t = grammar.fuzz("<start>", 10)
    tj = gtree_json(t)
    tj[3][0][3][0][4] = json.loads(json.dumps(tj[3][0][4]))
    t2 = tree_from_json(tj)
    new_body = grammar.parse("cab" if str(t2.children[0].sources[0]) != "cab" else "abc", "<body>")
    impl, req = whole_case(grammar, spec_json(grammar), t2, [(t2.children[0].children[0].sources[0], new_body)], list(fl.calls))
    out.append(("witness", ["generator_child_source:in_sources:parse"], impl, req, "witness:generator_child",
                dict(WHOLE_SPECS)["gen_child"]))
    # the re-run of a generator after its argument changed returns a value that does not fit the rule ("-1" under
    # r"[0-9]+"): the function must raise, never keep the old text next to the new argument (seeded change C16-1)
    grammar, _ = gio.parse_spec(dict(WHOLE_SPECS)["unfit_regen"])
    for seed in range(40):
        random.seed(seed)
        with CallLog() as fl:
            try:
                t = grammar.fuzz("<start>", 10)
            except Exception:  # noqa: BLE001 — <n> = "0": the fresh value does not fit either
                continue
        if all(c[2] is not None for c in fl.calls) and t.children[0].sources:
            break
    for word in ("0", "00"):
        arg = t.children[0].sources[0]
        impl, req = whole_case(grammar, spec_json(grammar), t, [(arg, grammar.parse(word, "<n>"))], list(fl.calls))
        out.append(("unfit_regen", ["plain:in_sources:parse"], impl, req, "fixed:unfit_regen",
                    dict(WHOLE_SPECS)["unfit_regen"]))
    # C16_derive_param_writable_breaks_inv: the parameter of <m> is itself generator-defined; crossover of <m>
    grammar, _ = gio.parse_spec(dict(WHOLE_SPECS)["const_param"])
    random.seed(0)
    with CallLog() as fl:
        t = grammar.fuzz("<start>", 20)
        other = grammar.fuzz("<start>", 20)
    impl, req = whole_case(grammar, spec_json(grammar), t, [(t.children[0], other.children[0])], list(fl.calls))
    out.append(("witness", ["gen:other"], impl, req, "witness:param_output_writable", dict(WHOLE_SPECS)["const_param"]))
    return out


def _clear_ro(tj: list) -> None:
    tj[2] = False
    if tj[0] == "n":
        for k in tj[3] + tj[4]:
            _clear_ro(k)


def _with_ro_kids(tj: list) -> list:
    """what populate_sources makes of a parsed generator node: children read-only"""
    out = json.loads(json.dumps(tj))

    def mark(x):
        x[2] = True
        if x[0] == "n":
            for k in x[3] + x[4]:
                mark(k)
    for k in out[3]:
        mark(k)
    return out


def _child_path(t) -> Optional[list[int]]:
    from fandango.language.tree import ChildStep
    out = []
    for st in t.get_choices_path():
        if not isinstance(st, ChildStep):
            return None
        out.append(st.index)
    return out


def _mixed_path(t) -> list:
    return list(t.get_choices_path())


def _follow(root, steps):
    from fandango.language.tree import ChildStep
    cur = root
    for st in steps:
        seq = cur.children if isinstance(st, ChildStep) else cur.sources
        if st.index >= len(seq):
            return None
        cur = seq[st.index]
    return cur


# ------------------------------------------------------------------------------------------------

def replay(path: str) -> int:
    use_repo()
    rp = json.load(open(path))
    if rp.get("kind") == "unfit":
        grammar, _ = gio.parse_spec(rp["spec"])
        try:
            t = grammar.fuzz("<start>", 20)
            print("fuzz returned", repr(str(t)))
            print("replay: property violated")
            return 1
        except Exception as e:  # noqa
            print("fuzz raised", type(e).__name__)
            print("replay: no violation on the current tree")
            return 0
    if rp.get("kind") == "whole":
        grammar, _ = gio.parse_spec(rp["spec"])
        tree = tree_from_json(rp["tree"])
        pairs = [(_follow_steps(tree, st), tree_from_json(r)) for st, r in rp["repl"]]
        with CallLog() as cl:
            try:
                res = tree.replace_multiple(grammar, pairs)
            except Exception as e:  # noqa
                print("replace_multiple raised", type(e).__name__, e)
                print("replay: no violation on the current tree")
                return 0
        sj = spec_json(grammar)
        a0, a1 = driver_ask("drv_gen", [
            {"op": "inv", "spec": sj, "path": [], "tree": rp["tree"], "log": rp["log"]},
            {"op": "inv", "spec": sj, "path": [], "tree": gtree_json(res),
             "log": rp["log"] + [c for c in cl.calls if c[2] is not None]}])
        print(f"before: {_gtext(rp['tree'])!r} invariant={a0['ok']}; after replace_multiple: {str(res)!r} "
              f"invariant={a1['ok']} bad={a1['bad']}; generator calls: {cl.calls}")
        bad = a0["ok"] and not a1["ok"]
        print("replay:", "property violated" if bad else "no violation on the current tree")
        return 1 if bad else 0
    if rp.get("kind") != "tree":
        print("replay: this file names a broken obligation / correspondence case, there is no failing input:")
        print(json.dumps({k: rp.get(k) for k in ("what", "broken_obligations")}, indent=1)[:3000])
        for c in rp.get("correspondence", [])[:3]:
            print(json.dumps(c)[:1500])
        return 1
    st = dict(rp.get("settings") or {})
    seed = st.pop("seed", 0)
    grammar, constraints, inds, sols, glog, err = run_evolution(rp["spec"], seed, st, 5, 10, 60)
    sj = spec_json(grammar)
    reqs = [{"op": "inv", "spec": sj, "log": glog.entries, "path": [], "tree": gtree_json(t)} for t in inds + sols]
    ans = driver_ask("drv_gen", reqs) if reqs else []
    bad = [(t, a) for t, a in zip(inds + sols, ans) if not a["ok"]]
    print(f"re-run: {len(inds)} individuals, {len(sols)} solutions, end={err or 'ok'}; generator returned "
          f"{sorted({repr(v) for _s, v in glog.raw})[:8]}")
    for t, a in bad[:5]:
        print("  FAILS:", repr(str(t)), "bad node / verdict:", a["bad"], "(emitted)" if any(t is s for s in sols) else "")
    print("replay:", "property violated" if bad else "no violation on the current tree")
    return 1 if bad else 0


def main(tier: str) -> int:
    run = Run(PID, tier, "proof")   # partial proof: see explanation / manifest level_note
    use_repo()
    gen = translate_gen.regenerate()
    lean = lean_check("Props.C16", ["drv_gen"])
    for r in gen["refusals"]:
        lean.broken.append({"module": "Generated.GenFlags", "reason": "translator refused: " + r})
    ctx = Ctx(run)
    ctx.flags = gen["flags"]
    quick = tier == "quick"
    t0 = time.time()
    stage_ops(ctx, run.rng("ops"), 60 if quick else 600)
    run.coverage["t_ops_s"] = round(time.time() - t0, 1)
    stage_whole(ctx, run.rng("whole"), 600 if quick else 6000)
    run.coverage["t_whole_s"] = round(time.time() - t0, 1)
    stage_evolution(ctx, run.rng("evolution"), 63 if quick else 700, 6 if quick else 8)
    run.coverage["t_evolution_s"] = round(time.time() - t0, 1)
    run.coverage["generated_flags"] = gen["flags"]
    run.coverage["traces_validated_against_impl"] = ctx.corr_cases
    run.coverage["correspondence_disagreements"] = len(ctx.corr_fail)
    run.coverage["disagreement_samples"] = [json.loads(json.dumps(c)[:3000]) if len(json.dumps(c)) < 3000
                                            else {"case": c["case"]} for c in ctx.corr_fail[:5]]
    if (not lean.ok or ctx.corr_fail) and not run.violations:
        what = []
        if not lean.ok:
            what.append("proof obligations of Props/C16.lean no longer check: " + json.dumps(lean.broken)[:600])
        if ctx.corr_fail:
            kinds = sorted({c["case"] for c in ctx.corr_fail})
            what.append(f"model/implementation correspondence broken on {len(ctx.corr_fail)} cases ({', '.join(kinds)}), "
                        "e.g. " + json.dumps(ctx.corr_fail[0])[:500])
        run.report("C16/unproved", "; ".join(what),
                   {"broken_obligations": lean.broken, "correspondence": ctx.corr_fail[:10]}, no_input=True)
    return run.finish(
        lean,
        rule="whole-function correspondence: 16 generator specs (the 7 below + chained generators, chained converter, "
             "generator-defined parameter, generated field in a repetition, random generator with an argument, "
             "generator-defined child, two interdependent converters, a converter that is not an inverse) x real fuzzed "
             "trees (35% perturbed: flags flipped, sources in odd places, generator-defined child with sources) x 1-3 "
             "replacements aimed at generated fields / their arguments / inside generated output / outside / terminals "
             "/ other symbols, replacement = fresh fuzz, subtree of another individual, parse of its text, another "
             "symbol, writable copy of the target; distinct by (tree, replacements, generator values).  Evolution: "
             "7 generator specs (constant, random, random inside a repetition, dependent, dependent with converter, "
             "nested converters, two arguments) x 9 constraint kinds aimed at the generated symbol, an enclosing "
             "symbol, an argument, a part of the generated text x seeds/settings; every evaluated individual and every "
             "solution judged by genInvB with the run's call log; operator cases on real fuzzed trees; a case is "
             "non-trivial when the tree has a generator-defined node; distinct by tree",
        explanation="replace_multiple is modelled as one function and proved to keep the invariant (C16_replace_multiple_inv, "
                    "C16_reachable_inv_whole) given that the copies it installs meet it as populate_sources left them — "
                    "unconditionally for generator-free replacement material (C16_replace_multiple_inv_genfree); the "
                    "unconditional statement is refuted on witnesses (F31; a converter that is not an inverse; "
                    "derive_sources leaving a generator-defined parameter writable)",
        trusted_base=TRUSTED)
