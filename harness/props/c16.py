"""C16 — generator-defined fields carry generator output and are not edited behind it.   (partial)

1. obligations: harness/translate_gen.py -> Generated/GenFlags.lean (what the generator code paths do NOW),
   Props/C16.lean (lake build, axiom audit)
2. correspondence, model (drv_gen) vs real code: `Grammar.generate` (value logged / parsed / error), the generator
   branch of `NonTerminalNode.fuzz` (children read-only, arguments kept), `replace_multiple` on a read-only target,
   outside generated output, and after an argument changed (regen branch), the witness of
   `C16_parse_repair_breaks_inv` replayed on the implementation
3. the property itself on real runs: the generator functions are wrapped so that EVERY return value is logged with
   the argument values; every emitted solution and every individual that reaches `Evaluator.evaluate_individual`
   is sent — with sources, read-only flags and the log — to the verified checker `genInvB`
   (`C16_checker_decides_inv`: = `GenInv`): the text of each generator-defined node is a value the generator
   returned for the values of the node's recorded arguments, and its children are read-only.  Deterministic
   generators are additionally re-evaluated on the recorded arguments.  A generator value that does not parse must
   raise.
"""
from __future__ import annotations

import contextlib
import io
import itertools
import json
import random
import time
from typing import Any, Optional

from harness import translate_gen
from harness.common import MachineryError, Run, driver_ask, lean_check, use_repo
from harness.impl import grammar_io as gio
from harness.impl.grammar_io import NotModelled
from harness.props.c01 import Timeout, limit

PID = "C16"

TRUSTED = [
    "Lean 4.33.0 kernel; axioms ⊆ {propext, Classical.choice, Quot.sound} (audited per run)",
    "hand-written model lean/Model/Gen.lean (generate / fuzz generator branch / regen branch / read-only refusal / "
    "GenInv and its checker); tied by this run's correspondence (generator-bounded); replace_multiple as a whole is "
    "NOT modelled as one function (Props/C16.lean §6) — its results are judged by the verified checker",
    "translator harness/translate_gen.py (which code paths mark generator output read-only, generate raises on an "
    "unfit value, replace_multiple tests read_only) -> Generated/GenFlags.lean",
    "generator functions are observed by wrapping Grammar.generate_string (the single place that evaluates them)",
    "the parser's fit with the rule (parsed text = value) is C04/C05, assumed here as `ParseFits`",
    "texts are compared as code-unit lists (str: code points, bytes: byte values); bit-level grammars are skipped",
]


# ------------------------------------------------------------------------------------------------
# encoding
# ------------------------------------------------------------------------------------------------

def units(v: Any) -> list[int]:
    if isinstance(v, str):
        return [ord(c) for c in v]
    if isinstance(v, (bytes, bytearray)):
        return list(v)
    raise NotModelled(f"value {type(v).__name__}")


def leaf_units(sym) -> list[int]:
    return units(gio.terminal_payload(sym)) if not isinstance(gio.terminal_payload(sym), int) else \
        _bit(gio.terminal_payload(sym))


def _bit(_b: int) -> list[int]:
    raise NotModelled("bit terminal")


def gtree_json(t) -> list:
    if t.symbol.is_terminal:
        return ["l", leaf_units(t.symbol), bool(t.read_only)]
    if not t.symbol.is_non_terminal:
        raise NotModelled("slice")
    return ["n", t.symbol.name(), bool(t.read_only), [gtree_json(c) for c in t.children],
            [gtree_json(s) for s in t.sources]]


def text_units(t) -> list[int]:
    if t.symbol.is_terminal:
        return leaf_units(t.symbol)
    out: list[int] = []
    for c in t.children:
        out.extend(text_units(c))
    return out


def params_of(grammar, nt) -> list[str]:
    gen = grammar.generators[nt]
    return list(dict.fromkeys(x.symbol.name() for x in gen.nonterminals.values()))


def spec_json(grammar) -> dict:
    return {"gens": [[nt.name(), params_of(grammar, nt)] for nt in grammar.generators]}


class GenLog:
    """wraps Grammar.generate_string: every value a generator expression returns is recorded with the values of
    the arguments it was evaluated on"""

    def __init__(self):
        self.entries: list[list] = []
        self.raw: list[tuple] = []
        self.unmodelled = 0

    def __enter__(self):
        from fandango.language.grammar.grammar import Grammar
        from fandango.language.symbols import NonTerminal
        self._orig = Grammar.generate_string
        log = self

        def generate_string(g, symbol="<start>", sources=None):
            out = log._orig(g, symbol, sources)
            try:
                nt = NonTerminal(symbol) if isinstance(symbol, str) else symbol
                by_sym = {t.symbol.name(): t for t in out[0]}
                args = [text_units(by_sym[p]) for p in params_of(g, nt)]
                log.entries.append([nt.name(), args, units(out[1])])
                log.raw.append((nt.name(), out[1]))
            except (NotModelled, KeyError):
                log.unmodelled += 1
            return out

        Grammar.generate_string = generate_string
        return self

    def __exit__(self, *a):
        from fandango.language.grammar.grammar import Grammar
        Grammar.generate_string = self._orig
        return False


# ------------------------------------------------------------------------------------------------
# specs
# ------------------------------------------------------------------------------------------------

PY = '''import random
def pick():
    return random.choice(["ab", "cde", "q", "xyzzy", "abc"])
def num():
    return str(random.randint(0, 99))
def frame(body):
    return "%d:%s" % (len(body), body)
def unframe(m):
    return m.split(":", 1)[1]
def rev(s):
    return s[::-1]
def up(s):
    return s.upper()
def low(s):
    return s.lower()
'''

# (name, grammar text, deterministic generators, generated symbols of interest, argument symbols)
SPECS = [
    ("constant", '<start> ::= <g> "-" <x>\n<g> ::= r"[a-z]+" := "abc"\n<x> ::= r"[0-9]"\n', True, ["<g>"], []),
    ("random", PY + '<start> ::= <g> "-" <x> (";" <g>)?\n<g> ::= <l>+ := pick()\n<l> ::= r"[a-z]"\n<x> ::= r"[0-9]"\n',
     False, ["<g>"], []),
    ("random_num", PY + '<start> ::= <item> ("," <item>){0,2}\n<item> ::= <n> "=" <w>\n<n> ::= r"[0-9]+" := num()\n'
                        '<w> ::= r"[a-c]{1,3}"\n', False, ["<n>"], []),
    ("dependent", PY + '<start> ::= <m> ("!" <m>)?\n<m> ::= <len> ":" <body> := frame(str(<body>))\n'
                       '<len> ::= r"[0-9]+"\n<body> ::= r"[a-c]{1,5}"\n', True, ["<m>"], ["<body>"]),
    ("converter", PY + '<start> ::= <m> "." <x>\n<m> ::= <len> ":" <body> := frame(str(<body>))\n<len> ::= r"[0-9]+"\n'
                       '<body> ::= r"[a-c]{1,5}" := unframe(str(<m>))\n<x> ::= r"[0-9]"\n', True, ["<m>"], ["<body>"]),
    ("nested", PY + '<start> ::= <outer> "|" <x>\n<outer> ::= r"[A-Z]+" := up(str(<inner>))\n'
                    '<inner> ::= r"[a-z]+" := low(str(<outer>))\n<x> ::= <w> := rev(str(<v>))\n<w> ::= r"[a-c]+"\n'
                    '<v> ::= r"[a-c]{2,4}" := rev(str(<x>))\n', True, ["<outer>", "<x>"], ["<inner>", "<v>"]),
    ("two_args", PY + '<start> ::= <sum> "=" <k>\n<sum> ::= r"[a-c]*[0-9]*" := str(<p>) + str(<q>)\n'
                      '<p> ::= r"[a-c]{1,2}"\n<q> ::= r"[0-9]{1,2}"\n<k> ::= "k" | "kk"\n', True, ["<sum>"], ["<p>", "<q>"]),
]

UNFIT_SPECS = [
    ('<start> ::= <g>\n<g> ::= r"[0-9]+" := "abc"\n', "constant value outside the rule"),
    (PY + '<start> ::= "(" <g> ")"\n<g> ::= r"[a-c]{2}" := pick()\n', "random value mostly outside the rule"),
    (PY + '<start> ::= <m>\n<m> ::= <len> ";" <body> := frame(str(<body>))\n<len> ::= r"[0-9]+"\n<body> ::= r"[a-c]{1,5}"\n',
     "dependent value with the wrong separator"),
]


def constraints_for(rng, name: str, gens: list[str], args: list[str]) -> tuple[list[str], str]:
    """constraints that push repairs onto generated fields, their arguments, their parts, enclosing symbols"""
    g = rng.choice(gens)
    kind = rng.choice(["none", "eq_on_generated", "eq_on_enclosing", "eq_on_argument", "eq_on_part", "pred_on_generated",
                       "pred_on_part", "eq_two_generated", "len_start"])
    if kind == "eq_on_argument" and not args:
        kind = "pred_on_generated"
    word = rng.choice(["abc", "xyz", "q", "ab", "3:abc", "ABC", "7", "cab"])
    if kind == "none":
        return [], kind
    if kind == "eq_on_generated":
        return [rng.choice([f'where {g} == "{word}"', f'where str({g}) == "{word}"'])], kind
    if kind == "eq_on_enclosing":
        return [f'where str(<start>) == "{word}-1"' if name in ("constant", "random") else f'where <start> == "{word}"'], kind
    if kind == "eq_on_argument":
        a = rng.choice(args)
        return [rng.choice([f'where str({a}) == "{word}"', f'where {a} == "{word}"'])], kind
    if kind == "eq_on_part":
        part = {"dependent": "<len>", "converter": "<len>", "random": "<l>", "random_num": "<n>"}.get(name, g)
        return [f'where str({part}) == "{rng.choice(["9", "q", "12"])}"'], kind
    if kind == "pred_on_generated":
        return [rng.choice([f'where str({g}).startswith("{word[0]}")', f'where len(str({g})) >= {rng.randint(2, 5)}',
                            f'where str({g}) != "{word}"'])], kind
    if kind == "pred_on_part":
        part = {"dependent": "<body>", "converter": "<body>", "random": "<l>", "two_args": "<p>"}.get(name, g)
        return [f'where str({part}).startswith("{rng.choice("abcq")}")'], kind
    if kind == "eq_two_generated":
        return [f"where str({g}) == str({rng.choice(gens)})[::-1]"], kind
    return [f"where len(str(<start>)) >= {rng.randint(4, 9)}"], kind


# ------------------------------------------------------------------------------------------------
# property observation
# ------------------------------------------------------------------------------------------------

EQ_REPAIR = "equality-repair-assigns-generated-field"


def classify(verdict: int, node: Optional[list], assigned: set) -> Optional[str]:
    """the open finding, narrowly: the node's text is one that equality repair (EqualComparisonSuggestion: the
    wanted value parsed under the target symbol) installed on this generator-defined symbol in this run"""
    if verdict == 1 and node is not None and node[0] == "n":
        if (node[1], tuple(_gunits(node))) in assigned:
            return EQ_REPAIR
    return None


def _gunits(tj: list) -> list[int]:
    if tj[0] == "l":
        return list(tj[1])
    out: list[int] = []
    for k in tj[3]:
        out.extend(_gunits(k))
    return out


def generator_nodes(grammar, t, out: list) -> list:
    """nodes the grammar uses a generator for (arguments are searched, generated output is not)"""
    if t.symbol.is_non_terminal and t.symbol in grammar.generators and grammar.is_use_generator(t):
        out.append(t)
        for s in t.sources:
            generator_nodes(grammar, s, out)
        return out
    for c in t.children:
        generator_nodes(grammar, c, out)
    for s in t.sources:
        generator_nodes(grammar, s, out)
    return out


class Ctx:
    def __init__(self, run: Run):
        self.run = run
        self.q: list[tuple[dict, dict]] = []
        self.corr_cases = 0
        self.corr_fail: list[dict] = []

    def corr(self, case: str, ok: bool, detail: dict) -> None:
        self.corr_cases += 1
        self.run.count("op:" + case)
        if not ok:
            d = dict(detail)
            d["case"] = case
            self.corr_fail.append(d)

    def queue_inv(self, spec_j: dict, log: list, trees_json: list, meta: dict) -> None:
        for tj in trees_json:
            m = dict(meta)
            m["tree"] = tj
            self.q.append(({"op": "inv", "spec": spec_j, "log": log, "path": [], "tree": tj}, m))
        if len(self.q) >= 1200:
            self.flush()

    def flush(self) -> None:
        if not self.q:
            return
        answers = driver_ask("drv_gen", [q for q, _ in self.q], timeout=900)
        for (q, m), a in zip(self.q, answers):
            origin = m["origin"]
            self.run.count("trees:" + origin)
            gens = _count_gen(m["tree"], {g[0] for g in q["spec"]["gens"]})
            self.run.case(m["tree"], gens > 0, None)
            self.run.count("generator_nodes:" + ("0" if gens == 0 else "1" if gens == 1 else "2+"))
            if not a["ok"]:
                path, verdict = a["bad"]
                kind = m.get("kind", "?")
                node = _walk(m["tree"], path)
                cls = classify(verdict, node, m.get("assigned") or set())
                what = {1: "its text is not a value the generator returned for the values of its recorded arguments",
                        2: "its children (the generated text) are writable", 3: "an argument of its generator is missing"}[verdict]
                sig = f"C16/{cls}" if cls else f"C16/verdict{verdict}:{origin}:{kind}"
                self.run.count("invalid:" + (cls or f"verdict{verdict}:{kind}"))
                self.run.report(
                    sig,
                    f"{origin} ({m.get('name')}, constraint kind {kind}): in the tree for {_gtext(m['tree'])!r} the "
                    f"generator-defined node {node[1] if node else '?'} = {_gtext(node) if node else '?'!r} at {path}: {what}"
                    + (f" [{cls}]" if cls else ""),
                    {"kind": "tree", "origin": origin, "spec": m.get("spec"), "settings": m.get("settings"),
                     "tree": m["tree"], "bad": a["bad"], "log": q["log"][:200], "spec_json": q["spec"], "class": cls,
                     "assigned_by_equality_repair": sorted([s_, "".join(chr(c) for c in t_)] for s_, t_ in
                                                           (m.get("assigned") or set()))[:50]})
        self.q.clear()


def _count_gen(tj: list, names: set) -> int:
    if tj[0] == "l":
        return 0
    return (1 if tj[1] in names else 0) + sum(_count_gen(k, names) for k in tj[3]) + sum(_count_gen(k, names) for k in tj[4])


def _walk(tj: list, steps: list) -> Optional[list]:
    cur = tj
    for st in steps:
        if cur[0] != "n":
            return None
        seq = cur[4] if st % 2 else cur[3]
        if st // 2 >= len(seq):
            return None
        cur = seq[st // 2]
    return cur


def _gtext(tj) -> str:
    if tj is None:
        return "?"
    if tj[0] == "l":
        return "".join(chr(c) for c in tj[1])
    return "".join(_gtext(k) for k in tj[3])


def run_evolution(spec: str, seed: int, settings: dict, generations: int, want: int, seconds: int):
    from fandango.evolution.algorithm import Fandango
    from fandango.evolution.evaluation import Evaluator
    with limit(8):
        grammar, constraints = gio.parse_spec(spec)
    seen: dict[int, Any] = {}
    o_eval = Evaluator.evaluate_individual

    def evaluate_individual(self, individual):
        seen.setdefault(id(individual), individual)
        return o_eval(self, individual)

    sols, err = [], None
    Evaluator.evaluate_individual = evaluate_individual
    glog = GenLog()
    # call-site evidence for the open finding: texts that EqualComparisonSuggestion (parse of the wanted value under
    # the target symbol / copy of a same-symbol tree) puts onto generator-defined symbols
    from fandango.constraints.comparison import EqualComparisonSuggestion
    o_repl = EqualComparisonSuggestion.get_replacements
    glog.assigned = set()

    def get_replacements(self, individual, grammar):   # (keyword arguments at the call sites)
        grammar_ = grammar
        out = o_repl(self, individual, grammar_)
        try:
            for _tgt, new in out:
                stack = [new]
                while stack:
                    n = stack.pop()
                    if n.symbol.is_non_terminal and n.symbol in grammar_.generators:
                        glog.assigned.add((n.symbol.name(), tuple(text_units(n))))
                    stack.extend(n.children)
        except NotModelled:
            pass
        return out

    EqualComparisonSuggestion.get_replacements = get_replacements
    try:
        with glog, contextlib.redirect_stderr(io.StringIO()):
            with limit(seconds):
                try:
                    fan = Fandango(grammar, constraints, random_seed=seed, **settings)
                    for s in itertools.islice(fan.generate(max_generations=generations), want):
                        sols.append(s)
                    for t in fan.population:
                        seen.setdefault(id(t), t)
                except Timeout:
                    err = "timeout"
                except Exception as e:  # noqa
                    err = type(e).__name__
    finally:
        Evaluator.evaluate_individual = o_eval
        EqualComparisonSuggestion.get_replacements = o_repl
    return grammar, constraints, list(seen.values()), sols, glog, err


def reevaluate(ctx: Ctx, grammar, trees: list, meta: dict) -> None:
    """deterministic generators: the text equals the generator applied to the recorded argument values — decided
    by the real evaluator, independently of the model"""
    for t in trees:
        for n in generator_nodes(grammar, t, []):
            try:
                with contextlib.redirect_stderr(io.StringIO()):
                    _, val = grammar.generate_string(n.symbol, n.sources)
                ctx.run.count("reevaluated")
                if units(val) != text_units(n):
                    kind = meta.get("kind", "?")
                    cls = EQ_REPAIR if (n.symbol.name(), tuple(text_units(n))) in (meta.get("assigned") or set()) else None
                    ctx.run.report(
                        f"C16/{cls}" if cls else f"C16/reevaluation-differs:{meta['origin']}:{kind}",
                        f"{meta['origin']} ({meta.get('name')}, {kind}): {n.symbol.name()} reads {str(n)!r} but its generator "
                        f"gives {val!r} on the recorded arguments {[str(s) for s in n.sources]}" + (f" [{cls}]" if cls else ""),
                        {"kind": "tree", "origin": meta["origin"], "spec": meta.get("spec"), "settings": meta.get("settings"),
                         "tree": gtree_json(t), "class": cls})
                    ctx.run.count("invalid:" + (cls or "reevaluation-differs"))
            except NotModelled:
                ctx.run.count("not_modelled")
            except Exception as e:  # noqa
                ctx.run.count("reevaluate_raised:" + type(e).__name__)


def stage_evolution(ctx: Ctx, rng, n_runs: int, seconds: int) -> None:
    run = ctx.run
    for i in range(n_runs):
        name, text, deterministic, gens, args = SPECS[i % len(SPECS)]
        cons, kind = constraints_for(rng, name, gens, args)
        spec = text + "\n".join(cons) + ("\n" if cons else "")
        settings = {"population_size": rng.choice([4, 6, 8]), "max_nodes": rng.choice([20, 40]),
                    "mutation_rate": rng.choice([0.2, 0.6, 1.0]), "crossover_rate": rng.choice([0.8, 1.0])}
        seed = rng.getrandbits(30)
        try:
            grammar, constraints, inds, sols, glog, err = run_evolution(spec, seed, settings, rng.choice([2, 3, 5]), 10, seconds)
        except Timeout:
            run.count("spec_timeout")
            continue
        except Exception as e:  # noqa
            run.count("spec_rejected:" + type(e).__name__)
            continue
        run.count("spec:" + name)
        run.count("constraint:" + kind)
        run.count("end:" + (err or "ok"))
        run.count("solutions:" + ("0" if not sols else "1+"))
        run.count("generator_calls", len(glog.entries))
        meta = {"spec": spec, "settings": dict(settings, seed=seed), "kind": kind, "name": name,
                "assigned": set(glog.assigned)}
        sol_ids = {id(s) for s in sols}
        others = [t for t in inds if id(t) not in sol_ids]
        try:
            sj = spec_json(grammar)
            ctx.queue_inv(sj, glog.entries, [gtree_json(t) for t in sols], dict(meta, origin="solution"))
            ctx.queue_inv(sj, glog.entries, [gtree_json(t) for t in others], dict(meta, origin="individual"))
        except NotModelled as e:
            run.count("not_modelled:" + str(e)[:30])
            continue
        if deterministic:
            reevaluate(ctx, grammar, sols, dict(meta, origin="solution"))
    ctx.flush()


# ------------------------------------------------------------------------------------------------
# correspondence: generate / fuzz / replace
# ------------------------------------------------------------------------------------------------

def stage_ops(ctx: Ctx, rng, n: int) -> None:
    from fandango.errors import FandangoParseError
    from fandango.language.symbols import NonTerminal
    run = ctx.run
    for i in range(n):
        name, text, deterministic, gens, args = SPECS[i % len(SPECS)]
        try:
            with limit(8):
                grammar, _ = gio.parse_spec(text)
        except Exception as e:  # noqa
            raise MachineryError(f"C16 spec {name} no longer parses: {e!r}")
        sj = spec_json(grammar)
        random.seed(rng.getrandbits(32))
        with GenLog() as glog, contextlib.redirect_stderr(io.StringIO()):
            try:
                with limit(5):
                    tree = grammar.fuzz("<start>", rng.choice([10, 30]))
            except Exception as e:  # noqa
                run.count("fuzz_raised:" + type(e).__name__)
                continue
        gnodes = generator_nodes(grammar, tree, [])
        if not gnodes:
            continue
        g = rng.choice(gnodes)
        reqs, handlers = [], []
        try:
            # (a) generator branch of fuzz: the node is what fuzzGen builds from its arguments and the logged value
            entry = next((e for e in reversed(glog.entries) if e[0] == g.symbol.name() and e[2] == text_units(g)), None)
            if entry is not None:
                parsed = [gtree_json(c) for c in g.children]
                for c in parsed:
                    _clear_ro(c)
                want = gtree_json(g)
                reqs.append({"op": "fuzzgen", "spec": sj, "sym": g.symbol.name(), "srcs": [gtree_json(s) for s in g.sources],
                             "value": entry[2], "parsed": parsed})
                handlers.append(lambda a, want=want, entry=entry: ctx.corr(
                    "fuzz_generator_branch", a.get("tree") == want and a.get("entry") == entry,
                    {"spec": name, "impl": want, "model": a}))
            # (b) Grammar.generate on the same arguments (deterministic: same value again)
            with GenLog() as gl2:
                gen_tree = grammar.generate(g.symbol, [s for s in g.sources])
            e2 = gl2.entries[-1]
            parsed = [gtree_json(c) for c in gen_tree.children]
            want2 = gtree_json(gen_tree)
            reqs.append({"op": "generate", "spec": sj, "sym": g.symbol.name(), "srcs": [gtree_json(s) for s in g.sources],
                         "value": e2[2], "parsed": parsed})
            handlers.append(lambda a, want2=want2, e2=e2: ctx.corr(
                "generate", a.get("tree") == want2 and a.get("entry") == e2, {"spec": name, "impl": want2, "model": a}))
            # (c) a repair aimed at generated text: refused (read-only), tree unchanged
            inner = [c for c in g.children]
            if inner:
                tgt = rng.choice(inner)
                repl = tgt.deepcopy(copy_parent=False)
                repl.set_all_read_only(False)
                before = gtree_json(tree)
                res = tree.replace_multiple(grammar, [(tgt, repl)])
                ctx.corr("replace_inside_generated_refused", gtree_json(res) == before,
                         {"spec": name, "impl": gtree_json(res), "model": before})
                path = _child_path(tgt)
                if path is not None:
                    reqs.append({"op": "replace", "tree": before, "path": path, "repl": gtree_json(repl)})
                    handlers.append(lambda a, before=before: ctx.corr(
                        "replace_read_only_target", a["tree"] == before, {"spec": name, "impl": before, "model": a["tree"]}))
            # (d) an argument changes: the generator is re-run on the new arguments (regen branch)
            if g.sources and name in ("dependent", "two_args"):
                src = rng.choice(g.sources)
                with contextlib.redirect_stderr(io.StringIO()):
                    new_src = grammar.fuzz(src.symbol, 10)
                with GenLog() as gl3, contextlib.redirect_stderr(io.StringIO()):
                    res = tree.replace_multiple(grammar, [(src, new_src)])
                g2 = _follow(res, _mixed_path(g))
                if g2 is not None and gl3.entries:
                    e3 = gl3.entries[-1]
                    with contextlib.redirect_stderr(io.StringIO()):
                        parsed_t = grammar.parse("".join(chr(c) for c in e3[2]), g.symbol)
                    parsed = [gtree_json(c) for c in parsed_t.children] if parsed_t is not None else None
                    want3 = gtree_json(g2)
                    reqs.append({"op": "regen", "spec": sj, "sym": g.symbol.name(), "ro": bool(g.read_only),
                                 "srcs": [gtree_json(s) for s in g2.sources], "value": e3[2], "parsed": parsed})
                    handlers.append(lambda a, want3=want3, e3=e3: ctx.corr(
                        "regen_after_argument_change", a.get("tree") == want3 and a.get("entry") == e3,
                        {"spec": name, "impl": want3, "model": a}))
                    run.count("regen_children_read_only:" + str(all(c.read_only for c in g2.children)))
        except NotModelled as e:
            run.count("not_modelled:" + str(e)[:30])
            continue
        except Timeout:
            run.count("op_timeout")
            continue
        if reqs:
            for h, a in zip(handlers, driver_ask("drv_gen", reqs)):
                h(a)
    # unfit values must raise, in the model and in the code; never a substitute
    for text, why in UNFIT_SPECS:
        with limit(8):
            grammar, _ = gio.parse_spec(text)
        sj = spec_json(grammar)
        for _ in range(6):
            random.seed(rng.getrandbits(32))
            with GenLog() as glog, contextlib.redirect_stderr(io.StringIO()):
                try:
                    with limit(5):
                        tree = grammar.fuzz("<start>", 20)
                    outcome = "tree"
                except FandangoParseError:
                    outcome = "parseError"
                except Exception as e:  # noqa
                    outcome = "other:" + type(e).__name__
            if not glog.entries:
                continue
            e = glog.entries[-1]
            val = "".join(chr(c) for c in e[2])
            with contextlib.redirect_stderr(io.StringIO()):
                fits = grammar.parse(val, e[0])
            run.count("unfit:" + ("fits" if fits is not None else "does_not_fit") + ":" + outcome)
            if fits is None:
                nt = NonTerminal(e[0])
                srcs = []     # arguments are not needed to decide "raises": the model gets the real arguments' values
                a = driver_ask("drv_gen", [{"op": "generate", "spec": {"gens": [[e[0], []]]}, "sym": e[0], "srcs": srcs,
                                            "value": e[2], "parsed": None}])[0]
                ctx.corr("unfit_value", a == {"err": "parseError"} and outcome == "parseError",
                         {"spec": text, "value": val, "impl": outcome, "model": a})
                if outcome == "tree":
                    ctx.run.report("C16/unfit-value-not-raised",
                                   f"{why}: the generator of {e[0]} returned {val!r}, which does not parse under the rule, "
                                   f"yet fuzz() returned the tree for {str(tree)!r}",
                                   {"kind": "unfit", "spec": text, "value": val})
    # the witness of C16_parse_repair_breaks_inv on the implementation
    grammar, _ = gio.parse_spec('<start> ::= <g> "-"\n<g> ::= r"[a-z]+" := "abc"\n')
    with GenLog() as glog:
        t = grammar.fuzz("<start>", 10)
    g = t.children[0]
    repair = grammar.parse("xyz", "<g>")
    res = t.replace_multiple(grammar, [(g, repair)])
    a = driver_ask("drv_gen", [
        {"op": "replace", "tree": gtree_json(t), "path": [0], "repl": _with_ro_kids(gtree_json(repair))},
        {"op": "inv", "spec": spec_json(grammar), "log": glog.entries, "path": [], "tree": gtree_json(res)}])
    ctx.corr("eq_repair_witness", a[0]["tree"] == gtree_json(res) and a[1]["ok"] is False and str(res) == "xyz-",
             {"impl": gtree_json(res), "model": a[0]["tree"], "inv": a[1]})


def _clear_ro(tj: list) -> None:
    tj[2] = False
    if tj[0] == "n":
        for k in tj[3] + tj[4]:
            _clear_ro(k)


def _with_ro_kids(tj: list) -> list:
    """what populate_sources makes of a parsed generator node: children read-only"""
    out = json.loads(json.dumps(tj))

    def mark(x):
        x[2] = True
        if x[0] == "n":
            for k in x[3] + x[4]:
                mark(k)
    for k in out[3]:
        mark(k)
    return out


def _child_path(t) -> Optional[list[int]]:
    from fandango.language.tree import ChildStep
    out = []
    for st in t.get_choices_path():
        if not isinstance(st, ChildStep):
            return None
        out.append(st.index)
    return out


def _mixed_path(t) -> list:
    return list(t.get_choices_path())


def _follow(root, steps):
    from fandango.language.tree import ChildStep
    cur = root
    for st in steps:
        seq = cur.children if isinstance(st, ChildStep) else cur.sources
        if st.index >= len(seq):
            return None
        cur = seq[st.index]
    return cur


# ------------------------------------------------------------------------------------------------

def replay(path: str) -> int:
    use_repo()
    rp = json.load(open(path))
    if rp.get("kind") == "unfit":
        grammar, _ = gio.parse_spec(rp["spec"])
        try:
            t = grammar.fuzz("<start>", 20)
            print("fuzz returned", repr(str(t)))
            print("replay: property violated")
            return 1
        except Exception as e:  # noqa
            print("fuzz raised", type(e).__name__)
            print("replay: no violation on the current tree")
            return 0
    if rp.get("kind") != "tree":
        print("replay: this file names a broken obligation / correspondence case, there is no failing input:")
        print(json.dumps({k: rp.get(k) for k in ("what", "broken_obligations")}, indent=1)[:3000])
        for c in rp.get("correspondence", [])[:3]:
            print(json.dumps(c)[:1500])
        return 1
    st = dict(rp.get("settings") or {})
    seed = st.pop("seed", 0)
    grammar, constraints, inds, sols, glog, err = run_evolution(rp["spec"], seed, st, 5, 10, 60)
    sj = spec_json(grammar)
    reqs = [{"op": "inv", "spec": sj, "log": glog.entries, "path": [], "tree": gtree_json(t)} for t in inds + sols]
    ans = driver_ask("drv_gen", reqs) if reqs else []
    bad = [(t, a) for t, a in zip(inds + sols, ans) if not a["ok"]]
    print(f"re-run: {len(inds)} individuals, {len(sols)} solutions, end={err or 'ok'}; generator returned "
          f"{sorted({repr(v) for _s, v in glog.raw})[:8]}")
    for t, a in bad[:5]:
        print("  FAILS:", repr(str(t)), "bad node / verdict:", a["bad"], "(emitted)" if any(t is s for s in sols) else "")
    print("replay:", "property violated" if bad else "no violation on the current tree")
    return 1 if bad else 0


def main(tier: str) -> int:
    run = Run(PID, tier, "proof")   # partial proof: see explanation / manifest level_note
    use_repo()
    gen = translate_gen.regenerate()
    lean = lean_check("Props.C16", ["drv_gen"])
    for r in gen["refusals"]:
        lean.broken.append({"module": "Generated.GenFlags", "reason": "translator refused: " + r})
    ctx = Ctx(run)
    quick = tier == "quick"
    t0 = time.time()
    stage_ops(ctx, run.rng("ops"), 60 if quick else 600)
    run.coverage["t_ops_s"] = round(time.time() - t0, 1)
    stage_evolution(ctx, run.rng("evolution"), 63 if quick else 700, 6 if quick else 8)
    run.coverage["t_evolution_s"] = round(time.time() - t0, 1)
    run.coverage["generated_flags"] = gen["flags"]
    run.coverage["traces_validated_against_impl"] = ctx.corr_cases
    run.coverage["correspondence_disagreements"] = len(ctx.corr_fail)
    run.coverage["disagreement_samples"] = [json.loads(json.dumps(c)[:3000]) if len(json.dumps(c)) < 3000
                                            else {"case": c["case"]} for c in ctx.corr_fail[:5]]
    if (not lean.ok or ctx.corr_fail) and not run.violations and not run.known_hits:
        what = []
        if not lean.ok:
            what.append("proof obligations of Props/C16.lean no longer check: " + json.dumps(lean.broken)[:600])
        if ctx.corr_fail:
            kinds = sorted({c["case"] for c in ctx.corr_fail})
            what.append(f"model/implementation correspondence broken on {len(ctx.corr_fail)} cases ({', '.join(kinds)}), "
                        "e.g. " + json.dumps(ctx.corr_fail[0])[:500])
        run.report("C16/unproved", "; ".join(what),
                   {"broken_obligations": lean.broken, "correspondence": ctx.corr_fail[:10]}, no_input=True)
    return run.finish(
        lean,
        rule="7 generator specs (constant, random, random inside a repetition, dependent, dependent with converter, "
             "nested converters, two arguments) x 9 constraint kinds aimed at the generated symbol, an enclosing "
             "symbol, an argument, a part of the generated text x seeds/settings; every evaluated individual and every "
             "solution judged by genInvB with the run's call log; operator cases on real fuzzed trees; a case is "
             "non-trivial when the tree has a generator-defined node; distinct by tree",
        explanation="partial: invariant preservation is proved for the building blocks of replace_multiple and all their "
                    "sequences, not for its recursion as one function (Props/C16.lean §6)",
        trusted_base=TRUSTED)
