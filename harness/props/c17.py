"""C17 — fixed seeds reproduce the same run.

"Same inputs ⇒ same output" is trivially true of a Lean function; what C17 really says is that the
program has NO HIDDEN INPUT.  So:

1. obligations: Props/C17.lean — the order-independence lemmas (worklist closures over sets with an
   arbitrary pop order; set→order depends on the hashes only; id()-based placeholder names are
   irrelevant).  They are the provable logic core, not the property.
2. the deciding part (a TEST, level `other`): for every configuration (spec, settings, random seed,
   PYTHONHASHSEED) two FRESH processes must emit identical solution sequences and parse results, byte
   for byte — and between the two the AMBIENT is perturbed, so that a dependence on anything that is not
   an input shows: different allocation history before `import fandango` (shifts `id()`s / addresses),
   `time.*` shifted, different cwd, different pid (naturally), extra `os.urandom` / `uuid4` draws.
   Specs: a sample of the shipped .fan files (docs/, tests/resources/, evaluation/; those whose own
   Python code draws entropy — faker — are excluded: that is the spec's nondeterminism) plus generated
   specs (alternatives/repetitions, constraints, quantifiers, generators, soft constraints, bits/bytes,
   protocol mode with party objects).  PYTHONHASHSEED varies across configurations, equal within a pair.
"""
from __future__ import annotations

import json
import os
import shutil
from typing import Any

from harness.common import REPO, Run, lean_check, use_repo
from harness.impl.env_run import run_many
from harness.props.c18 import IO_SPEC, first_diff

PID = "C17"

TRUSTED = [
    "Lean 4.33.0 kernel; axioms ⊆ {propext, Classical.choice, Quot.sound} (audited per run) — for the "
    "order-independence lemmas only",
    "the two-process differential decides the property: its reach is the sampled configurations and the "
    "ambient inputs that are perturbed (allocation history / id(), time.*, cwd, pid, os.urandom/uuid draws); "
    "an ambient input that is not perturbed (hostname, locale, CPU count, environment variables, file system "
    "state, library versions) is not covered",
    "PYTHONHASHSEED is an INPUT by the property's statement: equal within a pair",
]

SHIPPED = [
    "docs/additions.fan", "docs/binary-pack.fan", "docs/binary-rep.fan", "docs/binary.fan", "docs/binfinity.fan",
    "docs/bits.fan", "docs/coverage-demo.fan", "docs/credit_card-gen.fan", "docs/credit_card.fan", "docs/demo.fan",
    "docs/digits.fan", "docs/encode-decode.fan", "docs/encode.fan", "docs/expr-float.fan", "docs/expr.fan",
    "docs/fandango.fan", "docs/finity.fan", "docs/fuzz-persons.fan", "docs/infinity.fan", "docs/iso8601.fan",
    "docs/persons.fan", "docs/rstring.fan", "docs/onebit.fan",
    "evaluation/csv/csv.fan", "evaluation/xml/xml.fan", "evaluation/rest/rest.fan",
    "evaluation/scriptsizec/scriptsizec.fan",
    "tests/resources/bitstream.fan", "tests/resources/byte_alternative.fan", "tests/resources/children.fan",
    "tests/resources/complex_constraints.fan", "tests/resources/constraints.fan", "tests/resources/csv.fan",
    "tests/resources/digit.fan", "tests/resources/dynamic_repetition.fan", "tests/resources/even_numbers.fan",
    "tests/resources/example_number.fan", "tests/resources/gen_number.fan", "tests/resources/generator_remove.fan",
    "tests/resources/grammar.fan", "tests/resources/hash.fan", "tests/resources/indirect_children.fan",
    "tests/resources/min_reps.fan", "tests/resources/nested_grammar_parameters.fan",
    "tests/resources/persons_with_constr.fan", "tests/resources/rgb.fan", "tests/resources/slicing.fan",
    "tests/resources/softvalue.fan", "tests/resources/simple_softvalue.fan", "tests/resources/twodigits.fan",
    "tests/resources/determinism.fan", "tests/resources/bit_special.fan",
]

GEN_KINDS = ["alts", "constraint", "quantifier", "generator", "soft", "binary", "computed", "io", "stagnating"]


def gen_spec(rng, kind: str) -> dict:
    """a generated configuration: {"text", "stdlib", "io", "words"}"""
    ls = rng.sample(["a", "b", "c", "x", "y", "z", "0", "1"], 3)
    alts = " | ".join(f'"{c}"' for c in ls)
    words = ["", ls[0], ls[0] + ls[1], "".join(rng.choice(ls) for _ in range(7)), "?"]
    s: dict[str, Any] = {"kind": kind, "stdlib": False, "io": False, "words": words}
    if kind == "alts":
        # unambiguous on purpose (the parser's cost on heavily ambiguous grammars is not C17's subject)
        s["text"] = (f'<start> ::= <p> "," <start> | <q> | "[" <p>* "]" | "<" <r>{{2,4}} ">"\n<p> ::= {alts}\n'
                     f'<q> ::= "(" <start> ")" | <p> ":" <p>?\n<r> ::= <p> | "{{" <q> "}}"\n')
        s["words"] = ["", ls[0] + ":", "[" + ls[0] + ls[1] + "]", f"({ls[0]},{ls[1]}:{ls[2]})", "<" + ls[0] + ">", "?"]
    elif kind == "constraint":
        n = rng.choice([3, 5, 8])
        s["text"] = (f"<start> ::= <w>+\n<w> ::= {alts}\nwhere len(str(<start>)) >= {n}\n"
                     f'where str(<start>).count("{ls[0]}") >= {rng.choice([1, 2])}\n')
    elif kind == "quantifier":
        s["stdlib"] = True
        s["text"] = ('<start> ::= <item> ("," <item>)*\n<item> ::= <digit>+\n'
                     f"where forall <i> in <item>: int(<i>) % {rng.choice([2, 3])} == 0\n"
                     "where exists <i> in <item>: int(<i>) > 10\n")
        s["words"] = ["12", "12,6", "5", "12,x", ""]
    elif kind == "generator":
        s["stdlib"] = True
        k = rng.choice([2, 3, 7])
        s["text"] = (f'<start> ::= <m> "=" <n>\n<m> ::= <digit>+\n<n> ::= <digit>+ := str(int(<m>) * {k})\n')
        s["words"] = [f"4={4 * k}", "4=5", "=", "12=", ""]
    elif kind == "soft":
        s["stdlib"] = True
        s["text"] = '<start> ::= <digit>{1,6}\nmaximizing int(<start>)\nwhere int(<start>) % 2 == 0\n'
        s["words"] = ["12", "13", "", "1234567"]
    elif kind == "binary":
        s["text"] = ('<start> ::= <len> <body>\n<len> ::= <bit>{8}\n<bit> ::= 0 | 1\n<body> ::= <byte>*\n'
                     "<byte> ::= b'\\x00' | b'\\xff' | b'A'\n"
                     "where int(bytes(<len>)[0]) == len(bytes(<body>))\n")
        s["words"] = ["hex:00", "hex:0141", "hex:02ff00", "hex:0300", "hex:"]
    elif kind == "computed":
        s["text"] = f'<start> ::= <n> <x>{{int(<n>)}} <t>*\n<n> ::= "1" | "2" | "3"\n<x> ::= {alts}\n<t> ::= "."\n'
        s["words"] = ["1" + ls[0], "2" + ls[0] + ls[1] + "..", "3" + ls[0], ""]
    elif kind == "io":
        names = rng.sample(["ping", "pong", "puff", "paff", "helo", "ehlo", "quit", "noop"], 4)
        s["text"] = IO_SPEC % dict(zip("abcd", names))
        s["io"] = True
        s["words"] = []
    elif kind == "stagnating":
        s["text"] = f'<start> ::= <w>+\n<w> ::= {alts}\nwhere str(<start>) == "{"".join(rng.choice(ls) for _ in range(9))}q"\n'
    else:
        raise ValueError(kind)
    return s


def steps_for(spec: dict, rng) -> list[dict]:
    st = [{"do": "construct", "name": "S", "text": spec["text"], "stdlib": spec["stdlib"], "record": True}]
    if spec["io"]:
        st.append({"do": "io", "name": "S", "gens": 10, "seed": rng.choice([0, rng.randint(1, 999)]), "record": True})
        return st
    settings = rng.choice([{}, {}, {"elitism_rate": 0.2}, {"mutation_rate": 0.5}, {"destruction_rate": 0.2},
                           {"max_nodes": 60}, {"crossover_rate": 0.3, "tournament_size": 0.3}])
    # boundary seeds on purpose: 0 is falsy (seeded change C17-1: `if random_seed:` never applies seed 0)
    seed = rng.choice([0, 0, 1, rng.randint(2, 10 ** 6), rng.randint(2, 10 ** 6), 2 ** 32 - 1, 2 ** 63])
    st.append({"do": "fuzz", "name": "S", "seed": seed, "desired": rng.choice([5, 8, 12]),
               "gens": rng.choice([3, 4, 6]), "pop": rng.choice([8, 10, 16]), "settings": settings, "record": True})
    st.append({"do": "reparse", "name": "S", "n": 4, "record": True})
    if spec.get("words"):
        st.append({"do": "parse", "name": "S", "words": spec["words"], "record": True})
        if spec["kind"] in ("alts", "computed"):
            # prefix mode enumerates incomplete trees without end and filters them by the constraints:
            # with a constraint that no candidate meets it never yields — only constraint-free specs here
            st.append({"do": "parse", "name": "S", "words": spec["words"][:4], "prefix": True, "record": True})
    return st


def ambients(rng, tag: str) -> tuple[dict, dict]:
    """(ambient of the first process, ambient of the second): everything that is NOT an input differs"""
    base = f"/var/tmp/c17_{os.getpid()}_{tag}"
    a1 = {"alloc": 0, "cwd": base + "/p"}
    a2 = {"alloc": rng.choice([50_000, 120_000, 333_333]), "free_half": rng.random() < 0.5,
          "time_offset": rng.choice([86400.25 * 365, 1e6 + 0.125, 12345.678]), "cwd": base + "/q/deeper",
          "urandom_draws": rng.randint(1, 50)}
    return a1, a2


def plan(run: Run, tier: str) -> list[dict]:
    rng = run.rng("configs")
    n_ship, n_gen = (18, 27) if tier == "quick" else (len(SHIPPED), 240)
    cfgs: list[dict] = []
    shipped = list(SHIPPED)
    rng.shuffle(shipped)
    # determinism.fan is the one spec the suite checks: always included
    chosen = ["tests/resources/determinism.fan"] + [f for f in shipped if f != "tests/resources/determinism.fan"]
    for rel in chosen[:n_ship]:
        path = REPO / rel
        if not path.exists():
            run.count("shipped_spec_missing")
            continue
        spec = {"kind": "shipped:" + rel, "text": path.read_text(), "stdlib": True, "io": False, "words": []}
        cfgs.append({"spec": spec})
    kinds = list(GEN_KINDS)
    for i in range(n_gen):
        cfgs.append({"spec": gen_spec(rng, kinds[i % len(kinds)])})
    for i, c in enumerate(cfgs):
        c["id"] = i
        c["steps"] = steps_for(c["spec"], rng)
        c["hashseed"] = rng.choice([0, 1, 42, rng.randint(0, 4_294_967_295), rng.randint(0, 4_294_967_295)])
        c["amb"] = ambients(rng, str(i))
    return cfgs


def run_pairs(cfgs: list[dict]) -> list[tuple[dict, dict]]:
    jobs = []
    for c in cfgs:
        for amb in c["amb"]:
            jobs.append(({"steps": c["steps"], "ambient": amb, "step_limit_s": 200}, c["hashseed"]))
    try:
        res = run_many(jobs)
    finally:
        shutil.rmtree(f"/var/tmp/c17_{os.getpid()}", ignore_errors=True)
        for c in cfgs:
            shutil.rmtree(c["amb"][0]["cwd"].rsplit("/", 1)[0], ignore_errors=True)
    return [(res[2 * i], res[2 * i + 1]) for i in range(len(cfgs))]


def judge(run: Run, cfgs: list[dict], results: list[tuple[dict, dict]]) -> None:
    for c, (r1, r2) in zip(cfgs, results):
        spec = c["spec"]
        kind = spec["kind"].split(":")[0]
        run.count("config:" + kind)
        run.count(f"hashseed:{'0' if c['hashseed'] == 0 else 'random'}")
        for stp in c["steps"]:
            if stp.get("do") in ("fuzz", "io") and "seed" in stp:
                run.count("random_seed:" + ("0" if stp["seed"] == 0 else "1" if stp["seed"] == 1 else
                                            "large" if stp["seed"] >= 2 ** 32 - 1 else "other"))
        n_sol = sum(len(o["res"].get("solutions", [])) for o in r1["out"] if isinstance(o["res"], dict))
        errs = [o["res"]["error"] for o in r1["out"] if isinstance(o["res"], dict) and "error" in o["res"]]
        for e in errs:
            run.count("step_error:" + e)
        run.count("solutions", n_sol)
        same = r1["out"] == r2["out"]
        run.case(["cfg", spec["text"], c["steps"], c["hashseed"]], nontrivial=n_sol >= 2 or spec["io"],
                 sample={"spec": spec["kind"], "hashseed": c["hashseed"], "solutions": n_sol,
                         "first": (r1["out"][1]["res"] if len(r1["out"]) > 1 else None) and
                         json.dumps(r1["out"][1]["res"])[:160], "same": same})
        if not same:
            run.report(f"C17/two-processes-differ/{spec['kind']}",
                       f"two fresh processes with the same spec ({spec['kind']}), settings, random seed and "
                       f"PYTHONHASHSEED={c['hashseed']} differ: {first_diff(r1['out'], r2['out'])}",
                       {"kind": "config", "steps": c["steps"], "hashseed": c["hashseed"], "amb": list(c["amb"]),
                        "spec_kind": spec["kind"]})


def replay(path: str) -> int:
    use_repo()
    rp = json.load(open(path))
    if rp.get("kind") != "config":
        print("replay: this file names broken obligations, not an input:")
        print(json.dumps({k: rp[k] for k in rp if k in ("what", "broken_obligations")}, indent=1)[:3000])
        return 1
    bad = 0
    for attempt in range(3):                      # a hidden input need not bite every time
        jobs = [({"steps": rp["steps"], "ambient": a, "step_limit_s": 200}, rp["hashseed"]) for a in rp["amb"]]
        r1, r2 = run_many(jobs)
        if r1["out"] != r2["out"]:
            print(f"attempt {attempt}: FAILS:", first_diff(r1["out"], r2["out"]))
            bad += 1
        else:
            print(f"attempt {attempt}: identical")
    for a in rp["amb"]:
        shutil.rmtree(a.get("cwd", "/nonexistent").rsplit("/", 1)[0], ignore_errors=True)
    print("replay:", "property violated" if bad else "no violation on the current tree")
    return 1 if bad else 0


def main(tier: str) -> int:
    run = Run(PID, tier, "other")
    use_repo()
    lean = lean_check("Props.C17", [])
    cfgs = plan(run, tier)
    results = run_pairs(cfgs)
    judge(run, cfgs, results)
    run.coverage["traces_validated_against_impl"] = 0
    run.coverage["two_process_pairs"] = len(cfgs)
    run.coverage["ambient_perturbed"] = ["allocation history before import (id()/addresses)", "time.time/monotonic/"
                                         "perf_counter/process_time/time_ns offset", "cwd", "pid",
                                         "os.urandom / uuid4 draws before import"]
    if not lean.ok and not run.violations:
        run.report("C17/unproved", "proof obligations of Props/C17.lean no longer check: " + json.dumps(lean.broken)[:700],
                   {"broken_obligations": lean.broken}, no_input=True)
    return run.finish(
        lean,
        rule="configurations = shipped .fan files (sample; determinism.fan always) + generated specs of kinds "
             "{alts, constraint, quantifier, generator, soft, binary, computed, io, stagnating} x random settings / "
             "random seed / PYTHONHASHSEED in {0, 1, 42, random}; two fresh processes each with perturbed ambient; "
             "compared: construct result, solution sequence (string + structure hash), re-parse of the first "
             "solutions, parse / prefix-parse forests of fixed words; non-trivial = at least 2 solutions emitted "
             "(or a protocol run)",
        explanation="The theorems are order-independence lemmas (any pop order of a set-worklist gives the same set; a "
                    "hash table's iteration order is a function of hashes and insertion sequence; id()-based "
                    "placeholder names are irrelevant). 'Same inputs => same output' is trivial for a Lean function, "
                    "so the absence of hidden inputs is decided by the two-process differential only: level `other`.",
        trusted_base=TRUSTED)
