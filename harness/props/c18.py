"""C18 — Fandango instances in one process do not influence each other.

1. obligations: harness/translate_env.py regenerates Generated/Env.lean (tuner constants, defaults, WHERE the
   repetition cap lives); Props/C18.lean is built and audited (isolation of the per-grammar design for all
   histories, leak witness for the module-global design, verdict for the source's design, tuner trajectory).
2. correspondence (model vs code):
   (a) `AdaptiveTuner.update_parameters` of the real class vs the exact-arithmetic model (drv_env) on
       random tuner states / inputs / trajectories, bit for bit (floats as exact ratios);
   (b) traced real runs (fresh process each): every tuner update and every cap write of a stagnating
       instance A is replayed in the model world, and what a brand-new instance sees afterwards (its cap,
       whether its `{2,}` parser accepts default+1 items) must be what the model says for the source's design.
3. the property itself on the real code, each configuration in a fresh process: B alone vs B after
   activity on A (stagnating runs, parse-only, protocol-mode construction / runs, a twin of B …), for
   B with open-ended / computed / closed repetitions, constraints, stdlib, protocol mode; two orders
   (A before B exists; A after B was constructed); fixed random seed and PYTHONHASHSEED.  Run twice:
   unmasked and masked (nodes.MAX_REPETITIONS restored between A and B).  ANY difference between B alone
   and B after A is a violation; the masked run is a diagnostic that names the channel: a difference that
   needs the unmasked run goes through the module global (`C18/global-MAX_REPETITIONS`, fixed in /repo by
   59688743 — it reappears if the cap becomes process-global again), a difference that survives masking is
   a different leak with its own signature (e.g. `C18/io-env-key-last-spec-wins`, fixed by a511dc56).
"""
from __future__ import annotations

import json
import re
import math
from typing import Any, Optional

from harness import translate_env
from harness.common import MachineryError, Run, driver_ask, lean_check, use_repo
from harness.impl.env_run import run_many

PID = "C18"
SIG_CAP = "C18/global-MAX_REPETITIONS"
SIG_ENVKEY = "C18/io-env-key-last-spec-wins"

TRUSTED = [
    "Lean 4.33.0 kernel; axioms ⊆ {propext, Classical.choice, Quot.sound} (audited per run); `decide +kernel` for "
    "the finite facts about the generated constants",
    "hand-written model lean/Model/Globals.lean of adaptation.py / the cap glue in algorithm.py, grammar.py, "
    "repetition.py, iterative_parser.py; tied by this run's correspondence (tuner: random inputs, bit-exact; "
    "world: traced real runs)",
    "translator harness/translate_env.py (pinned shape of update_parameters, constants as exact ratios, location "
    "of the cap) -> Generated/Env.lean",
    "CPython binary64 arithmetic (modelled as round-to-nearest-even on rationals, compared per run)",
    "the differential on the real code decides everything the model does not contain (caches, FandangoIO, "
    "class-level state); its reach is the generated (A, B) pairs listed in the evidence",
]


def dy(x: float) -> list[int]:
    n, d = float(x).as_integer_ratio()
    return [n, d.bit_length() - 1]


def canon_dy(x: float) -> list[int]:
    n, e = dy(x)
    while e > 0 and n % 2 == 0:
        n //= 2
        e -= 1
    if n == 0:
        e = 0
    return [n, e]


# ------------------------------------------------------------------------------------------------
# (2a) tuner arithmetic: real class vs model
# ------------------------------------------------------------------------------------------------

class _Evaluator:
    def __init__(self):
        self.div: list[float] = []

    def compute_diversity_bonus(self, population):
        return list(self.div)


RATE_POOL = [0.5, 0.1, 0.0, 0.3, 1.0, 2.5, 1e-9, 0.07, 0.25, 1 / 3, 0.999]
FIT_POOL = [0.0, 1.0, 0.5, 0.25, 0.3, 0.1, 0.7, 1 / 3, 0.995, 0.9999, 0.2 + 0.1, 1e-3, 0.004, 0.005, 0.0051]


def tuner_state(t) -> dict:
    return {"mut": canon_dy(t.mutation_rate), "cross": canon_dy(t.crossover_rate), "curRep": t.current_max_repetition,
            "curNodes": t.current_max_nodes, "initMut": canon_dy(t.initial_mutation_rate),
            "initCross": canon_dy(t.initial_crossover_rate), "initRep": t.initial_max_repetition,
            "initNodes": t.initial_max_nodes, "maxReps": t.max_repetitions,
            "repRate": canon_dy(t.max_repetition_rate), "maxNodes": t.max_nodes, "nodesRate": canon_dy(t.max_nodes_rate)}


def tuner_correspondence(run: Run, n_tuners: int, failures: list) -> None:
    from fandango.evolution.adaptation import AdaptiveTuner
    rng = run.rng("tuner")
    reqs, wants, meta = [], [], []
    for i in range(n_tuners):
        mut = rng.choice([0.2, 0.8, 0.05, 1.0, 0.0, 0.011, 0.93, rng.random()])
        cross = rng.choice([0.8, 0.1, 0.9, 0.5, 0.0, 0.105, 0.89, rng.random()])
        rep0 = rng.choice([20, 1, 5, 30, 999, 1000, 1200, rng.randint(1, 1100)])
        nodes0 = rng.choice([200, 50, 4999, 5000, rng.randint(1, 6000)])
        max_reps = rng.choice([None, None, 25, 100, 1, 2000, rng.randint(1, 1500)])
        t = AdaptiveTuner(mut, cross, rep0, nodes0, max_reps, rng.choice(RATE_POOL), nodes0, rng.choice(RATE_POOL))
        ev = _Evaluator()
        steps = rng.randint(1, 14)
        style = rng.random()
        prev = rng.choice(FIT_POOL)
        for k in range(steps):
            if style < 0.4:
                cur = prev                      # stagnation
            elif style < 0.6:
                cur = min(1.0, prev + rng.choice([0.0, 0.001, 0.004, 0.01, 0.2]))
            else:
                cur = rng.choice(FIT_POOL)
            nd = rng.choice([0, 1, 1, 2, 3, 5, 8])
            ev.div = [rng.choice([0, 1, 51, 102, 103, 205, 512, 1024, rng.randint(0, 2048)]) / 1024 for _ in range(nd)]
            before = tuner_state(t)
            t.update_parameters(k + 1, prev, cur, [], ev, 0)
            after = tuner_state(t)
            reqs.append({"op": "update", "t": before, "prev": dy(prev), "cur": dy(cur), "divs": [dy(d) for d in ev.div]})
            wants.append(after)
            avg = sum(ev.div) / len(ev.div) if ev.div else 0
            meta.append({"avg": canon_dy(avg), "grew": after["curRep"] > before["curRep"], "prev": prev, "cur": cur,
                         "div": list(ev.div)})
            prev = cur
    answers = driver_ask("drv_env", reqs)
    for q, w, m, a in zip(reqs, wants, meta, answers):
        ok = a["t"] == w and a["avg"] == m["avg"]
        run.case(["update", q], nontrivial=m["grew"] or q["t"]["mut"] != w["mut"],
                 sample={"before": q["t"], "prev": m["prev"], "cur": m["cur"], "div": m["div"], "after": w})
        run.count("tuner:stagnating" if a["stagnating"] else "tuner:improving")
        run.count("tuner:cap_grew" if m["grew"] else "tuner:cap_same")
        if not ok:
            failures.append({"kind": "tuner-update", "request": q, "impl": w, "impl_avg": m["avg"], "model": a})
    # whole trajectories: k stagnating generations
    reqs, wants = [], []
    for i in range(max(20, n_tuners // 10)):
        rep0 = rng.choice([20, 1, 7, 400, 1000, 1001, rng.randint(1, 1200)])
        rate = rng.choice(RATE_POOL)
        max_reps = rng.choice([None, None, 25, 150, 3000, rng.randint(1, 1500)])
        k = rng.randint(1, 30)
        t = AdaptiveTuner(0.2, 0.8, rep0, 200, max_reps, rate, 200, 0.5)
        ev = _Evaluator()
        traj = [t.current_max_repetition]
        for g in range(k):
            t.update_parameters(g + 1, 0.5, 0.5, [], ev, 0)
            traj.append(t.current_max_repetition)
        reqs.append({"op": "traj", "c0": rep0, "rate": dy(rate), "cap1": max_reps, "cap2": t.max_safe_repetition, "k": k})
        wants.append(traj)
    for q, w, a in zip(reqs, wants, driver_ask("drv_env", reqs)):
        run.case(["traj", q], nontrivial=w[-1] > w[0], sample={"traj": w, "rate": q["rate"], "cap1": q["cap1"]})
        run.count("traj:reaches_cap" if len(w) > 1 and w[-1] == w[-2] and w[-1] > w[0] else "traj:other")
        if a["traj"] != w:
            failures.append({"kind": "trajectory", "request": q, "impl": w, "model": a["traj"]})


# ------------------------------------------------------------------------------------------------
# spec generators
# ------------------------------------------------------------------------------------------------

IO_SPEC = """<start> ::= <Fuzzer:Extern:ping><Extern:Fuzzer:pong><Fuzzer:Extern:puff><Extern:Fuzzer:paff>
<ping> ::= '%(a)s\\n'
<pong> ::= '%(b)s\\n'
<puff> ::= '%(c)s\\n'
<paff> ::= '%(d)s\\n'


class Fuzzer(FandangoParty):
    def __init__(self):
        super().__init__(connection_mode=ConnectionMode.OPEN)

    def send(self, message: DerivationTree, recipient: str):
        if str(message) == "%(a)s\\n":
            self.receive("%(b)s\\n", "Extern")
        elif str(message) == "%(c)s\\n":
            self.receive("%(d)s\\n", "Extern")

class Extern(FandangoParty):
    def __init__(self):
        super().__init__(connection_mode=ConnectionMode.EXTERNAL)
"""

B_KINDS = ["star", "plus", "open", "computed", "closed", "nested", "stdlib", "constrained", "io", "helper", "record",
           "ambiguous"]
A_KINDS = ["stagnate", "stagnate2", "parse", "construct-io", "io-run", "solve", "twin", "namesake", "helper-twin",
           "construct-many"]


def _letters(rng, k: int) -> list[str]:
    return rng.sample(["a", "b", "c", "x", "y", "0", "1", "7"], k)


def _words(rng, letters: list[str], default_cap: int = 20) -> list[str]:
    out = [""]
    for n in [1, 2, 3, default_cap - 1, default_cap, default_cap + 1, default_cap + 2, default_cap + 9, 45]:
        out.append("".join(rng.choice(letters) for _ in range(n)))
    out.append(letters[0] * (default_cap + 1))
    return out


def gen_b(rng, kind: str) -> dict:
    ls = _letters(rng, rng.choice([1, 2, 3]))
    alts = " | ".join(f'"{c}"' for c in ls)
    fuzz = {"seed": rng.randint(0, 10 ** 6), "desired": rng.choice([6, 8, 10]), "gens": rng.choice([3, 4, 5]),
            "pop": rng.choice([8, 10, 12])}
    words = _words(rng, ls)
    b: dict[str, Any] = {"kind": kind, "stdlib": False, "fuzz": fuzz, "io": False, "words": words}
    if kind == "star":
        b["text"] = f"<start> ::= <x>*\n<x> ::= {alts}\n"
    elif kind == "plus":
        b["text"] = f'<start> ::= <h> <x>+\n<h> ::= "{ls[0]}"\n<x> ::= {alts}\n'
    elif kind == "open":
        m = rng.choice([0, 1, 2, 3])
        b["text"] = f"<start> ::= <x>{{{m},}}\n<x> ::= {alts}\n"
    elif kind == "computed":
        b["text"] = f'<start> ::= <n> <x>{{int(<n>)}}\n<n> ::= "1" | "2" | "3" | "4"\n<x> ::= {alts}\n'
        b["words"] = ["", "1" + ls[0], "2" + ls[0] * 2, "3" + ls[0] * 2, "4" + ls[-1] * 4, "2" + ls[0]]
    elif kind == "closed":
        b["text"] = f'<start> ::= <x>{{2,5}} <o>?\n<o> ::= "!"\n<x> ::= {alts}\n'
        b["words"] = ["", ls[0], ls[0] * 2, ls[0] * 5 + "!", ls[0] * 6, ls[-1] * 3 + "!"]
    elif kind == "nested":
        b["text"] = f'<start> ::= <row>+\n<row> ::= <x>* ";"\n<x> ::= {alts}\n'
        b["words"] = [w + ";" for w in words[:6]] + [(ls[0] * 3 + ";") * 22, ";" * 21]
    elif kind == "stdlib":
        b["stdlib"] = True
        b["text"] = '<start> ::= <digit>+ "." <digit>*\n'
        b["words"] = ["1.", "12.5", ".", "7" * 21 + ".", "3." + "1" * 25, "x."]
    elif kind == "constrained":
        b["text"] = f"<start> ::= <x>*\n<x> ::= {alts}\nwhere len(str(<start>)) >= {rng.choice([2, 3, 4])}\n"
    elif kind == "io":
        names = rng.sample(["ping", "pong", "puff", "paff", "helo", "ehlo", "quit", "noop"], 4)
        b["text"] = IO_SPEC % dict(zip("abcd", names))
        b["io"] = True
        b["fuzz"] = None
        b["words"] = []
    elif kind == "helper":
        # Python part + an EXTRA constraint (handed to fuzz()) that reads it: anything cached per process under the
        # constraint's text would carry another spec's definitions over (seeded change C18-2)
        lim = rng.choice([100, 250, 500])
        b["text"] = (f"LIMIT = {lim}\ndef small(v):\n    return int(v) < LIMIT\n"
                     '<start> ::= <n>\n<n> ::= <d> <d> <d>\n<d> ::= "0" | "1" | "2" | "3" | "4" | "5" | "6" | "7" | "8" | "9"\n')
        b["fuzz"] = dict(fuzz, settings={"extra_constraints": [rng.choice(["small(<n>)", "int(<n>) < LIMIT"])]})
        b["words"] = ["007", "099", "250", "999", "12"]
        b["limit"] = lim
    elif kind == "ambiguous":
        # an ambiguous grammar: the ORDER of the trees parse() yields (and the first derivation picked up) must not
        # depend on how many spec objects were created before (seeded change C18-4: a process-wide counter in node ids)
        b["text"] = ('<start> ::= <tok>+\n<tok> ::= <hex> | <word> | <num>\n<hex> ::= <h>+\n<word> ::= <w>+\n<num> ::= <d>+\n'
                     '<h> ::= "a" | "b" | "1"\n<w> ::= "a" | "b" | "z"\n<d> ::= "1" | "2"\n'
                     'where len(str(<start>)) >= 3\n')
        b["words"] = ["ab", "a1", "ab1", "1", "abz", "b"]
    elif kind == "record":
        # several non-terminals under a constraint on the enclosing symbol: the search has to mutate failing subtrees
        seps = " | ".join(f'"{c}"' for c in rng.sample(["=", ":", "<", ">", "~"], 4))
        b["text"] = (f'<start> ::= <key> <sep> <value> <sep> <value>\n<key> ::= "k" <x>\n<sep> ::= {seps}\n'
                     f'<value> ::= <x> <x> <x>\n<x> ::= {alts}\n'
                     f'where str(<start>).count("{ls[0]}") >= 5\n')
        b["words"] = ["k" + ls[0] + "=" + ls[0] * 3 + "=" + ls[0] * 3, "k" + ls[0]]
        b["fuzz"] = dict(fuzz, desired=14, gens=rng.choice([9, 12]), pop=10)   # long enough for many mutations
    else:
        raise ValueError(kind)
    return b


def gen_a(rng, kind: str, b: dict) -> dict:
    """activity on other instances: a list of child steps (names start with 'A')"""
    steps: list[dict] = []
    a: dict[str, Any] = {"kind": kind, "steps": steps}
    if kind in ("stagnate", "stagnate2"):
        text = rng.choice([
            '<start> ::= <d>+\n<d> ::= "0" | "1"\nwhere str(<start>) == "never"\n',
            '<start> ::= <d>* "#"\n<d> ::= "p" | "q"\nwhere len(str(<start>)) < 0\n',
            '<start> ::= <d>{1,}\n<d> ::= "0" | "1"\nwhere int(<start>) < 0\n',
        ])
        n = 2 if kind == "stagnate2" else 1
        for i in range(n):
            steps.append({"do": "construct", "name": f"A{i}", "text": text, "stdlib": False})
            steps.append({"do": "fuzz", "name": f"A{i}", "seed": rng.randint(0, 999), "desired": 1,
                          "gens": rng.choice([3, 4, 5, 6]), "pop": rng.choice([6, 8, 10]),
                          "settings": rng.choice([{}, {}, {"max_repetition_rate": 1.0}, {"max_repetitions": 64},
                                                    {"max_repetitions": 3}, {"max_repetitions": 5}])})
    elif kind == "parse":
        ob = gen_b(rng, rng.choice(["star", "open", "nested", "closed"]))
        steps.append({"do": "construct", "name": "A0", "text": ob["text"], "stdlib": False})
        steps.append({"do": "parse", "name": "A0", "words": ob["words"] + b["words"]})
        steps.append({"do": "parse", "name": "A0", "words": b["words"][:4], "prefix": True})
    elif kind == "construct-io":
        steps.append({"do": "construct", "name": "A0", "text": gen_b(rng, "io")["text"], "stdlib": False})
    elif kind == "io-run":
        steps.append({"do": "construct", "name": "A0", "text": gen_b(rng, "io")["text"], "stdlib": False})
        steps.append({"do": "io", "name": "A0", "gens": 10, "seed": rng.randint(0, 999)})
    elif kind == "solve":
        steps.append({"do": "construct", "name": "A0", "stdlib": True,
                      "text": '<start> ::= <digit>+\nwhere int(<start>) % 7 == 3\n'})
        steps.append({"do": "fuzz", "name": "A0", "seed": rng.randint(0, 999), "desired": 5, "gens": 4, "pop": 10})
    elif kind == "namesake":
        # the same non-terminal NAMES as B with other rules (every choice reduced to its first alternative) and a
        # constraint nothing satisfies, so that the search operators work on A's trees (seeded change C18-1: a memo
        # on the shared default mutation operator keyed by the non-terminal's name)
        rules = [re.match(r"(<[^>]+>) ::= (.*)$", ln) for ln in b["text"].split("\n")]
        choice = [m.group(1) for m in rules if m and m.group(1) != "<start>" and " | " in m.group(2)
                  and ":=" not in m.group(2) and "(" not in m.group(2)]
        # a proper, non-empty subset of the choices becomes a fixed token (all of them: nothing is left to tell apart)
        fixed = set(rng.sample(choice, max(1, len(choice) // 2))) if choice else set()
        lines = []
        for ln in b["text"].split("\n"):
            m = re.match(r"(<[^>]+>) ::= (.*)$", ln)
            if m and m.group(1) in fixed:
                ln = f"{m.group(1)} ::= {m.group(2).split(' | ')[0]}"
            if ln.startswith("where "):
                continue
            lines.append(ln)
        text = "\n".join(lines).rstrip("\n") + '\nwhere str(<start>) == "@never@"\n'
        steps.append({"do": "construct", "name": "A0", "text": text, "stdlib": b["stdlib"]})
        if not b["io"]:
            steps.append({"do": "fuzz", "name": "A0", "seed": rng.randint(0, 999), "desired": 1,
                          "gens": rng.choice([4, 6]), "pop": rng.choice([8, 10])})
    elif kind == "helper-twin":
        # the same grammar and the same extra-constraint TEXT as B, other definitions in the Python part
        if b["kind"] == "helper":
            text = b["text"].replace(f"LIMIT = {b['limit']}", "LIMIT = 1000").replace("< LIMIT", ">= LIMIT - 100")
            steps.append({"do": "construct", "name": "A0", "text": text, "stdlib": False})
            steps.append({"do": "fuzz", "name": "A0", "seed": rng.randint(0, 999), "desired": 4, "gens": 3, "pop": 8,
                          "settings": dict(b["fuzz"]["settings"])})
        else:
            steps.append({"do": "construct", "name": "A0", "text": b["text"], "stdlib": b["stdlib"]})
            if not b["io"]:
                steps.append({"do": "fuzz", "name": "A0", "seed": rng.randint(0, 999), "desired": 4, "gens": 3, "pop": 8,
                              "settings": {"extra_constraints": ["len(str(<start>)) >= 1"]}})
    elif kind == "construct-many":
        for i in range(rng.choice([2, 3, 5])):
            ob = gen_b(rng, rng.choice(["star", "closed", "nested"]))
            steps.append({"do": "construct", "name": f"A{i}", "text": ob["text"], "stdlib": False})
    elif kind == "twin":
        steps.append({"do": "construct", "name": "A0", "text": b["text"], "stdlib": b["stdlib"]})
        if b["io"]:
            steps.append({"do": "io", "name": "A0", "gens": 10, "seed": 5})
        else:
            steps.append({"do": "fuzz", "name": "A0", "seed": rng.randint(0, 999), "desired": 4, "gens": 3, "pop": 8})
            steps.append({"do": "parse", "name": "A0", "words": b["words"]})
    else:
        raise ValueError(kind)
    return a


def use_b(b: dict) -> list[dict]:
    if b["io"]:
        return [{"do": "io", "name": "B", "gens": 10, "seed": 11, "record": True}]
    steps = []
    if b["fuzz"]:
        steps.append(dict(b["fuzz"], do="fuzz", name="B", record=True))
    steps.append({"do": "parse", "name": "B", "words": b["words"], "seed": 3, "record": True})
    return steps


def child_config(b: dict, a: Optional[dict], order: str, mask: bool) -> dict:
    cb = {"do": "construct", "name": "B", "text": b["text"], "stdlib": b["stdlib"]}
    if a is None:
        steps = [cb] + use_b(b)
    elif order == "A-first":
        steps = a["steps"] + ([{"do": "mask"}] if mask else []) + [cb] + use_b(b)
    else:
        steps = [cb] + a["steps"] + ([{"do": "mask"}] if mask else []) + use_b(b)
    return {"steps": steps}


def first_diff(x: Any, y: Any, path: str = "") -> str:
    if type(x) != type(y):
        return f"{path}: {json.dumps(x)[:120]} vs {json.dumps(y)[:120]}"
    if isinstance(x, dict):
        for k in sorted(set(x) | set(y)):
            if x.get(k) != y.get(k):
                return first_diff(x.get(k), y.get(k), f"{path}/{k}")
    if isinstance(x, list):
        if len(x) != len(y):
            return f"{path}: lengths {len(x)} vs {len(y)}"
        for i, (p, q) in enumerate(zip(x, y)):
            if p != q:
                return first_diff(p, q, f"{path}[{i}]")
    return f"{path}: {json.dumps(x)[:120]} vs {json.dumps(y)[:120]}"


def classify(b: dict, a: dict, order: str, alone: dict, unmasked: dict, masked: dict) -> Optional[tuple[str, str]]:
    """(signature, what) or None"""
    d_un = unmasked["out"] != alone["out"]
    d_ma = masked["out"] != alone["out"]
    if d_ma:
        between = order == "B-first" and any(s["do"] == "construct" for s in a["steps"])
        if b["io"] and between:
            return (SIG_ENVKEY, f"protocol-mode B differs after another spec was constructed between B's construction and "
                                f"its run (masked too): {first_diff(alone['out'], masked['out'])}")
        return (f"C18/leak-survives-masking/{a['kind']}->{b['kind']}/{order}",
                f"B ({b['kind']}) differs after A ({a['kind']}, {order}) although nodes.MAX_REPETITIONS was restored: "
                + first_diff(alone["out"], masked["out"]))
    if d_un:
        return (SIG_CAP, f"B ({b['kind']}) differs after A ({a['kind']}, {order}); the difference disappears when "
                         f"nodes.MAX_REPETITIONS is restored between A and B: {first_diff(alone['out'], unmasked['out'])}")
    return None


# ------------------------------------------------------------------------------------------------
# (2b) traced runs vs the model world
# ------------------------------------------------------------------------------------------------

def trace_config(rng) -> dict:
    a = gen_a(rng, "stagnate", {"words": []})
    a["steps"][1]["gens"] = rng.choice([2, 3, 5, 7])
    return {"steps": [{"do": "probe", "tag": "before"}, {"do": "trace_on"}] + a["steps"]
            + [{"do": "trace_off"}, {"do": "probe", "tag": "after"}], "settings": a["steps"][1]["settings"]}


def check_trace(run: Run, cfg: dict, res: dict, defaults: dict, failures: list) -> None:
    info = res["info"]
    ups = [e for e in info["events"] if e["ev"] == "update"]
    if any(e["prev"] is None or e["cur"] is None or e["avg"] is None for e in ups):
        run.count("trace:unmodelled_input")
        return
    # stepwise tuner correspondence on the real inputs
    reqs = [{"op": "update", "t": e["before"], "prev": e["prev"], "cur": e["cur"], "divs": [e["avg"]]} for e in ups]
    for e, a in zip(ups, driver_ask("drv_env", reqs) if reqs else []):
        want = dict(e["after"])
        for k in ("mut", "cross", "initMut", "initCross", "repRate", "nodesRate"):
            n, x = want[k]
            while x > 0 and n % 2 == 0:
                n //= 2
                x -= 1
            want[k] = [n, x if n else 0]
        if a["t"] != want:
            failures.append({"kind": "traced-update", "event": e, "model": a["t"]})
    # the world: caps after every generation, and what a new instance sees afterwards
    st = cfg["settings"]
    settings = {"mut": dy(0.2), "cross": dy(0.8), "maxReps": st.get("max_repetitions"),
                "repRate": dy(st.get("max_repetition_rate", defaults["repRate"])), "maxNodes": 200, "nodesRate": dy(0.5)}
    d = info["default_cap"]
    ops: list = [[0, "new"], [0, "init", settings]]
    real_caps = []
    cap = info["probes"]["before"]["cap"]
    evs = info["events"]
    for i, e in enumerate(evs):
        if e["ev"] == "update":
            ops += [[0, "gen", e["prev"], e["cur"], e["avg"]], [0, "cap"]]
            if i + 1 < len(evs) and evs[i + 1]["ev"] == "set":
                cap = evs[i + 1]["v"]
            real_caps.append(cap)
    ops += [[1, "new"], [1, "cap"], [1, "parse", d + 1]]
    ans = driver_ask("drv_env", [{"op": "world", "loc": "source", "ops": ops}])[0]
    model_caps = [o[1][1] for o in ans["outs"] if o[0] == 0]
    model_b = [o[1] for o in ans["outs"] if o[0] == 1]
    real_b = [["cap", info["probes"]["after"]["cap"]], ["parse", info["probes"]["after"]["accepts_default_plus_1"]]]
    grew = bool(real_caps) and real_caps[-1] > d
    run.case(["trace", ops], nontrivial=grew, sample={"real_caps_per_generation": real_caps,
                                                     "new_instance_after": info["probes"]["after"]})
    run.count("trace:cap_grew" if grew else "trace:cap_same")
    run.count(f"trace:generations={len(ups)}")
    if model_caps != real_caps or model_b != real_b:
        failures.append({"kind": "world-trace", "real_caps": real_caps, "model_caps": model_caps,
                         "real_new_instance": real_b, "model_new_instance": model_b, "ops": ops})


# ------------------------------------------------------------------------------------------------

def plan(run: Run, tier: str) -> list[dict]:
    """the (A, B, order) configurations of this run"""
    rng = run.rng("pairs")
    pairs: list[dict] = []
    # fixed corpus: the documented finding, the control, the env-key class
    corpus = [("open", "stagnate", "A-first"), ("star", "stagnate", "A-first"), ("closed", "stagnate", "A-first"),
              ("open", "stagnate", "B-first"), ("io", "construct-io", "B-first"), ("io", "io-run", "A-first"),
              ("star", "parse", "A-first"), ("computed", "stagnate2", "A-first"), ("stdlib", "twin", "A-first"),
              ("nested", "twin", "B-first"), ("constrained", "solve", "A-first"), ("plus", "io-run", "B-first"),
              ("helper", "helper-twin", "A-first"), ("record", "namesake", "A-first"), ("constrained", "namesake", "A-first"),
              ("helper", "helper-twin", "A-first"), ("record", "namesake", "A-first"), ("record", "namesake", "A-first"),
              ("record", "namesake", "A-first"), ("record", "namesake", "B-first"),
              ("ambiguous", "construct-many", "A-first"), ("ambiguous", "construct-many", "A-first"),
              ("open", "stagnate", "A-first"), ("star", "stagnate2", "A-first")]
    for bk, ak, order in corpus:
        b = gen_b(rng, bk)
        pairs.append({"b": b, "a": gen_a(rng, ak, b), "order": order})
    extra = 20 if tier == "quick" else 400
    for _ in range(extra):
        b = gen_b(rng, rng.choice(B_KINDS))
        ak = rng.choice(A_KINDS)
        pairs.append({"b": b, "a": gen_a(rng, ak, b), "order": rng.choice(["A-first", "A-first", "B-first"])})
    for i, p in enumerate(pairs):
        p["hashseed"] = rng.randint(0, 4_000_000)
        p["id"] = i
    return pairs


def run_pairs(run: Run, pairs: list[dict]) -> list[dict]:
    jobs = []
    for p in pairs:
        hs = p["hashseed"]
        jobs.append((child_config(p["b"], None, "", False), hs))
        jobs.append((child_config(p["b"], None, "", False), hs))
        jobs.append((child_config(p["b"], p["a"], p["order"], False), hs))
        jobs.append((child_config(p["b"], p["a"], p["order"], True), hs))
    res = run_many(jobs)
    out = []
    for i, p in enumerate(pairs):
        alone, alone2, un, ma = res[4 * i: 4 * i + 4]
        out.append({"pair": p, "alone": alone, "alone2": alone2, "unmasked": un, "masked": ma})
    return out


def judge(run: Run, results: list[dict], cap_loc: str) -> set[str]:
    seen: set[str] = set()
    for r in results:
        p = r["pair"]
        b, a, order = p["b"], p["a"], p["order"]
        key = f"{a['kind']}->{b['kind']}/{order}"
        run.count("pair:" + key)
        n_sol = sum(len(o["res"].get("solutions", [])) for o in r["alone"]["out"] if isinstance(o["res"], dict))
        n_err = sum(1 for o in r["alone"]["out"] if isinstance(o["res"], dict) and "error" in o["res"])
        run.count("B_alone_errors", n_err)
        if r["alone"]["out"] != r["alone2"]["out"]:
            run.count("B_alone_nondeterministic(skipped; C17's concern)")
            continue
        verdict = classify(b, a, order, r["alone"], r["unmasked"], r["masked"])
        cap_after_a = r["unmasked"]["info"]["module_cap_end"]
        run.case(["pair", b["text"], a["steps"], order], nontrivial=(n_sol > 0 or b["io"]),
                 sample={"A": a["kind"], "B": b["kind"], "order": order, "B_text": b["text"][:80],
                         "module_cap_after": cap_after_a, "differs": verdict[0] if verdict else None})
        run.count("verdict:" + (verdict[0] if verdict else "same"))
        if verdict:
            sig, what = verdict
            seen.add(sig)
            run.report(sig, what, {"kind": "pair", "b": b, "a": a, "order": order, "hashseed": p["hashseed"]})
    return seen


def replay(path: str) -> int:
    use_repo()
    rp = json.load(open(path))
    if rp.get("kind") != "pair":
        print("replay: this file names broken obligations / correspondence cases, not an input:")
        print(json.dumps({k: rp[k] for k in rp if k in ("what", "broken_obligations", "correspondence")}, indent=1)[:3000])
        return 1
    b, a, order, hs = rp["b"], rp["a"], rp["order"], rp["hashseed"]
    alone, un, ma = run_many([(child_config(b, None, "", False), hs), (child_config(b, a, order, False), hs),
                              (child_config(b, a, order, True), hs)])
    v = classify(b, a, order, alone, un, ma)
    print("B alone      :", json.dumps(alone["out"])[:600])
    print("B after A    :", json.dumps(un["out"])[:600])
    print("B after A (m):", json.dumps(ma["out"])[:600])
    if v:
        print("FAILS:", v[0], "-", v[1])
    print("replay:", "property violated" if v else "no violation on the current tree")
    return 1 if v else 0


def main(tier: str) -> int:
    run = Run(PID, tier, "proof")
    use_repo()
    gen = translate_env.regenerate()
    from harness import translate_globals
    inv = translate_globals.regenerate()
    lean = lean_check("Props.C18", ["drv_env"])
    for r in gen["refusals"]:
        lean.broken.append({"module": "Generated.Env", "reason": "translator refused: " + r})
    for r in inv["refusals"]:
        lean.broken.append({"module": "Generated.ProcessState", "reason": "translator refused: " + r})
    run.coverage["process_state_inventory_entries"] = inv["entries"]
    cap_loc = gen["constants"].get("capLocation", "?")
    run.coverage["generated_constants"] = gen["constants"]
    run.coverage["cap_location_in_source"] = cap_loc
    corr_failures: list = []
    if lean.ok:
        # (2a) tuner arithmetic
        tuner_correspondence(run, 1000 if tier == "quick" else 8000, corr_failures)
    # (2b) + (3): fresh processes
    pairs = plan(run, tier)
    rng = run.rng("traces")
    traces = [trace_config(rng) for _ in range(10 if tier == "quick" else 50)]
    tres = run_many([({"steps": t["steps"]}, rng.randint(0, 10 ** 6)) for t in traces])
    if lean.ok:
        defaults = {"repRate": 0.5}
        for t, r in zip(traces, tres):
            check_trace(run, t, r, defaults, corr_failures)
    results = run_pairs(run, pairs)
    seen = judge(run, results, cap_loc)
    # consistency of the Lean verdict with what was observed
    saw_cap_leak = SIG_CAP in seen
    run.coverage["signatures_seen"] = sorted(seen)
    run.coverage["observed_global_cap_leak"] = saw_cap_leak
    if lean.ok and cap_loc == ".perGrammar" and saw_cap_leak:
        corr_failures.append({"kind": "verdict", "what": "the source design is per-grammar (isolation proved for the "
                              "model) but the unmasked differential shows a leak through nodes.MAX_REPETITIONS"})
    if lean.ok and cap_loc == ".moduleGlobal" and not saw_cap_leak:
        corr_failures.append({"kind": "verdict", "what": "the model says the module-global design leaks, but no "
                              "unmasked-only difference was observed in this run"})
    run.coverage["traces_validated_against_impl"] = run.evaluations
    run.coverage["correspondence_disagreements"] = len(corr_failures)
    run.coverage["disagreement_samples"] = corr_failures[:5]
    if (not lean.ok or corr_failures) and not run.violations:
        what = []
        if not lean.ok:
            what.append("proof obligations of Props/C18.lean no longer check: " + json.dumps(lean.broken)[:700])
        if corr_failures:
            what.append(f"model/implementation correspondence broken on {len(corr_failures)} cases, e.g. "
                        + json.dumps(corr_failures[0])[:500])
        run.report("C18/unproved", "; ".join(what),
                   {"broken_obligations": lean.broken, "correspondence": corr_failures[:20]}, no_input=True)
    return run.finish(
        lean,
        rule="(2a) random AdaptiveTuner states x 1-14 updates (prev/cur fitness incl. equal, zero, near the 0.005 "
             "threshold; diversity lists of multiples of 2^-10; rates incl. 0, 0.1, 1/3, 2.5; caps above/below the "
             "start) and k-step stagnation trajectories, real class vs model bit for bit; (2b) traced stagnating real "
             "runs replayed in the model world; (3) (A,B,order) pairs, 4 fresh processes each (B alone x2, B after A "
             "unmasked, masked): A in {stagnate, stagnate2, parse, construct-io, io-run, solve, twin}, B in {star, plus, "
             "open, computed, closed, nested, stdlib, constrained, io}; a pair is non-trivial when B alone emitted "
             "solutions (or is a protocol run)",
        explanation="level `proof` covers the model: isolation of the per-grammar design, refutation of the module-global "
                    "design, verdict for the source's design, tuner trajectory. Leaks through state that is not in the "
                    "model (caches, FandangoIO registry, class attributes) are searched by the differential only.",
        trusted_base=TRUSTED)
