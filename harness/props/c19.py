"""C19 — protocol forecasting offers exactly the grammar's continuations.

0. translator: harness/translate_proto.py reads the two code shapes the model of the visitor is written for (how
   `visitRepetitionType` computes `rep_max`; the re-entry guard of `PathFinder.onNonTerminalNodeVisit`) from the
   source -> lean/Generated/Proto.lean, obligation `C19_source_configuration`
1. obligations: Props/C19.lean (lake build, axiom audit)
2. per generated protocol grammar (alternatives, options, bounded/unbounded repetitions, nesting, right
   recursion, 2-3 parties): the model driver (drv_proto) checks the theorems' hypotheses with their
   *verified* certificates (rankOk = no left recursion, productiveB, msgOnly) and enumerates every prefix
   of every interaction up to the depth bound together with `nexts`/`complete` (verified forecaster) and
   `codeNexts`/`codeComplete` (model of prefix parse + ContinuingNodeVisitor);
3. the real `PacketForecaster(grammar).predict(tree)` is run on history trees built the way
   `_generate_io` builds them (mount the message at a forecast mounting path of the previous forecast);
   options / completeness are compared as sets of (sender, recipient, type) with the model of the code
   (correspondence) and with the verified forecaster (the property); every mounting path is mounted and
   the extended history re-read from the tree; complete trees go through the verified derivation checker
   (drv_ir, E2);
3b. per partial tree the real visitor walks (the first SPINE_SAMPLE predict calls of an exploration and every call
   whose forecast disagrees): its right spine -> drv_proto `spines`: the verified checker `pdB` (C19_pd_checker) says
   whether it is a message-level partial derivation of the history (PositionsExact.sound, observed on the
   implementation), the model of the visitor (`walkPosWith`) what must be offered along it - compared with
   `PathFinder.forecast(tree)`; an extra option that only trees that are NO partial derivations contribute is the
   finding F63 (the parser hands over a tree with a sibling behind an unfinished node);
4. slicing: real `slice_parties` vs the model `sliceG` (rule by rule, ids included; on the whole grammar and on
   its message level, which is what `C19_slice_commutes` speaks about - its hypothesis `sliceCert` is evaluated
   by the driver), forecasting on the real sliced grammar, and "the visible part of a prefix / interaction is
   a prefix / interaction of the sliced spec" with the verified forecaster (an independent observation of what
   the theorem states);
5. fixed probes: computed repetitions at message level, an open-ended repetition beyond the generator's
   repetition cap (regression probe of F43, fixed by 07eb1fdf: a capped answer is a violation), the empty history.

Attribution of what predict() merely relays from the parser (so that parser defects - C05/C06 domain - do not
count as forecasting defects, and forecasting defects are not hidden behind them):
  * non-termination of the prefix parse is decided by STEP COUNTS inside the parser (partial trees yielded by
    `consume`, states admitted by `Column.add`), never by seconds; a 90 s wall-clock backstop is only counted;
  * "complete not reported" / "no option at all" is attributed to the parser only when the real IterativeParser,
    asked directly with the same reduced grammar and the same word of message types, rejects the history
    (COMPLETE mode) / yields no partial tree (INCOMPLETE mode).
Open findings proposed by this builder are read from proposed_findings/C19.json when that file exists (same
semantics as known_findings.json).  The model follows the code as repaired by ebdb490d / 8757f904 / fc0f6663 /
58f3e8e8 / 07eb1fdf (forecaster), ed4e9a62 / e74d4443 (slice_parties) and b48dd899 (`{n,}` parsed without an upper
bound).  Since 07eb1fdf nothing in the forecast depends on the generator's repetition cap: some generated grammars
are still run with `MAX_REPETITIONS = 3` so that a forecaster that reads an open bound through the cap again is
caught within the enumeration depth (a violation: F43 is fixed, its signature suppresses nothing).
"""
from __future__ import annotations

import copy
import json
import os
import signal
import sys
import time
import traceback
import warnings
from concurrent.futures import ProcessPoolExecutor, as_completed
from pathlib import Path
from typing import Any, Optional

from harness.common import MachineryError, Run, driver_ask, lean_check, rng_for, seed_of_env, use_repo

PID = "C19"

TRUSTED = [
    "Lean 4.33.0 kernel; axioms ⊆ {propext, Classical.choice, Quot.sound} (audited per run)",
    "hand-written model lean/Model/Forecast.lean: message-level reading of the grammar IR (GM), the verified "
    "forecaster (derivatives + emptiness), the model of the code (positions + walkPos/walkNew), sliceG (line by "
    "line after slice_parties / PacketTruncator, node ids included); tied to /repo by harness/translate_proto.py "
    "(shape of the rep_max computation and of the re-entry guard, C19_source_configuration) and by this run's "
    "correspondence (generator-bounded): real slice_parties == sliceG rule by rule, real predict == codeNexts == "
    "nexts per prefix",
    "the prefix parse is specified (`positions`), not modelled: C19_code_forecast_full proves `codeNexts = "
    "continuations` for every history for that specification (PositionsExact: the spines handed to the visitor "
    "are sound and complete for the message-level partial derivations of the history); that the REAL prefix parse "
    "meets PositionsExact is not proved (E3's prefix-mode soundness theorem is weaker, completeness is not proved) "
    "and is false for some type-ambiguous histories (finding F63): per run the verified checker pdB judges the "
    "right spine of every walked partial tree (sampled), and the forecasts are compared",
    "harness/impl/proto_real.py spine_of (real partial tree -> position of the model; cross-checked per tree: the "
    "model of the visitor along the spine must offer what PathFinder.forecast offers on the tree)",
    "harness/impl/grammar_io.py grammar_to_json (real front end -> IR JSON), harness/impl/proto_real.py",
    "rank candidate computed by an unverified helper in Driver/Proto.lean, accepted only through the verified "
    "check rankOk",
]

SIG_VISITOR = "C19/repetition-left-with-incomplete-iteration"      # F36, fixed by ebdb490d: kept for the record
SIG_EMPTY = "C19/empty-history-never-complete"
SIG_COMPUTED = "C19/computed-repetition-crash"
SIG_MERGE = "C19/same-type-recipients-merged"
SIG_SLICE_ALT = "C19/slice-drops-invisible-alternative"
SIG_GENERIC = "C19/forecast-mismatch"
SIG_COMPLETE = "C19/complete-mismatch"
SIG_MOUNT = "C19/mounting-path-invalid"
SIG_SLICE = "C19/slice-mismatch"
SIG_SLICE_EQ = "C19/slice-removes-first-equal-symbol"
SIG_SLICE_LEFTREC = "C19/sliced-spec-left-recursive-forecast-recursion-error"
# the two below name defects of the *parser* that predict() runs into (not of the forecasting code)
SIG_PARSER_UNBOUNDED = "C19/prefix-parse-unbounded(C06-F32)"
SIG_PARSER_UNBOUNDED_OTHER = "C19/prefix-parse-unbounded"
SIG_AMBIG = "C19/party-ambiguous-type-in-history"
SIG_NULLTAIL = "C19/complete-missed-parser-rejects-history(C05)"
SIG_CAP = "C19/open-repetition-capped"
SIG_PARSER_PREFIX = "C19/no-forecast-parser-rejects-prefix(C05)"
# an option that cannot follow, offered along a partial tree of the prefix parse that is NOT a message-level partial
# derivation of the history (a node left of the right spine is unfinished): PositionsExact.sound fails for the parser
SIG_SPURIOUS_TREE = "C19/option-from-tree-that-is-no-partial-derivation"
# how many predict calls per exploration have every walked tree checked (spine -> verified checker pdB + model of
# the visitor along it), beyond the calls whose forecast disagrees (all of those are checked)
SPINE_SAMPLE = 60

VERIF = Path(__file__).resolve().parents[2]
PROPOSED = VERIF / "proposed_findings" / "C19.json"


def load_known(run: Run) -> None:
    """findings proposed by this builder but not yet decided by the lead are treated exactly like
    `known_findings.json` entries (the lead moves them into that file)"""
    if PROPOSED.exists():
        for k in json.loads(PROPOSED.read_text()):
            if k.get("property") == PID and k.get("status") == "open" and \
                    not any(x.get("signature") == k.get("signature") for x in run.known):
                run.known.append(k)


class PredictTimeout(BaseException):
    """raised by SIGALRM inside a worker (BaseException: must not be swallowed by `except Exception`)"""


class PrefixParseUnbounded(BaseException):
    """the prefix parse inside predict() exceeded its step budget (counted in the parser's own code)"""


class PrefixParseTooAmbiguous(BaseException):
    """more partial trees than the budget, but none larger than a tree of this history can be: exponentially
    many derivations (`<s>* ; <s> ::= <x>{1,}`), finite - inconclusive, skipped, never judged"""


def _on_alarm(*_a):
    raise PredictTimeout()


# Wall-clock backstop only (several checks share the machine): what decides "the prefix parse does not
# terminate" are the step budgets below, counted inside the parser.
PREDICT_TIMEOUT_S = 90.0
# partial trees yielded by `PacketIterativeParser.consume` for ONE history / `Column.add` calls for ONE history.
# Terminating cases of this check stay below 310 trees and 3k admissions (histories of <= 9 messages).
MAX_PARTIAL_TREES = 600
MAX_ADMISSIONS = 400_000
# A partial tree of a history of n messages has at most O(n * grammar size) nodes (every message hangs on a path
# no longer than the grammar is deep per unfolding, unfoldings consume messages); the non-terminating prefix
# parses yield EVER LARGER trees (an iteration that matched nothing is stacked again and again: 2.5 nodes per
# yielded tree).  A tree beyond the size bound = unbounded (decided at once); over the tree budget with all trees
# within the bound = exponentially ambiguous but finite.
SIZE_FACTOR = 6
_STEPS = {"trees": 0, "adds": 0, "max_size": 0, "size_bound": 10 ** 9, "armed": False, "copies": 0}
_WALKED: list = []      # (partial tree, ForecastingResult) of every PathFinder.forecast(tree) of the predict call at hand


def _install_step_counters():
    """count, inside the real parser, the partial trees it yields and the states it admits"""
    from fandango.io.navigation.packetiterativeparser import PacketIterativeParser
    import fandango.language.grammar.parser.column as colmod
    if getattr(PacketIterativeParser, "_c19_counted", False):
        return
    orig_consume = PacketIterativeParser.consume
    orig_add = colmod.Column.add

    def consume(self, *a, **kw):
        for item in orig_consume(self, *a, **kw):
            if _STEPS["armed"]:
                _STEPS["trees"] += 1
                _STEPS["max_size"] = max(_STEPS["max_size"], item[0].size())
                if _STEPS["max_size"] > _STEPS["size_bound"]:
                    raise PrefixParseUnbounded()         # larger than any partial tree of this history can be
                if _STEPS["trees"] > MAX_PARTIAL_TREES:
                    raise PrefixParseTooAmbiguous()
            yield item

    def add(self, state):
        if _STEPS["armed"]:
            _STEPS["adds"] += 1
            if _STEPS["adds"] > MAX_ADMISSIONS:
                raise PrefixParseUnbounded()
        return orig_add(self, state)
    from fandango.language.tree import DerivationTree
    orig_deepcopy = DerivationTree.__deepcopy__

    def counted_deepcopy(self, *a, **kw):
        _STEPS["copies"] += 1
        return orig_deepcopy(self, *a, **kw)
    DerivationTree.__deepcopy__ = counted_deepcopy
    from fandango.io.navigation.packetforecaster import PathFinder
    orig_forecast = PathFinder.forecast

    def forecast(self, tree=None):
        r = orig_forecast(self, tree)
        if _STEPS["armed"] and tree is not None:
            _WALKED.append((tree, r))
        return r
    PathFinder.forecast = forecast
    PacketIterativeParser.consume = consume
    colmod.Column.add = add
    PacketIterativeParser._c19_counted = True


def _init_worker():
    use_repo()
    warnings.simplefilter("ignore")
    signal.signal(signal.SIGALRM, _on_alarm)
    _install_step_counters()


def jm(m) -> list:
    return [m[0], m[1], m[2]]


def tm(j) -> tuple:
    return (j[0], j[1], j[2])


def mset(js) -> list:
    return sorted({tm(j) for j in js}, key=lambda x: (x[0], x[1] or "", x[2]))


# ------------------------------------------------------------------------------------------------
# one grammar (runs in a worker)
# ------------------------------------------------------------------------------------------------

def explore(grammar, cases: list[dict], max_trees: int = 2, check_complete_trees: bool = True,
            has_nullable_nt: bool = False, grammar_nodes: int = 50, tree_budget: int = 10 ** 9) -> dict:
    """walk the model's breadth-first list of prefixes on the real forecaster.

    `tree_budget`: work budget of one exploration, counted in steps, not seconds: the number of DerivationTree
    nodes deep-copied so far (what predict() spends its time on: `ForecastingResult.union` deep-copies the whole
    result, mounting paths with their trees included, once per partial tree of the prefix parse); once it is used
    up the remaining (longer) prefixes are skipped and counted."""
    from fandango.io.navigation.packetforecaster import PacketForecaster
    from harness.impl import proto_real as pr
    from harness.impl.grammar_io import check_valid

    fc = PacketForecaster(grammar)
    trees: dict[tuple, list] = {(): [pr.start_tree()]}
    seen: dict[tuple, set] = {(): set()}
    out = {"cases": 0, "predicts": 0, "mismatch": [], "mounts": 0, "unbuilt": 0, "complete_trees": 0,
           "errors": [], "timeouts": 0}
    from harness.impl.grammar_io import grammar_to_json
    gj_all, _ = grammar_to_json(grammar)
    ir_rules = {r[0]: r[1] for r in gj_all["rules"]}
    spine_jobs: list = []        # (history, [spine], [options of the real visitor along that tree], record | None)
    sampled = 0
    contents: dict[str, Any] = {}
    to_validate: list = []
    # message types that occur with two or more different (sender, recipient) pairs: predict() re-parses the
    # history by message TYPE only, so for these the type-level prefix parse is ambiguous where the protocol
    # is not (a type that always travels between the same two parties is NOT in this class, however often it
    # occurs)
    pairs_of: dict[str, set] = {}
    from fandango.language.grammar.node_visitors.symbol_finder import SymbolFinder
    for rule in grammar.rules.values():
        sf = SymbolFinder()
        sf.visit(rule)
        for ntn in sf.nonTerminalNodes:
            if ntn.sender is not None:
                pairs_of.setdefault(ntn.symbol.name(), set()).add((ntn.sender, ntn.recipient))
    party_ambiguous = {t for t, ps in pairs_of.items() if len(ps) >= 2}
    out["party_ambiguous_types"] = len(party_ambiguous)

    copies0 = _STEPS["copies"]
    for case in cases:
        if _STEPS["copies"] - copies0 > tree_budget:
            out["cases_skipped_tree_budget"] = out.get("cases_skipped_tree_budget", 0) + 1
            continue
        h = tuple(tm(j) for j in case["h"])
        model_next = mset(case["nexts"])
        model_code = mset(case["code"])
        ts = trees.get(h, [])
        if not ts:
            out["unbuilt"] += 1      # a missing option upstream was already reported there
            continue
        out["cases"] += 1
        for t in ts:
            if out["timeouts"] >= 2:
                break
            try:
                signal.setitimer(signal.ITIMER_REAL, PREDICT_TIMEOUT_S)
                _STEPS.update(trees=0, adds=0, max_size=0, armed=True,
                              size_bound=SIZE_FACTOR * (len(h) + 2) * max(grammar_nodes, 10))
                _WALKED.clear()
                try:
                    opts, real_complete, res = pr.real_predict(fc, t)
                finally:
                    _STEPS["armed"] = False
                    signal.setitimer(signal.ITIMER_REAL, 0)
            except PrefixParseTooAmbiguous:
                out["timeouts"] += 1
                out["too_ambiguous"] = out.get("too_ambiguous", 0) + 1
                fc = PacketForecaster(grammar)
                continue
            except PrefixParseUnbounded:
                # the parser (not the forecasting code) exceeded its step budget
                out["timeouts"] += 1
                out["mismatch"].append({"h": [jm(m) for m in h], "kind": "parser-unbounded",
                                        "trees": _STEPS["trees"], "adds": _STEPS["adds"],
                                        "max_tree_size": _STEPS["max_size"], "size_bound": _STEPS["size_bound"]})
                fc = PacketForecaster(grammar)      # the parser object is in an undefined state
                continue
            except PredictTimeout:
                out["timeouts"] += 1
                out["mismatch"].append({"h": [jm(m) for m in h], "kind": "wallclock",
                                        "trees": _STEPS["trees"], "adds": _STEPS["adds"]})
                fc = PacketForecaster(grammar)
                continue
            except Exception as e:  # noqa
                out["errors"].append({"h": [jm(m) for m in h], "error": type(e).__name__ + ": " + str(e)[:200],
                                      "tb": traceback.format_exc()[-800:]})
                continue
            out["predicts"] += 1
            out["max_trees"] = max(out.get("max_trees", 0), _STEPS["trees"])
            out["max_adds"] = max(out.get("max_adds", 0), _STEPS["adds"])
            amb = any(m[2] in party_ambiguous for m in h)
            if amb:
                out["predicts_type_ambiguous"] = out.get("predicts_type_ambiguous", 0) + 1
            real = sorted(opts.keys(), key=lambda x: (x[0], x[1] or "", x[2]))
            rec = {"h": [jm(m) for m in h], "real": [jm(m) for m in real], "nexts": [jm(m) for m in model_next],
                   "code": [jm(m) for m in model_code],
                   "real_complete": real_complete, "complete": case["complete"],
                   "code_complete": case["code_complete"], "positions": case["positions"],
                   "type_ambiguous": amb,
                   "nullable_nt": has_nullable_nt}
            if case["complete"] and not real_complete and h:
                rec["parser_rejects"] = not pr.parser_accepts(grammar, t)
            if h and not real and model_next:
                rec["parser_no_partial_tree"] = not pr.parser_yields_partial_tree(grammar, t)
            differs = real != model_next or real != model_code or real_complete != case["complete"] \
                or real_complete != case["code_complete"]
            if differs:
                out["mismatch"].append(rec)
            # the partial trees the visitor walked for this call: their right spines go to the verified checker
            # (is it a partial derivation of the history?) and to the model of the visitor (same options?)
            if h and _WALKED and (differs or sampled < SPINE_SAMPLE):
                sampled += 0 if differs else 1
                spines, per_tree = [], []
                for wt, wr in _WALKED:
                    try:
                        spines.append(pr.spine_of(wt, ir_rules))
                        per_tree.append([jm(m) for m in pr.options_of(wr)])
                    except pr.SpineError as e:
                        out["spine_errors"] = out.get("spine_errors", 0) + 1
                        out.setdefault("spine_error_samples", []).append(str(e))
                if spines:
                    spine_jobs.append(([jm(m) for m in h], spines, per_tree, rec if differs else None))
            _WALKED.clear()
            if real_complete and check_complete_trees:
                for ct in res.complete_trees:
                    to_validate.append((list(h), ct))
            # mount every option at every mounting path
            for m, pk in opts.items():
                if m[0].startswith("!"):
                    continue
                if m[2] not in contents:
                    contents[m[2]] = pr.content_of(grammar, m[2])
                for mp in pk.paths:
                    try:
                        child = pr.mount(mp, m, contents[m[2]])
                        got = pr.history_of(child)
                    except Exception as e:  # noqa
                        out["mismatch"].append({"h": [jm(x) for x in h], "mount": jm(m), "kind": "mount",
                                                "error": type(e).__name__ + ": " + str(e)[:200]})
                        continue
                    out["mounts"] += 1
                    want = list(h) + [m]
                    if got != want:
                        out["mismatch"].append({"h": [jm(x) for x in h], "mount": jm(m), "kind": "mount",
                                                "got": [jm(x) for x in got]})
                        continue
                    hk = tuple(want)
                    key = pr.canon_tree(child)
                    if key in seen.setdefault(hk, set()):
                        continue
                    seen[hk].add(key)
                    if len(trees.setdefault(hk, [])) < max_trees:
                        trees[hk].append(child)
    # call-order independence: ONE forecaster (as PacketSelector keeps for a whole campaign) asked in orders the
    # breadth-first walk above never produces - a history, the empty history, an extension of the first; repeats;
    # jumps between unrelated branches - must answer every call like a brand-new forecaster (seeded change C19-2:
    # a forecaster that feeds its parser only the new messages after the empty-history branch had reset it)
    import random as _random
    orng = _random.Random(len(cases) * 7919 + len(trees) * 31 + sum(len(h) for h in trees))
    hs = [h for h in trees if trees[h]]
    if len(hs) >= 3 and out["timeouts"] == 0:
        ext = {h: [g for g in hs if len(g) > len(h) and g[:len(h)] == h] for h in hs}
        seqs: list[list[tuple]] = []
        for _ in range(8):
            p_ = orng.choice([h for h in hs if h] or hs)
            seq = [p_, ()]
            if ext.get(p_):
                seq.append(orng.choice(ext[p_]))
            seq += [orng.choice(hs) for _ in range(3)]
            seqs.append(seq)
        one = PacketForecaster(grammar)
        for seq in seqs:
            for h in seq:
                if _STEPS["copies"] - copies0 > tree_budget:
                    break
                t = trees[h][0]
                try:
                    signal.setitimer(signal.ITIMER_REAL, PREDICT_TIMEOUT_S)
                    _STEPS.update(trees=0, adds=0, max_size=0, armed=False)
                    try:
                        o1, c1, _r1 = pr.real_predict(one, t)
                        o2, c2, _r2 = pr.real_predict(PacketForecaster(grammar), t)
                    finally:
                        signal.setitimer(signal.ITIMER_REAL, 0)
                except Exception:  # noqa: BLE001 - budget / timeout / crash: judged by the walk above, not here
                    one = PacketForecaster(grammar)
                    continue
                out["order_probe_calls"] = out.get("order_probe_calls", 0) + 1
                if sorted(o1, key=str) != sorted(o2, key=str) or c1 != c2:
                    out["mismatch"].append({"h": [jm(m) for m in h], "kind": "call-order",
                                            "sequence": [[jm(m) for m in g] for g in seq],
                                            "same_forecaster": [jm(m) for m in sorted(o1, key=str)], "complete_same": c1,
                                            "fresh_forecaster": [jm(m) for m in sorted(o2, key=str)], "complete_fresh": c2})
                    one = PacketForecaster(grammar)
                    break
    # the walked partial trees: verified checker + model of the visitor, per tree
    if spine_jobs:
        answers = driver_ask("drv_proto", [{"op": "spines", "grammar": gj_all, "start": "<start>", "history": hj,
                                            "spines": sp} for hj, sp, _pt, _rec in spine_jobs])
        for (hj, sp, per_tree, rec_), ans in zip(spine_jobs, answers):
            if len(ans.get("spines", [])) != len(sp):
                continue                       # hypotheses of the model fail for this grammar (never: checked above)
            pd_union, nonpd_union, n_bad = set(), set(), 0
            for pj, real_t, a in zip(sp, per_tree, ans["spines"]):
                out["walked_trees_checked"] = out.get("walked_trees_checked", 0) + 1
                model_t = [jm(tm(m)) for m in mset(a["walk"])]
                real_s = mset(real_t)
                model_s = mset(a["walk"])
                if real_s != model_s and not (all(m in model_s for m in real_s) and
                                              sorted({(m[0], m[2]) for m in real_s}) == sorted({(m[0], m[2]) for m in model_s})):
                    # the model of the visitor and PathFinder.forecast disagree on this tree (not the merge of F39)
                    out["mismatch"].append({"h": hj, "kind": "visitor-tree", "spine": pj, "real_tree_options": real_t,
                                            "model_tree_options": model_t, "pd": a["pd"]})
                if a["pd"]:
                    pd_union.update(model_s)
                    if not a["in_positions"]:
                        out["walked_pd_trees_outside_model_positions"] = out.get("walked_pd_trees_outside_model_positions", 0) + 1
                else:
                    n_bad += 1
                    nonpd_union.update(model_s)
                    out["walked_trees_not_partial_derivations"] = out.get("walked_trees_not_partial_derivations", 0) + 1
                    out.setdefault("non_pd_samples", [])
                    if len(out["non_pd_samples"]) < 3:
                        out["non_pd_samples"].append({"h": hj, "spine": pj})
            if rec_ is not None:
                nx = mset(ans["nexts"])
                rec_["walked_trees"] = len(sp)
                rec_["walked_trees_not_pd"] = n_bad
                rec_["pd_trees_give_nexts"] = sorted(pd_union, key=str) == sorted(nx, key=str)
                rec_["extras_only_from_non_pd_trees"] = all(
                    (tm(m) in nonpd_union) for m in rec_["real"] if tm(m) not in set(nx))
    # verified derivation checker on the complete trees
    if to_validate:
        try:
            verdicts = check_valid(grammar, [ct for _, ct in to_validate])
        except Exception as e:  # noqa
            out["errors"].append({"h": [], "error": "check_valid: " + type(e).__name__ + ": " + str(e)[:200]})
            verdicts = []
        for (h, ct), v in zip(to_validate, verdicts):
            out["complete_trees"] += 1
            if not v["valid"]:
                out["mismatch"].append({"h": [jm(x) for x in h], "kind": "complete-tree-invalid", "bad": v["bad"]})
            elif pr.history_of(ct) != [tuple(x) for x in h]:
                out["mismatch"].append({"h": [jm(x) for x in h], "kind": "complete-tree-history",
                                        "got": [jm(x) for x in pr.history_of(ct)]})
    return out


def probe_sliced_leftrec(sliced, cases: list[dict], vis, max_predicts: int = 24, depth: int = 3) -> dict:
    """the sliced spec is left-recursive at message level although the spec is not (slicing a right-recursive
    loop of invisible messages leaves `<s> ::= <s> | ...`): the verified forecaster does not apply, so the real
    forecaster on the sliced spec is judged against the statement of C19_slice_cont directly - after the visible
    history p it must offer every visible m such that some enumerated prefix h ++ [m] of the spec has the visible
    part p ++ [m] - and must not raise.  Breadth first over real history trees, a few steps."""
    from fandango.io.navigation.packetforecaster import PacketForecaster
    from harness.impl import proto_real as pr
    expected: dict[tuple, set] = {}
    for c in cases:
        h = [tm(j) for j in c["h"]]
        if h and vis(h[-1]):
            expected.setdefault(tuple(m for m in h[:-1] if vis(m)), set()).add(h[-1])
    out: dict = {"predicts": 0, "raised": None, "missing": []}
    fc = PacketForecaster(sliced)
    frontier = [((), pr.start_tree())]
    contents: dict = {}
    for _d in range(depth + 1):
        nxt = []
        for p, t in frontier:
            if out["predicts"] >= max_predicts:
                return out
            try:
                signal.setitimer(signal.ITIMER_REAL, PREDICT_TIMEOUT_S)
                _STEPS.update(trees=0, adds=0, max_size=0, armed=True, size_bound=10 ** 9)
                try:
                    opts, _comp, _res = pr.real_predict(fc, t)
                finally:
                    _STEPS["armed"] = False
                    signal.setitimer(signal.ITIMER_REAL, 0)
            except (PrefixParseTooAmbiguous, PrefixParseUnbounded, PredictTimeout):
                out["inconclusive"] = out.get("inconclusive", 0) + 1
                fc = PacketForecaster(sliced)
                continue
            except RecursionError as e:
                out["raised"] = {"h": [jm(m) for m in p], "error": "RecursionError: " + str(e)[:80]}
                return out
            except Exception as e:  # noqa
                out["raised"] = {"h": [jm(m) for m in p], "error": type(e).__name__ + ": " + str(e)[:120]}
                return out
            out["predicts"] += 1
            real = set(opts.keys())
            miss = sorted(m for m in expected.get(p, set()) if m not in real)
            if miss:
                out["missing"].append({"h": [jm(m) for m in p], "missing": [jm(m) for m in miss],
                                       "real": [jm(m) for m in sorted(real)]})
            for m, pk in sorted(opts.items()):
                if m[0].startswith("!"):
                    continue
                if m[2] not in contents:
                    contents[m[2]] = pr.content_of(sliced, m[2])
                try:
                    nxt.append((p + (m,), pr.mount(next(iter(pk.paths)), m, contents[m[2]])))
                except Exception:  # noqa
                    pass
        frontier = nxt
    return out


def nullable_nt(gj: dict) -> bool:
    """is there a non-message nonterminal that derives the empty interaction and is referenced twice or more?"""
    rules = {r[0]: r[1] for r in gj["rules"]}

    def nullable(n, seen=()):
        k = n[0]
        if k in ("lit", "re"):
            return False
        if k == "nt":
            if n[2] is not None or n[1] in seen or n[1] not in rules:
                return False
            return nullable(rules[n[1]], seen + (n[1],))
        if k == "alt":
            return any(nullable(x, seen) for x in n[2])
        if k == "cat":
            return all(nullable(x, seen) for x in n[2])
        return n[4] == 0 or nullable(n[3], seen)

    def refs(n):
        k = n[0]
        if k == "nt":
            return [n[1]] if n[2] is None else []
        if k in ("alt", "cat"):
            return [x for c in n[2] for x in refs(c)]
        if k == "rep":
            return refs(n[3])
        return []
    # the parser defect behind SIG_NULLTAIL needs the SAME nullable nonterminal to be predicted twice in one
    # Earley column (`<start> ::= <s1> <s2>; <s1> ::= "a" <s2>; <s2> ::= "b"?`: parse("a") is None): the class
    # is "a nullable non-message nonterminal that is referenced at two or more places"
    used: dict[str, int] = {}
    for b in rules.values():
        for x in refs(b):
            used[x] = used.get(x, 0) + 1
    return any(cnt >= 2 and name in rules and nullable(["nt", name, None, None]) for name, cnt in used.items())


def nullable_head_in_open_rep(gj: dict) -> bool:
    """is there an open-ended repetition whose body can start with an element that matches nothing?"""
    rules = {r[0]: r[1] for r in gj["rules"]}

    def nullable(n, seen=()):
        k = n[0]
        if k in ("lit", "re"):
            return False
        if k == "nt":
            if n[2] is not None or n[1] in seen or n[1] not in rules:
                return False
            return nullable(rules[n[1]], seen + (n[1],))
        if k == "alt":
            return any(nullable(x, seen) for x in n[2])
        if k == "cat":
            return all(nullable(x, seen) for x in n[2])
        return n[4] == 0 or nullable(n[3], seen)

    def head_nullable(n, seen=()):
        k = n[0]
        if k == "cat":
            return bool(n[2]) and (nullable(n[2][0], seen) or head_nullable(n[2][0], seen))
        if k == "alt":
            return any(head_nullable(x, seen) for x in n[2])
        if k == "rep":
            return head_nullable(n[3], seen)
        if k == "nt" and n[2] is None and n[1] in rules and n[1] not in seen:
            return head_nullable(rules[n[1]], seen + (n[1],))
        return False

    def walk(n):
        k = n[0]
        if k in ("alt", "cat"):
            return any(walk(x) for x in n[2])
        if k == "rep":
            if n[5] is None and (head_nullable(n[3]) or nullable(n[3])):
                return True
            return walk(n[3])
        return False
    return any(walk(b) for b in rules.values())


def ir_nodes(gj: dict) -> int:
    def cnt(n):
        k = n[0]
        if k in ("alt", "cat"):
            return 1 + sum(cnt(x) for x in n[2])
        if k == "rep":
            return 1 + cnt(n[3])
        return 1
    return sum(cnt(r[1]) for r in gj["rules"])


def run_grammar(job: dict) -> dict:
    """job: {idx, spec, depth, limit, cap|None, slices: [[keep…], ignore_receivers]…}"""
    t0 = time.time()
    from harness.impl.grammar_io import NotModelled, grammar_to_json, parse_spec
    from harness.impl import proto_real as pr
    import fandango.language.grammar.nodes as nodes
    res: dict = {"idx": job["idx"], "spec": job["spec"], "skipped": None, "slices": []}
    old_cap = nodes.MAX_REPETITIONS
    try:
        grammar, _ = parse_spec(job["spec"])
        gj, _ = grammar_to_json(grammar)
        if job.get("cap") is not None:
            nodes.MAX_REPETITIONS = job["cap"]
        cap = nodes.MAX_REPETITIONS
        res["cap_in_force"] = cap
        ans = driver_ask("drv_proto", [{"op": "enum", "grammar": gj, "start": "<start>",
                                        "depth": job["depth"], "limit": job["limit"]}])[0]
        res["certs"] = ans["certs"]
        res["nullable_head_in_open_rep"] = nullable_head_in_open_rep(gj)
        if not (ans["certs"]["rank_ok"] and ans["certs"]["productive"] and ans["certs"]["msg_only"]):
            res["skipped"] = "hypotheses: " + json.dumps(ans["certs"])
            return res
        res["truncated"] = ans["truncated"]
        res["n_prefixes"] = len(ans["cases"])
        res["n_complete"] = sum(1 for c in ans["cases"] if c["complete"])
        res["max_positions"] = max((c["positions"] for c in ans["cases"]), default=0)
        res["explore"] = explore(grammar, ans["cases"], has_nullable_nt=nullable_nt(gj), grammar_nodes=ir_nodes(gj),
                                 tree_budget=job.get("tree_budget", 10 ** 9))
        # ---- slicing
        for keep, ign in job.get("slices", []):
            sres: dict = {"keep": keep, "ignore_receivers": ign}
            sliced = pr.real_slice(job["spec"], keep, ign)
            sgj, _ = grammar_to_json(sliced)
            mj = driver_ask("drv_proto", [{"op": "slice", "grammar": gj, "start": "<start>", "keep": keep,
                                           "ignore_receivers": ign, "real": sgj}])[0]
            # real slice_parties == model sliceG, rule by rule (node ids included), on the whole grammar ...
            sres["rules_equal"] = pr.canon_rules(sgj) == pr.canon_rules(mj["grammar"])
            if not sres["rules_equal"]:
                a, b = pr.canon_rules(sgj), pr.canon_rules(mj["grammar"])
                sres["real_rules"] = [x for x in a if x not in b][:3]
                sres["model_rules"] = [x for x in b if x not in a][:3]
            # ... and on the message level (the grammar the forecaster sees; the grammar of C19_slice_commutes)
            sres["msglevel_equal"] = pr.canon_rules(mj["real_msglevel"]) == pr.canon_rules(mj["msglevel_sliced"])
            if not sres["msglevel_equal"]:
                a, b = pr.canon_rules(mj["real_msglevel"]), pr.canon_rules(mj["msglevel_sliced"])
                sres["real_rules"] = [x for x in a if x not in b][:3]
                sres["model_rules"] = [x for x in b if x not in a][:3]
            sres["slice_cert"] = mj["cert"]
            sres["rules_deleted"] = len(gj["rules"]) - len(sgj["rules"])
            has_start = any(r[0] == "<start>" for r in sgj["rules"])
            sres["start_kept"] = has_start

            def vis(m):
                if ign:
                    return m[0] in keep
                return m[1] is None or m[0] in keep or m[1] in keep
            if has_start:
                sans = driver_ask("drv_proto", [{"op": "enum", "grammar": sgj, "start": "<start>",
                                                 "depth": job["depth"], "limit": job["limit"]}])[0]
                sres["certs"] = sans["certs"]
                if sans["certs"]["rank_ok"] and sans["certs"]["productive"] and sans["certs"]["msg_only"]:
                    sres["explore"] = explore(sliced, sans["cases"], check_complete_trees=True,
                                              has_nullable_nt=nullable_nt(sgj), grammar_nodes=ir_nodes(sgj),
                                              tree_budget=job.get("tree_budget", 10 ** 9))
                    # visible part of a prefix of G is a prefix of the sliced spec; of an interaction, an interaction
                    proj: dict[tuple, bool] = {}
                    for c in ans["cases"]:
                        p = tuple(tm(j) for j in c["h"] if vis(tm(j)))
                        proj[p] = proj.get(p, False) or c["complete"]
                    hs = sorted(proj.keys())
                    pans = driver_ask("drv_proto", [{"op": "forecast", "grammar": sgj, "start": "<start>",
                                                     "histories": [[jm(m) for m in p] for p in hs]}])[0]
                    bad = []
                    for p, c in zip(hs, pans["cases"]):
                        if not c["prefix"] or (proj[p] and not c["complete"]):
                            bad.append({"projected": [jm(m) for m in p], "prefix_in_sliced": c["prefix"],
                                        "complete_in_G": proj[p], "complete_in_sliced": c["complete"]})
                    sres["projection_checked"] = len(hs)
                    sres["projection_bad"] = bad[:5]
                    sres["projection_bad_n"] = len(bad)
                elif not sans["certs"]["rank_ok"] and sans["certs"]["msg_only"]:
                    # the spec has no left recursion (checked above), its slice has
                    sres["leftrec_probe"] = probe_sliced_leftrec(sliced, ans["cases"], vis)
            res["slices"].append(sres)
    except NotModelled as e:
        res["skipped"] = "not modelled: " + str(e)
    except MachineryError:
        raise
    except Exception as e:  # noqa
        res["skipped"] = None
        res["crash"] = type(e).__name__ + ": " + str(e)[:300]
        res["tb"] = traceback.format_exc()[-1500:]
    finally:
        nodes.MAX_REPETITIONS = old_cap
    res["wall"] = round(time.time() - t0, 2)
    return res


# ------------------------------------------------------------------------------------------------
# job generation
# ------------------------------------------------------------------------------------------------

CORPUS = [
    # the witness of Props/C19.lean: C19_code_offers_non_continuation
    ("star-of-sequence", "<start> ::= (<Fz:Ex:m0> <Ex:Fz:m1>)* <Fz:Ex:m2>\n", ["m0", "m1", "m2"], ["Fz", "Ex"]),
    ("tests/resources/forecaster.fan shape",
     "<start> ::= <a>\n<a> ::= <b> <Fz:Ex:m2>{1,2} <f>\n<b> ::= <Fz:Ex:m0>? <Fz:Ex:m1>*\n"
     "<f> ::= <Fz:Ex:m3> | <h>\n<h> ::= <Ex:Fz:m4>\n", ["m0", "m1", "m2", "m3", "m4"], ["Fz", "Ex"]),
    ("smtp-style right recursion",
     "<start> ::= <Ex:Fz:m0> <st>\n<st> ::= <Fz:Ex:m1> (<Ex:Fz:m2> <st> | <Ex:Fz:m3> <end>) | <Fz:Ex:m4> <Ex:Fz:m2>\n"
     "<end> ::= <Fz:Ex:m4>?\n", ["m0", "m1", "m2", "m3", "m4"], ["Fz", "Ex"]),
    ("nullable start", "<start> ::= <Fz:Ex:m0>?\n", ["m0"], ["Fz", "Ex"]),
    ("bounded repetition of a sequence", "<start> ::= (<Fz:Ex:m0> <Ex:Fz:m1>){1,2} <Fz:Ex:m2>\n",
     ["m0", "m1", "m2"], ["Fz", "Ex"]),
    ("same type, two recipients", "<start> ::= (<Fz:Ex:m0> | <Fz:Th:m0>) <Ex:Fz:m1>\n", ["m0", "m1"],
     ["Fz", "Ex", "Th"]),
    ("same type, both directions", "<start> ::= (<Fz:Ex:m0> | <Ex:Fz:m0>) <Ex:Fz:m0>? <Fz:Ex:m1>\n", ["m0", "m1"],
     ["Fz", "Ex"]),
    # the witnesses of Props/C19.lean: C19_slice_drops_invisible_alternative, C19_slice_removes_first_equal
    ("invisible alternative", "<start> ::= <Fz:Ex:m0> (<Ex:Th:m1> | <Fz:Ex:m2>)\n", ["m0", "m1", "m2"],
     ["Fz", "Ex", "Th"]),
    ("same type visible and invisible", "<start> ::= (<Th:Fz:m1> | <Ex:Th:m1> | <Fz:Ex:m2>)\n", ["m1", "m2"],
     ["Fz", "Ex", "Th"]),
    # slice_parties in several rounds: <y> is deleted in the first, <x> in the second, the reference to <x> in the third
    ("helper rules invisible to Fz, three rounds",
     "<start> ::= <Fz:Ex:m0> <x> (<Ex:Th:m1> | <Fz:Ex:m2> | <y>)* <z>{1,2}\n<x> ::= <Ex:Th:m1> <y>\n<y> ::= <Th:Ex:m3>?\n"
     "<z> ::= <Ex:Th:m1> | <Th:Fz:m4> <y>\n", ["m0", "m1", "m2", "m3", "m4"], ["Fz", "Ex", "Th"]),
    # slicing a right-recursive loop of invisible messages leaves a unit cycle `<s1> ::= <s1> | ...` (finding F53)
    ("right-recursive loop invisible to Fz",
     "<start> ::= <Fz:Ex:m2> <s1> <Fz:Ex:m3>\n<s1> ::= <Ex:Th:m0> <s1> | <Fz:Ex:m1> | <Th:Ex:m4> <s2>\n"
     "<s2> ::= <Ex:Th:m0> <s1> | <Fz:Ex:m3>\n", ["m0", "m1", "m2", "m3", "m4"], ["Fz", "Ex", "Th"]),
    ("computed-free nesting: option inside bounded repetition inside star",
     "<start> ::= (<Fz:Ex:m0> (<Ex:Fz:m1> <Fz:Ex:m2>?){1,2})* <Ex:Fz:m3>\n", ["m0", "m1", "m2", "m3"], ["Fz", "Ex"]),
]


def corpus_spec(body: str, types: list[str], parties: list[str]) -> str:
    from harness.gen.protocols import content_rules, party_classes
    return body + content_rules(types) + "\n\n" + party_classes(parties, parties) + "\n"


def make_jobs(run: Run, tier: str) -> list[dict]:
    from harness.gen.protocols import ProtoGen, hide_helper, spec_text
    rng = run.rng("grammars")
    n = 110 if tier == "quick" else 600
    depth = 6 if tier == "quick" else 8
    limit = 300 if tier == "quick" else 900
    tree_budget = 120_000 if tier == "quick" else 1_500_000
    jobs = []
    for name, body, types, parties in CORPUS:
        slices = []
        if len(parties) == 3:
            slices = [[["Fz"], False], [["Fz", "Th"], False], [["Fz"], True]]
        jobs.append({"idx": len(jobs), "name": name, "spec": corpus_spec(body, types, parties), "depth": depth + 1,
                     "limit": limit, "cap": None, "slices": slices, "tree_budget": tree_budget})
    # minimised past disagreements (corpus/C19/*.json: replay files), run first like the hand-written specs
    for f in sorted((VERIF / "corpus" / "C19").glob("*.json")):
        rp = json.loads(f.read_text())
        if rp.get("kind") in ("forecast", "slice") and rp.get("spec"):
            jobs.append({"idx": len(jobs), "name": "corpus/" + f.name, "spec": rp["spec"], "depth": rp.get("depth", depth),
                         "limit": rp.get("limit", limit), "cap": rp.get("cap"), "slices": rp.get("slices", []),
                         "tree_budget": tree_budget})
    class FixedPairs(ProtoGen):
        """every message type travels between ONE pair of parties - the shape of the protocol specs in docs/
        (FTP, SMTP, DNS); the unrestricted generator lets a type occur with several pairs, which puts most
        histories into the class of the open finding `party-ambiguous-type-in-history`"""

        def __init__(self, *a, **kw):
            super().__init__(*a, **kw)
            self.pair_of = {t: self.rng.choice(self.pairs) for t in self.types}

        def msg(self):
            t = self.rng.choice(self.types)
            s, r = self.pair_of[t]
            return ("msg", s, r, t)

    for i in range(n):
        n_parties = rng.choice([2, 2, 3])
        cls = FixedPairs if rng.random() < 0.7 else ProtoGen
        gen = cls(rng, n_parties=n_parties, n_types=rng.choice([2, 3, 4, 5]), n_nts=rng.choice([0, 1, 2, 3]),
                  max_depth=rng.choice([2, 3, 3]))
        g = gen.grammar()
        slices = []
        hidden = None
        if n_parties == 3 and rng.random() < 0.3:
            # a helper nonterminal whose messages are invisible to Fz: slice_parties deletes rules, several rounds
            hidden = hide_helper(g, rng, ["Ex", "Th"])
        if hidden is not None:
            slices.append([["Fz"], rng.random() < 0.25])
        elif n_parties == 3 and rng.random() < 0.8:
            keep = rng.choice([["Fz"], ["Fz", "Ex"], ["Ex"], ["Fz", "Th"], ["Th"]])
            slices.append([keep, rng.random() < 0.25])
        elif n_parties == 2 and rng.random() < 0.15:
            slices.append([["Fz"], True])
        cap = 3 if rng.random() < 0.08 else None
        jobs.append({"idx": len(jobs), "name": f"gen{i}", "spec": spec_text(g), "depth": depth, "limit": limit,
                     "cap": cap, "slices": slices, "fixed_pairs": cls is FixedPairs, "tree_budget": tree_budget})
    if os.environ.get("VERIF_C19_JOBS"):      # development only (seeded-change trials on a private worktree)
        jobs = jobs[:int(os.environ["VERIF_C19_JOBS"])]
    return jobs


# ------------------------------------------------------------------------------------------------
# fixed probes on the real code
# ------------------------------------------------------------------------------------------------

COMPUTED_SPEC = ("<start> ::= <Fz:Ex:n> <Ex:Fz:item>{int(<n>)} <Fz:Ex:c>\n<n> ::= '2'\n<item> ::= 'i'\n<c> ::= 'c'\n")


def probe_computed_repetition() -> dict:
    """a computed repetition at message level: forecast after the first message"""
    from harness.gen.protocols import party_classes
    from harness.impl.grammar_io import parse_spec
    from harness.impl import proto_real as pr
    from fandango.io.navigation.packetforecaster import PacketForecaster
    spec = COMPUTED_SPEC + "\n" + party_classes(["Fz", "Ex"], ["Fz", "Ex"])
    grammar, _ = parse_spec(spec)
    fc = PacketForecaster(grammar)
    t = pr.start_tree()
    trace = []
    want = [[("Fz", "Ex", "<n>")], [("Ex", "Fz", "<item>")], [("Ex", "Fz", "<item>")], [("Fz", "Ex", "<c>")], []]
    vals = {"<n>": "2", "<item>": "i", "<c>": "c"}
    for step in range(5):
        try:
            opts, comp, _ = pr.real_predict(fc, t)
        except Exception as e:  # noqa
            return {"ok": False, "spec": spec, "step": step, "error": type(e).__name__ + ": " + str(e)[:120],
                    "history": [jm(m) for m in pr.history_of(t)], "trace": trace}
        got = sorted(opts.keys())
        trace.append([jm(m) for m in got])
        if got != want[step]:
            return {"ok": False, "spec": spec, "step": step, "error": None, "got": [jm(m) for m in got],
                    "want": [jm(m) for m in want[step]], "history": [jm(m) for m in pr.history_of(t)]}
        if not got:
            return {"ok": comp, "spec": spec, "step": step, "error": None if comp else "not complete at the end",
                    "history": [jm(m) for m in pr.history_of(t)]}
        m = got[0]
        t = pr.mount(next(iter(opts[m].paths)), m, vals[m[2]])
    return {"ok": True, "spec": spec}


def probe_open_cap() -> dict:
    """`<a>* <c>`: after MAX_REPETITIONS iterations (and one more) the grammar, the parser and - since 07eb1fdf -
    the visitor still allow `<a>` (`C19_rep_bound_code`; the old rule: `C19_OLD_RULE_open_bound_is_cap`).  Regression
    probe of the fixed finding F43: `<a>` not offered is a violation."""
    from harness.gen.protocols import content_rules, party_classes
    from harness.impl.grammar_io import parse_spec
    from harness.impl import proto_real as pr
    from fandango.io.navigation.packetforecaster import PacketForecaster
    import fandango.language.grammar.nodes as nodes
    spec = "<start> ::= <Fz:Ex:m0>* <Ex:Fz:m1>\n" + content_rules(["m0", "m1"]) + "\n" + \
        party_classes(["Fz", "Ex"], ["Fz", "Ex"])
    grammar, _ = parse_spec(spec)
    fc = PacketForecaster(grammar)
    cap = nodes.MAX_REPETITIONS
    t = pr.start_tree()
    a = ("Fz", "Ex", "<m0>")
    for k in range(cap + 2):
        opts, comp, _ = pr.real_predict(fc, t)
        if a not in opts:
            return {"ok": False, "spec": spec, "iterations": k, "cap": cap, "offered": [jm(m) for m in sorted(opts)],
                    "at_cap": k == cap}
        t = pr.mount(next(iter(opts[a].paths)), a, "m0;")
    return {"ok": True, "spec": spec, "cap": cap}


def _probe(name: str) -> dict:
    _init_worker()
    try:
        return {"computed": probe_computed_repetition, "cap": probe_open_cap}[name]()
    except Exception as e:  # noqa
        return {"ok": False, "crash": type(e).__name__ + ": " + str(e)[:200], "tb": traceback.format_exc()[-1200:]}


# ------------------------------------------------------------------------------------------------
# classification / reporting
# ------------------------------------------------------------------------------------------------

def classify(rec: dict, nullable_head: bool = False) -> tuple[Optional[str], Optional[str], bool]:
    """-> (property signature | None, what, correspondence_broken).

    `real` is compared with the verified forecaster `nexts` (the property) and with the model of the code
    `code` (correspondence).  A difference real/nexts that the model of the code reproduces is attributed to
    the modelled cause.  Two causes sit outside the Lean model of the code and are recognised here:
    options that differ in the recipient only are merged by `ForecastingNonTerminals` (keyed by symbol), and
    the type-level prefix parse does not return every derivation of a type-ambiguous history."""
    if rec.get("kind") == "parser-unbounded":
        return (SIG_PARSER_UNBOUNDED if nullable_head else SIG_PARSER_UNBOUNDED_OTHER,
                f"predict after {rec['h']}: the prefix parse (IterativeParser, ParsingMode.INCOMPLETE) exceeded its step "
                f"budget inside the parser ({rec.get('trees')} partial trees yielded, the largest with {rec.get('max_tree_size')} "
                f"nodes where a tree of this history has at most {rec.get('size_bound')}; {rec.get('adds')} states admitted; "
                f"budgets {MAX_PARTIAL_TREES}/{MAX_ADMISSIONS}) - the parser-termination defect of C06, reached through "
                f"PacketForecaster.predict", False)
    if rec.get("kind") == "wallclock":
        return ("wallclock", f"predict after {rec['h']} did not return within {PREDICT_TIMEOUT_S}s although the parser "
                f"stayed inside its step budgets ({rec.get('trees')} trees, {rec.get('adds')} admissions)", False)
    if rec.get("kind") == "call-order":
        return ("C19/forecast-depends-on-earlier-calls",
                f"one PacketForecaster asked {rec['sequence']} in this order answers the history {rec['h']} with "
                f"{rec['same_forecaster']} (complete={rec['complete_same']}); a brand-new forecaster answers "
                f"{rec['fresh_forecaster']} (complete={rec['complete_fresh']})", False)
    if rec.get("kind") == "visitor-tree":
        return ("C19/visitor-model-differs-on-a-tree",
                f"PathFinder.forecast on a partial tree of the history {rec['h']} with right spine {rec['spine']} offers "
                f"{rec['real_tree_options']}, the model of the visitor {rec['model_tree_options']}", True)
    if rec.get("kind") == "mount":
        return SIG_MOUNT, f"mounting {rec['mount']} after {rec['h']}: {rec.get('error') or rec.get('got')}", False
    if rec.get("kind") in ("complete-tree-invalid", "complete-tree-history"):
        return SIG_COMPLETE, f"complete tree for {rec['h']} rejected ({rec['kind']}): {rec.get('bad', rec.get('got'))}", False
    real, nx, code = rec["real"], rec["nexts"], rec["code"]

    def by_sender_type(ms):
        return sorted({(m[0], m[2]) for m in ms})
    # real = code up to the merge of options that differ in the recipient only
    merged = real != code and all(m in code for m in real) and by_sender_type(real) == by_sender_type(code)
    # the history contains a message type that labels two or more message atoms: the prefix parse runs on types
    # only, so the chart holds derivations that do not exist at message level; predict then either loses the
    # right derivation (the parser returns one tree per ambiguity) or walks a tree stitched together from two
    # derivations (an unfinished node force-completed next to a sibling predicted by another derivation)
    lost = real != code and not merged and rec.get("type_ambiguous", False)
    # (F40 - histories with a party-ambiguous type - no longer reproduces since ebdb490d: no exemption any more;
    # `lost` only names the class in the message)
    corr = (real != code and not merged) or rec["real_complete"] != rec["code_complete"]
    sig = what = None
    if real != nx:
        extra = [m for m in real if m not in nx]
        missing = [m for m in nx if m not in real]
        what = (f"after {rec['h']} the forecaster offers {real}, the continuations are {nx} "
                f"(extra {extra}, missing {missing})")
        if not real and rec.get("parser_no_partial_tree"):
            # predict() walks the partial trees of the prefix parse; asked directly, the real IterativeParser yields
            # NO partial tree for this valid prefix: a parser completeness defect (C05 domain), not a forecasting one
            sig, corr = SIG_PARSER_PREFIX, False
            what += " - the real IterativeParser, asked directly in ParsingMode.INCOMPLETE, yields no partial tree"
        elif extra and rec.get("walked_trees_not_pd") and rec.get("pd_trees_give_nexts") \
                and rec.get("extras_only_from_non_pd_trees"):
            # the model of the visitor is right on every walked tree, the walked trees that ARE partial derivations of the
            # history give exactly the continuations, every extra option comes from a tree that is none (verified
            # checker pdB): the prefix parse handed over a tree in which a node left of the right spine is unfinished
            sig, corr = SIG_SPURIOUS_TREE, False
            what += (f" - {rec['walked_trees_not_pd']} of the {rec['walked_trees']} partial trees the prefix parse handed to the "
                     f"visitor are not partial derivations of the history (a sibling follows an unfinished node); the others "
                     f"give exactly the continuations")
        elif lost:
            sig = SIG_AMBIG
        elif extra:
            sig = SIG_GENERIC
        elif merged:
            sig = SIG_MERGE
        elif all(any(r[0] == m[0] and r[2] == m[2] for r in real) for m in missing) and code == nx:
            sig = SIG_MERGE
        else:
            sig = SIG_GENERIC
    elif rec["real_complete"] != rec["complete"]:
        what = (f"history {rec['h']} reported complete={rec['real_complete']}, "
                f"it is a full interaction: {rec['complete']}")
        if not rec["h"] and rec["complete"] and not rec["real_complete"]:
            sig = SIG_EMPTY
        elif rec.get("type_ambiguous") and not rec["real_complete"]:
            sig = SIG_AMBIG
        elif rec["complete"] and not rec["real_complete"] and rec.get("parser_rejects"):
            # predict() only relays the parser's verdict; asked directly (COMPLETE mode, same reduced grammar, same
            # word of message types) the real IterativeParser rejects this word of the language: a parser
            # completeness defect (C05 domain), not a forecasting one
            sig, corr = SIG_NULLTAIL, False
            what += " - the real IterativeParser, asked directly in ParsingMode.COMPLETE, rejects the history"
        else:
            sig = SIG_COMPLETE
    return sig, what, corr


def replay(path: str) -> int:
    use_repo()
    warnings.simplefilter("ignore")
    rp = json.load(open(path))
    kind = rp.get("kind")
    if kind == "probe":
        r = _probe(rp["probe"])
        print(json.dumps({k: v for k, v in r.items() if k != "spec"}, indent=1))
        print("replay:", "no violation on the current tree" if r.get("ok") else "property violated")
        return 0 if r.get("ok") else 1
    if kind in ("forecast", "slice"):
        job = {"idx": 0, "spec": rp["spec"], "depth": rp.get("depth", 6), "limit": rp.get("limit", 400),
               "cap": rp.get("cap"), "slices": rp.get("slices", []), "tree_budget": rp.get("tree_budget", 10 ** 9)}
        res = run_grammar(job)
        bad = []
        if res.get("crash"):
            print("crash:", res["crash"])
            bad.append("crash")
        nh = res.get("nullable_head_in_open_rep", False)
        for rec in (res.get("explore") or {}).get("mismatch", []):
            sig, what, corr = classify(rec, nh)
            if sig and sig != "wallclock":
                bad.append(what)
        for e in (res.get("explore") or {}).get("errors", []):
            bad.append("predict raised " + e["error"] + " after " + json.dumps(e["h"]))
        for s in res.get("slices", []):
            if not s.get("rules_equal", True) or not s.get("msglevel_equal", True):
                bad.append(f"slice_parties(keep={s['keep']}) differs from the model: real {s.get('real_rules')} "
                           f"model {s.get('model_rules')}")
            for rec in (s.get("explore") or {}).get("mismatch", []):
                sig, what, corr = classify(rec, nh)
                if sig and sig != "wallclock":
                    bad.append(f"[sliced to {s['keep']}] " + what)
            if s.get("projection_bad_n"):
                bad.append(f"[sliced to {s['keep']}] visible part of a prefix is not a prefix of the sliced spec: "
                           + json.dumps(s["projection_bad"][:2]))
            lp = s.get("leftrec_probe")
            if lp and lp["raised"]:
                bad.append(f"[sliced to {s['keep']}, left-recursive slice] predict raised {lp['raised']['error']} after "
                           f"{lp['raised']['h']}")
            if lp and lp["missing"]:
                bad.append(f"[sliced to {s['keep']}, left-recursive slice] options missing: " + json.dumps(lp["missing"][:1]))
        for b in bad[:12]:
            print("FAILS:", b)
        print("replay:", "property violated" if bad else "no violation on the current tree")
        return 1 if bad else 0
    print("replay file names no concrete input:", rp.get("what"))
    return 1


def main(tier: str) -> int:
    run = Run(PID, tier, "proof")
    load_known(run)
    use_repo()
    warnings.simplefilter("ignore")
    from harness import translate_proto
    tr = translate_proto.regenerate()      # -> lean/Generated/Proto.lean (obligation C19_source_configuration)
    run.coverage["translator"] = tr
    run.count("translator_refusals", len(tr["refusals"]))
    lean = lean_check("Props.C19", ["drv_proto", "drv_ir"])
    jobs = make_jobs(run, tier)
    workers = min(16, os.cpu_count() or 4)
    budget = 220 if tier == "quick" else 1300     # backstop only; the work per grammar is bounded in steps (tree_budget)
    corr_failures: list = []
    slice_corr: list = []
    results: list[dict] = []
    reported: set = set()

    def report_once(sig: str, what: str, rp: dict, **kw) -> None:
        """one line per signature (every further hit is only counted)"""
        if sig in reported:
            return
        reported.add(sig)
        run.report(sig, what, rp, **kw)
    with ProcessPoolExecutor(max_workers=workers, initializer=_init_worker) as pool:
        probes = {name: pool.submit(_probe, name) for name in ("computed", "cap")}
        futs = {pool.submit(run_grammar, j): j for j in jobs}
        try:
            for f in as_completed(futs, timeout=budget):
                results.append(f.result())
        except TimeoutError:
            for f in futs:
                f.cancel()
            run.count("jobs_cut_by_budget", sum(1 for f in futs if not f.done()))
            for proc in list(getattr(pool, "_processes", {}).values()):   # a stuck worker must not block the exit
                try:
                    proc.kill()
                except Exception:  # noqa
                    pass
        probe_res = {}
        for name, f in probes.items():
            try:
                probe_res[name] = f.result(timeout=120)
            except Exception as e:  # noqa
                raise MachineryError(f"probe {name} did not finish: {e}")
    results.sort(key=lambda r: r["idx"])
    by_idx = {j["idx"]: j for j in jobs}

    # ---- probes
    pc = probe_res["computed"]
    if pc.get("crash"):
        raise MachineryError("computed-repetition probe crashed in the harness: " + pc["crash"] + pc.get("tb", ""))
    run.count("probe_computed_ok" if pc["ok"] else "probe_computed_fails")
    if not pc["ok"]:
        report_once(SIG_COMPUTED,
                   f"computed repetition at message level: predict after {pc.get('history')} "
                   f"{'raised ' + pc['error'] if pc.get('error') else 'offered ' + str(pc.get('got')) + ' instead of ' + str(pc.get('want'))}",
                   {"kind": "probe", "probe": "computed", "spec": pc["spec"], "detail": {k: v for k, v in pc.items() if k != "spec"}})
    pk = probe_res["cap"]
    if pk.get("crash"):
        raise MachineryError("cap probe crashed in the harness: " + pk["crash"] + pk.get("tb", ""))
    run.count("probe_cap_ok" if pk["ok"] else "probe_cap_fails")
    if not pk["ok"]:
        run.count("violations:" + SIG_CAP)
        report_once(SIG_CAP,
                   f"`<m0>* <m1>`: after {pk['iterations']} iterations (MAX_REPETITIONS={pk['cap']}) `<m0>` is no longer "
                   f"offered although it can follow (F43, fixed by 07eb1fdf, is back); offered: {pk['offered']}",
                   {"kind": "probe", "probe": "cap", "spec": pk["spec"]})

    # ---- grammars
    skipped = 0
    for r in results:
        job = by_idx[r["idx"]]
        if r.get("crash"):
            raise MachineryError(f"job {job['name']} crashed: {r['crash']}\n{r.get('tb', '')}\n{job['spec']}")
        if r.get("skipped"):
            skipped += 1
            run.count("skipped:" + r["skipped"].split(":")[0])
            continue
        ex = r["explore"]
        run.count("grammars")
        run.count("grammars_within_C19_code_forecast_initial(walkCert)", 1 if r["certs"].get("walk_cert") else 0)
        run.count("prefixes", r["n_prefixes"])
        run.count("complete_histories", r["n_complete"])
        run.count("predict_calls", ex["predicts"])
        run.count("call_order_probe_calls(one forecaster vs a fresh one)", ex.get("order_probe_calls", 0))
        run.count("predict_calls_on_type_ambiguous_histories", ex.get("predicts_type_ambiguous", 0))
        run.count("mounts", ex["mounts"])
        run.count("max_partial_trees_of_one_prefix_parse", 0)
        run.counters["max_partial_trees_of_one_prefix_parse"] = max(
            run.counters.get("max_partial_trees_of_one_prefix_parse", 0), ex.get("max_trees", 0))
        run.counters["max_admissions_of_one_prefix_parse"] = max(
            run.counters.get("max_admissions_of_one_prefix_parse", 0), ex.get("max_adds", 0))
        if job.get("fixed_pairs"):
            run.count("grammars_with_one_party_pair_per_type")
        run.count("complete_trees_validated", ex["complete_trees"])
        run.count("truncated_enumerations", 1 if r["truncated"] else 0)
        run.count("ambiguous(>1 partial derivation)", 1 if r["max_positions"] > 1 else 0)
        if job.get("cap") is not None:
            run.count("grammars_with_cap_3")
        spec_head = job["spec"].split("class ")[0].strip()
        nontrivial = r["n_prefixes"] >= 4
        run.case({"spec": spec_head}, nontrivial, {"spec": spec_head, "prefixes": r["n_prefixes"],
                                                   "complete": r["n_complete"]})
        run.evaluations += max(0, ex["predicts"] - 1)
        base_replay = {"kind": "forecast", "spec": job["spec"], "depth": job["depth"], "limit": job["limit"],
                       "cap": job.get("cap"), "tree_budget": job.get("tree_budget")}
        for e in ex["errors"]:
            report_once(SIG_GENERIC + "/raises", f"predict raised {e['error']} after {e['h']}",
                       dict(base_replay, history=e["h"], traceback=e.get("tb")))
        nh = r.get("nullable_head_in_open_rep", False)
        run.count("timeouts", ex.get("timeouts", 0))
        run.count("walked_partial_trees_checked(spine -> verified checker pdB + model of the visitor)",
                  ex.get("walked_trees_checked", 0))
        run.count("walked_partial_trees_that_are_no_partial_derivation(PositionsExact.sound fails for the parser)",
                  ex.get("walked_trees_not_partial_derivations", 0))
        run.count("walked_partial_derivations_the_model_positions_do_not_list", ex.get("walked_pd_trees_outside_model_positions", 0))
        run.count("spine_extraction_failed", ex.get("spine_errors", 0))
        run.count("prefixes_skipped(tree budget of the exploration used up)", ex.get("cases_skipped_tree_budget", 0))
        run.count("prefix_parse_exponentially_ambiguous(skipped,not judged)", ex.get("too_ambiguous", 0))
        for rec in ex["mismatch"]:
            sig, what, corr = classify(rec, nh)
            if sig == "wallclock":
                # the wall-clock backstop fired while the parser was inside its step budgets: the machine is
                # overloaded or the walk is slow - inconclusive, counted, not judged (never a violation)
                run.count("predict_wallclock_backstop_fired")
                continue
            if sig in (SIG_PARSER_UNBOUNDED, SIG_PARSER_UNBOUNDED_OTHER):
                run.count("prefix_parse_over_step_budget(parser,C06)")
            if corr:
                corr_failures.append({"spec": spec_head, **{k: rec.get(k) for k in ("h", "real", "code", "real_complete", "code_complete")}})
            if sig:
                run.count("violations:" + sig)
                report_once(sig, what, dict(base_replay, history=rec.get("h"), record=rec))
        for s in r["slices"]:
            run.count("slices")
            if not s["rules_equal"] or not s["msglevel_equal"]:
                run.count("slice_rules_differ")
                slice_corr.append({"spec": spec_head, "keep": s["keep"], "ignore_receivers": s["ignore_receivers"],
                                   "real": s.get("real_rules"), "model": s.get("model_rules")})
                report_once(SIG_SLICE, f"slice_parties(keep={s['keep']}, ignore_receivers={s['ignore_receivers']}) differs "
                           f"from the model sliceG ({'whole grammar' if not s['rules_equal'] else 'message level'}): "
                           f"real {s.get('real_rules')} model {s.get('model_rules')}",
                           dict(base_replay, kind="slice", slices=[[s["keep"], s["ignore_receivers"]]]),
                           no_input=True)     # correspondence; a property failure on it is reported by the projection check
            run.count("slices_that_delete_rules(>1 round)", 1 if s.get("rules_deleted") else 0)
            run.count("slices_within_C19_slice_commutes(sliceCert)" if s.get("slice_cert") else
                      "slices_outside_C19_slice_commutes(sliceCert fails)")
            if not s.get("start_kept"):
                run.count("slice_deleted_start")
                continue
            lp = s.get("leftrec_probe")
            if lp is not None:
                run.count("slices_left_recursive(spec is not)")
                run.count("sliced_predict_calls", lp["predicts"])
                sl_replay = dict(base_replay, kind="slice", slices=[[s["keep"], s["ignore_receivers"]]])
                if lp["raised"] and lp["raised"]["error"].startswith("RecursionError"):
                    run.count("violations:" + SIG_SLICE_LEFTREC)
                    report_once(SIG_SLICE_LEFTREC,
                               f"sliced to {s['keep']} (ignore_receivers={s['ignore_receivers']}) the spec has a unit/left "
                               f"recursion at message level that the spec itself does not have (a right-recursive loop of "
                               f"invisible messages became `<s> ::= <s> | ...`); predict on the sliced spec after "
                               f"{lp['raised']['h']} raises {lp['raised']['error']}",
                               dict(sl_replay, history=lp["raised"]["h"]))
                elif lp["raised"]:
                    report_once(SIG_GENERIC + "/raises", f"[sliced to {s['keep']}, left-recursive] predict raised "
                               f"{lp['raised']['error']} after {lp['raised']['h']}", dict(sl_replay, history=lp["raised"]["h"]))
                for miss in lp["missing"][:1]:
                    if miss["missing"] and all(any(r[0] == m[0] and r[2] == m[2] for r in miss["real"])
                                               for m in miss["missing"]):
                        # every missing option is offered to ANOTHER recipient: ForecastingNonTerminals is keyed by
                        # the message symbol (open finding F39), here reached on a sliced spec
                        run.count("violations:" + SIG_MERGE)
                        report_once(SIG_MERGE, f"[sliced to {s['keep']}, left-recursive] after the visible history "
                                   f"{miss['h']} the forecaster offers {miss['real']}; {miss['missing']} can follow "
                                   f"(same sender and type offered to another recipient only)",
                                   dict(sl_replay, history=miss["h"]))
                        continue
                    run.count("violations:" + SIG_SLICE_ALT)
                    report_once(SIG_SLICE_ALT + "/left-recursive-slice",
                               f"[sliced to {s['keep']}, left-recursive] after the visible history {miss['h']} the forecaster "
                               f"offers {miss['real']}; {miss['missing']} can follow (visible part of an enumerated prefix "
                               f"of the spec)", dict(sl_replay, history=miss["h"]))
                continue
            if "explore" not in s:
                run.count("slice_skipped_hypotheses")
                continue
            sx = s["explore"]
            run.count("sliced_predict_calls", sx["predicts"])
            run.count("prefixes_skipped(tree budget of the exploration used up)", sx.get("cases_skipped_tree_budget", 0))
            run.evaluations += sx["predicts"]
            for e in sx["errors"]:
                report_once(SIG_GENERIC + "/raises", f"[sliced to {s['keep']}] predict raised {e['error']} after {e['h']}",
                           dict(base_replay, kind="slice", slices=[[s["keep"], s["ignore_receivers"]]], history=e["h"]))
            for rec in sx["mismatch"]:
                sig, what, corr = classify(rec, nh)
                if sig == "wallclock":
                    run.count("predict_wallclock_backstop_fired")
                    continue
                if corr:
                    corr_failures.append({"spec": spec_head, "sliced": s["keep"], **{k: rec.get(k) for k in ("h", "real", "code")}})
                if sig:
                    run.count("violations:" + sig)
                    report_once(sig, f"[sliced to {s['keep']}] " + what,
                               dict(base_replay, kind="slice", slices=[[s["keep"], s["ignore_receivers"]]], history=rec.get("h")))
            run.count("projected_prefixes_checked", s.get("projection_checked", 0))
            if s.get("projection_bad_n"):
                run.count("violations:" + SIG_SLICE_ALT)
                report_once(SIG_SLICE_ALT,
                           f"sliced to {s['keep']} (ignore_receivers={s['ignore_receivers']}): the visible part of a prefix / "
                           f"interaction of the spec is not a prefix / interaction of the sliced spec: {s['projection_bad'][:2]}",
                           dict(base_replay, kind="slice", slices=[[s["keep"], s["ignore_receivers"]]]))
    if results and skipped > len(results) * 0.25:
        raise MachineryError(f"{skipped}/{len(results)} generated grammars fail the model's hypotheses — generator broken")
    if len(results) < max(5, len(jobs) // 3):
        raise MachineryError(f"only {len(results)}/{len(jobs)} grammars finished within the budget")

    run.coverage["traces_validated_against_impl"] = run.counters.get("predict_calls", 0) + run.counters.get("sliced_predict_calls", 0)
    run.coverage["correspondence_disagreements"] = len(corr_failures)
    run.coverage["slice_correspondence_disagreements"] = len(slice_corr)
    run.coverage["disagreement_samples"] = corr_failures[:5]
    run.coverage["probes"] = {k: {kk: vv for kk, vv in v.items() if kk not in ("spec", "tb")} for k, v in probe_res.items()}
    if (not lean.ok or corr_failures) and not run.violations:
        what = []
        if not lean.ok:
            what.append("proof obligations of Props/C19.lean no longer check: " + json.dumps(lean.broken)[:600])
        if corr_failures:
            what.append(f"model-of-the-code / implementation correspondence broken on {len(corr_failures)} cases, e.g. "
                        + json.dumps(corr_failures[0])[:500])
        run.report("C19/unproved", "; ".join(what),
                   {"broken_obligations": lean.broken, "correspondence": corr_failures[:20]}, no_input=True)
    return run.finish(
        lean,
        rule="generated protocol grammars (seq/alt/opt/star/plus/{n}/{n,m}/{n,}, nesting depth <= 3, 0-3 helper "
             "nonterminals incl. guarded right/mutual recursion, 2-3 parties, shared message types) x every prefix of "
             "every interaction up to the depth bound (breadth first, capped per grammar) x up to 2 real history "
             "trees per prefix; + corpus of 12 hand-written specs; + 2 fixed probes; a grammar is non-trivial when it "
             "has >= 4 prefixes; distinct by spec text",
        trusted_base=TRUSTED)
