"""C20 — a protocol run is always a valid, correctly attributed interaction.

1. obligations: harness/translate_iorun.py reads the rule the CURRENT source has for fragment selection / reading /
   clearing (sender AND recipient vs sender only), the recipient filter on the candidate types and the
   `_extends_history` guard of the send -> Generated/IoRun.lean; Props/C20.lean (lake build, axiom audit): the run
   invariant — with attribution to sender AND recipient and per-(sender, recipient) exactly-once accounting — for
   every event and every schedule of the event-level machine of Model/IoRun.lean, stated for the generated rule;
2. generated protocol specs (2-3 parties, one or two fuzzer-controlled, alternatives / options / bounded
   repetitions, message types whose contents share prefixes, constraints that forbid some contents) ×
   peer behaviours (valid, wrong type, constraint-violating, truncated, extra data, wrong recipient; polite or
   eager peers) × schedules (fragmentation of every remote message, early/late arrival of every chunk —
   enumerated depth first per scenario, capped) drive the REAL `Fandango._generate_io` event by event
   (harness/impl/io_world.py: scripted in-process parties, virtual clock);
3. correspondence: the observed environment trace is replayed on the model (drv_io) with the VERIFIED
   forecaster's table (drv_proto `nexts`/`complete`, C19) as the forecast oracle, finite content languages as
   the parser oracle and the forbidden contents as the constraint oracle; history (sender, recipient, type,
   content), left-over buffer, `party.send` calls and the error kind must agree;
4. the property itself, judged without the model: the history is a prefix (an interaction when the run
   reports completion) by the verified matcher; per (external sender, recipient) channel recorded contents ++
   left-over buffer = the data that sender delivered to that recipient, in order (so every recorded remote message
   was delivered to the recipient it is recorded with); `party.send` was called exactly once, in order, for every message Fandango appended
   for an external recipient; every content is a word of its type and not forbidden; a freshly parsed spec's
   brand-new constraint objects accept the recorded interaction.
"""
from __future__ import annotations

import json
import os
import sys
import time
import traceback
from concurrent.futures import ProcessPoolExecutor, as_completed
from typing import Any, Optional

from harness import translate_iorun
from harness.common import VERIF, MachineryError, Run, driver_ask, lean_check, rng_for, seed_of_env, use_repo

PID = "C20"
PROPOSED = VERIF / "proposed_findings" / "C20.json"

TRUSTED = [
    "Lean 4.33.0 kernel; axioms ⊆ {propext, Classical.choice, Quot.sound} (audited per run)",
    "hand-written model lean/Model/IoRun.lean of FandangoIO (add_receive, clear_by_party), _find_next_fragment, "
    "parse_next_remote_packet and the send/receive alternation of _generate_io, tied to /repo by this run's "
    "correspondence on generated specs × peer behaviours × schedules (generator-bounded)",
    "translator harness/translate_iorun.py (source-shape pins by ast.unparse text: which of the two known shapes — "
    "sender-only / sender+recipient, unguarded / _extends_history-guarded — each of the seven pinned sites has; any "
    "other shape is a refusal = broken obligation)",
    "oracles of the model: forecast = the verified forecaster of C19 (drv_proto), runs on which the real forecaster "
    "disagrees with it are counted and left to C19; parser of one message type = membership / proper-prefix in the "
    "finite content language (that the real incremental parser computes this for every chunking is C13); constraint "
    "verdict = 'content not forbidden' (C02/C07)",
    "threads, sockets and wall-clock are outside the model: the harness serialises the real loop with a virtual clock "
    "(time.time/time.sleep of evolution/algorithm.py and io/packetparser.py) and in-process parties; a time-out is an "
    "event of the schedule",
    "harness/impl/io_world.py (scheduler, observation), harness/impl/grammar_io.py grammar_to_json",
]

SIG_RECIPIENT = "C20/remote-recipient-ignored-one-sender-two-recipients"
SIG_PREFIX = "C20/history-not-a-prefix"
SIG_COMPLETE = "C20/completion-reported-for-incomplete-interaction"
SIG_ACCOUNT = "C20/remote-data-lost-duplicated-or-reordered"
SIG_SENDS = "C20/party-send-calls-differ-from-history"
SIG_RESEND = "C20/fuzzer-retransmits-last-message-when-generator-returns-non-extending-tree"
SIG_WORD = "C20/recorded-content-not-a-word-of-its-type"
SIG_FORBIDDEN = "C20/recorded-message-violates-constraint"
SIG_FRESH = "C20/fresh-constraint-objects-reject-recorded-interaction"
SIG_BAD_ACCEPTED = "C20/bad-remote-message-did-not-end-the-run-with-an-error"
SIG_CORR = "C20/model-disagrees-with-run"
SIG_CRASH = "C20/run-crashed"

FAULTS = ["wrong_type", "violating", "truncated", "extra", "wrong_recipient"]

# ------------------------------------------------------------------------------------------------
# spec generation
# ------------------------------------------------------------------------------------------------

EXT_WORDS = ["a", "ab", "abc", "b", "ba", "bc", "bcd", "c", "ca", "cb", "d;", "dd", "e", "ea", "eab", "ac", "cc"]
FZ_WORDS = ["p", "pq", "q", "qr", "r", "rp", "s;", "ss"]
JUNK = ["zz", "z", "yz", "#"]


def gen_info(rng, variant: str) -> dict:
    fuzzer = ["Fz", "Fy"] if variant == "two_fz" else ["Fz"]
    external = ["Ex", "Th"] if variant == "two_ext" else ["Ex"]
    pairs = [(f, e) for f in fuzzer for e in external] + [(e, f) for f in fuzzer for e in external]
    n_types = rng.choice([3, 4, 4, 5, 6])
    ext_pool = list(EXT_WORDS)
    fz_pool = list(FZ_WORDS)
    rng.shuffle(ext_pool)
    rng.shuffle(fz_pool)
    types = []
    # at least one type per direction
    chosen = [rng.choice([p for p in pairs if p[0] in fuzzer]), rng.choice([p for p in pairs if p[0] in external])]
    while len(chosen) < n_types:
        chosen.append(rng.choice(pairs))
    if variant == "two_fz":
        # make sure the external party talks to both fuzzer parties
        chosen[1] = ("Ex", "Fz")
        chosen[2] = ("Ex", "Fy")
    for i, (s, r) in enumerate(chosen):
        pool = fz_pool if s in fuzzer else ext_pool
        k = min(rng.choice([1, 2, 2, 3]), len(pool))
        if k == 0:
            continue
        words = [pool.pop() for _ in range(k)]
        forbidden = [rng.choice(words)] if len(words) >= 2 and rng.random() < 0.5 else []
        types.append({"name": f"m{i}", "sender": s, "recipient": r, "words": words, "forbidden": forbidden})
    return {"fuzzer": fuzzer, "external": external, "types": types, "bytes": rng.random() < 0.2, "junk": JUNK,
            "variant": variant}


def gen_expr(rng, atoms: list, depth: int):
    r = rng.random()
    if depth <= 0 or r < 0.35:
        return ("msg", rng.choice(atoms))
    if r < 0.62:
        return ("seq", [gen_expr(rng, atoms, depth - 1) for _ in range(rng.choice([2, 2, 3]))])
    if r < 0.82:
        return ("alt", [gen_expr(rng, atoms, depth - 1) for _ in range(2)])
    if r < 0.92:
        return ("opt", gen_expr(rng, atoms, depth - 1))
    lo = rng.choice([1, 1, 2])
    return ("rep", gen_expr(rng, atoms, depth - 1), lo, lo + rng.choice([0, 1]))


def show(e, top: bool = False) -> str:
    k = e[0]
    if k == "msg":
        return f"<{e[1]['sender']}:{e[1]['recipient']}:{e[1]['name']}>"
    if k == "nt":
        return f"<{e[1]}>"
    if k == "seq":
        s = " ".join(show(x) for x in e[1])
        return s if top else f"({s})"
    if k == "alt":
        s = " | ".join(show(x) for x in e[1])
        return s if top else f"({s})"
    inner = show(e[1])
    if e[1][0] in ("opt", "rep"):
        inner = f"({inner})"
    if k == "opt":
        return inner + "?"
    return f"{inner}{{{e[2]},{e[3]}}}" if e[2] != e[3] else f"{inner}{{{e[2]}}}"


def lit(w: str, b: bool) -> str:
    return ("b" if b else "") + repr(w)


PARTY_TMPL = """class {name}(FandangoParty):
    def __init__(self):
        super().__init__(connection_mode=ConnectionMode.{mode})
        c20world.register(self.io_instance)
    def send(self, message, recipient):
        c20world.on_send("{name}", message, recipient)
    def start(self):
        pass
    def stop(self):
        pass
"""


def spec_text(info: dict, rules: list) -> str:
    b = info["bytes"]
    lines = [f"<{name}> ::= {show(e, top=True)}" for name, e in rules]
    for t in info["types"]:
        lines.append(f"<{t['name']}> ::= " + " | ".join(lit(w, b) for w in t["words"]))
    for t in info["types"]:
        for w in t["forbidden"]:
            lines.append(f"where {'bytes' if b else 'str'}(<{t['name']}>) != {lit(w, b)}")
    lines.append("")
    lines.append("import c20world")
    for p in info["fuzzer"]:
        lines.append(PARTY_TMPL.format(name=p, mode="OPEN"))
    for p in info["external"]:
        lines.append(PARTY_TMPL.format(name=p, mode="EXTERNAL"))
    return "\n".join(lines) + "\n"


def max_len(e, rules: dict) -> int:
    k = e[0]
    if k == "msg":
        return 1
    if k == "nt":
        return max_len(rules[e[1]], rules)
    if k == "seq":
        return sum(max_len(x, rules) for x in e[1])
    if k == "alt":
        return max(max_len(x, rules) for x in e[1])
    if k == "opt":
        return max_len(e[1], rules)
    return e[3] * max_len(e[1], rules)


def gen_spec(rng, variant: str) -> dict:
    while True:
        s = gen_spec1(rng, variant)
        if s is not None:
            return s


def gen_spec1(rng, variant: str) -> Optional[dict]:
    info = gen_info(rng, variant)
    atoms = info["types"]
    rules = []
    items = [gen_expr(rng, atoms, 2) for _ in range(rng.choice([2, 3, 3, 4]))]
    if rng.random() < 0.3:
        sub = ("seq", [gen_expr(rng, atoms, 1) for _ in range(2)])
        rules.append(("s1", sub))
        items.insert(rng.randrange(len(items) + 1), ("nt", "s1"))
    rules.insert(0, ("start", ("seq", items)))
    if max_len(rules[0][1], dict(rules)) > 8:
        return None
    text = " ".join(show(e, top=True) for _, e in rules)
    if any(f"<{p}:" not in text and f":{p}:" not in text for p in info["fuzzer"] + info["external"]):
        return None
    return {"info": info, "spec": spec_text(info, rules)}


def hand_spec(body: list[str], types: list[dict], fuzzer: list[str], external: list[str], b: bool = False) -> dict:
    info = {"fuzzer": fuzzer, "external": external, "types": types, "bytes": b, "junk": JUNK, "variant": "hand"}
    lines = list(body)
    for t in types:
        lines.append(f"<{t['name']}> ::= " + " | ".join(lit(w, b) for w in t["words"]))
    for t in types:
        for w in t["forbidden"]:
            lines.append(f"where {'bytes' if b else 'str'}(<{t['name']}>) != {lit(w, b)}")
    lines += ["", "import c20world"]
    lines += [PARTY_TMPL.format(name=p, mode="OPEN") for p in fuzzer]
    lines += [PARTY_TMPL.format(name=p, mode="EXTERNAL") for p in external]
    return {"info": info, "spec": "\n".join(lines) + "\n"}


def T(name, s, r, words, forbidden=()):
    return {"name": name, "sender": s, "recipient": r, "words": list(words), "forbidden": list(forbidden)}


def corpus_specs() -> list[dict]:
    out = []
    # tests/resources/minimal_io.fan
    out.append(hand_spec(["<start> ::= <Fz:Ex:ping><Ex:Fz:pong><Fz:Ex:puff><Ex:Fz:paff>"],
                         [T("ping", "Fz", "Ex", ["ping\n"]), T("pong", "Ex", "Fz", ["pong\n"]),
                          T("puff", "Fz", "Ex", ["puff\n"]), T("paff", "Ex", "Fz", ["paff\n"])], ["Fz"], ["Ex"]))
    # back-to-back remote messages whose contents overlap; a forbidden reply
    out.append(hand_spec(["<start> ::= <Fz:Ex:q> <Ex:Fz:a> <Ex:Fz:b> <Fz:Ex:r>?"],
                         [T("q", "Fz", "Ex", ["q", "qq"], ["qq"]), T("a", "Ex", "Fz", ["a", "ab"]),
                          T("b", "Ex", "Fz", ["b", "bc"], ["bc"]), T("r", "Fz", "Ex", ["r"])], ["Fz"], ["Ex"]))
    # two candidate types for one sender, one a prefix of the other
    out.append(hand_spec(["<start> ::= <Fz:Ex:q> (<Ex:Fz:a> | <Ex:Fz:b>) <Fz:Ex:r>"],
                         [T("q", "Fz", "Ex", ["q"]), T("a", "Ex", "Fz", ["ab"]), T("b", "Ex", "Fz", ["abc", "x"]),
                          T("r", "Fz", "Ex", ["r", "s"], ["s"])], ["Fz"], ["Ex"], b=True))
    # one external sender, two fuzzer-controlled recipients (the witness of C20_recipient_misattributed)
    out.append(hand_spec(["<start> ::= <Fz:Ex:q> <Ex:Fz:a> <Ex:Fy:b>"],
                         [T("q", "Fz", "Ex", ["q"]), T("a", "Ex", "Fz", ["x", "y"]), T("b", "Ex", "Fy", ["u", "v"])],
                         ["Fz", "Fy"], ["Ex"]))
    # one external sender, two fuzzer-controlled recipients, multi-character contents one a prefix of another: with
    # overlapping peers the fragments of Ex->Fz and Ex->Fy interleave in the buffer
    out.append(hand_spec(["<start> ::= <Fz:Ex:q> <Ex:Fz:a> <Ex:Fy:b> <Ex:Fz:c>? <Fy:Ex:r>"],
                         [T("q", "Fz", "Ex", ["q"]), T("a", "Ex", "Fz", ["xy", "xyz"]), T("b", "Ex", "Fy", ["uv", "u"]),
                          T("c", "Ex", "Fz", ["w"]), T("r", "Fy", "Ex", ["r"])], ["Fz", "Fy"], ["Ex"]))
    # two external parties answering in either order
    out.append(hand_spec(["<start> ::= <Fz:Ex:q> (<Ex:Fz:a> <Th:Fz:b> | <Th:Fz:b> <Ex:Fz:a>) <Fz:Th:r>"],
                         [T("q", "Fz", "Ex", ["q"]), T("a", "Ex", "Fz", ["a", "ab"]), T("b", "Th", "Fz", ["b", "ba"]),
                          T("r", "Fz", "Th", ["r"])], ["Fz"], ["Ex", "Th"]))
    return out


# ------------------------------------------------------------------------------------------------
# one spec: verified forecaster table, cases, runs, model, judgement (runs in a worker process)
# ------------------------------------------------------------------------------------------------

def key_of(h) -> tuple:
    return tuple((m[0], m[1], m[2]) for m in h)


def scenarios_for(info: dict, rng, tier: str) -> list[dict]:
    out = []
    base = [("polite", None), ("eager", None)]
    faults = [f for f in FAULTS if f != "wrong_recipient" or len(info["fuzzer"]) > 1]
    for f in faults:
        base.append((rng.choice(["polite", "eager"]), (rng.choice([0, 0, 1]), f)))
        if tier == "thorough":
            base.append((rng.choice(["polite", "eager"]), (rng.choice([0, 1, 2]), f)))
    for mode, fault in base:
        out.append({"mode": mode, "fault": list(fault) if fault else None, "seed": rng.randrange(1 << 30),
                    "p_reply_in_send": rng.choice([0.0, 0.5, 1.0]), "p_unsolicited": rng.choice([0.0, 0.1, 0.3])})
    # chatty peers: whoever may speak does so at every delivery point, so data of several senders / several
    # messages sits in the buffer while an extraction reads
    out.append({"mode": "eager", "fault": None, "seed": rng.randrange(1 << 30), "p_reply_in_send": 1.0, "p_unsolicited": 1.0})
    # overlapping peers: the next message is already on its way while chunks of the previous one are pending; the
    # chunks of different (sender, recipient) channels interleave as the tape decides (each channel stays FIFO)
    several = len(info["fuzzer"]) > 1 or len(info["external"]) > 1
    for _ in range((2 if several else 1) + (1 if tier == "thorough" else 0)):
        out.append({"mode": "eager", "fault": None, "seed": rng.randrange(1 << 30), "overlap": True,
                    "p_reply_in_send": rng.choice([0.5, 1.0]), "p_unsolicited": rng.choice([0.3, 1.0])})
    return out


ERR_KIND = [
    ("FandangoFailedError", "Could not parse received message fragments", "noParse"),
    ("FandangoFailedError", "Timeout while waiting for next message fragment", "timeoutFragment"),
    ("FandangoFailedError", "Timed out while waiting for message from remote party", "noMessage"),
    ("FandangoValueError", "Unexpected party sent message", "unexpectedParty"),
    ("FandangoParseError", "Remote response does not match constraints", "constraint"),
]


def error_kind(obs: dict) -> Optional[str]:
    if obs["status"] == "done":
        return None
    e = obs.get("error") or ["", ""]
    for cls, start, kind in ERR_KIND:
        if e[0] == cls and start in e[1]:
            return kind
    return "other:" + e[0] + ":" + e[1][:50]


def judge(info: dict, table: dict, complete: set, obs: dict, model: Optional[dict], prefix_ok: Optional[dict]) -> list:
    """-> [(signature, what)] — the property judged on the observation (no model needed except `model` for 3.)"""
    bad: list = []
    if obs["status"] in ("capped", "empty") or obs.get("history") is None:
        return bad
    fz, ext = set(info["fuzzer"]), set(info["external"])
    types = {"<" + t["name"] + ">": t for t in info["types"]}
    kind = error_kind(obs)
    hist = obs["history"]
    rejected = None
    if kind == "constraint" and hist:
        rejected, hist = hist[-1], hist[:-1]
    divergent = obs.get("c19_divergence")
    # (1) prefix / completion, by the verified forecaster's table
    if not divergent:
        k = key_of(hist)
        ok = (k in table) if prefix_ok is None else prefix_ok.get(k, k in table)
        if not ok:
            bad.append((SIG_PREFIX, f"recorded history {[list(x) for x in k]} is not a prefix of an interaction"))
        elif obs["status"] == "done" and k not in complete:
            bad.append((SIG_COMPLETE, f"run reported completion after {[list(x) for x in k]}"))
    # (2) per (external sender, recipient) channel: recorded ++ left-over = delivered, in order
    allh = hist + ([rejected] if rejected else [])
    for p in sorted(ext):
        mine = [m for m in allh if m[0] == p]
        if any(m[1] is None for m in mine):
            continue        # a message that names no recipient: its channel is not recorded (not generated here)
        chans = sorted({m[1] for m in mine} | {b[1] for b in obs["buffer"] if b[0] == p}
                       | {d[1] for d in obs["delivered"] if d[0] == p})
        wrong = []
        for q in chans:
            recorded = [c for m in mine if m[1] == q for c in m[3]]
            left = [b[2] for b in obs["buffer"] if b[0] == p and b[1] == q]
            stream = [c for d in obs["delivered"] if d[0] == p and d[1] == q for c in d[2]]
            if recorded + left != stream:
                wrong.append((q, recorded, left, stream))
        if not wrong:
            continue
        # narrow class (the rule before 8c7aa85d): the sender's data is all there and in order when the recipients
        # are ignored — it was merely merged across recipients
        rec_p = [c for m in mine for c in m[3]]
        left_p = [b[2] for b in obs["buffer"] if b[0] == p]
        stream_p = [c for d in obs["delivered"] if d[0] == p for c in d[2]]
        q, recorded, left, stream = wrong[0]
        if rec_p + left_p == stream_p:
            bad.append((SIG_RECIPIENT, f"a remote message is recorded with the spec's recipient although its data was "
                                       f"delivered to another fuzzer-controlled party: channel {p}->{q} recorded "
                                       f"{recorded} ++ buffered {left} != delivered {stream}"))
        else:
            bad.append((SIG_ACCOUNT, f"channel {p}->{q}: recorded {recorded} ++ buffered {left} != delivered {stream}"))
    # (3) party.send exactly once, in order, for the fuzzer's messages to external recipients
    want = [[m[0], m[1], m[2], m[3]] for m in hist if m[0] in fz and (m[1] is None or m[1] in ext)]
    sends = obs["sends"]
    resend = False
    if want != sends:
        # narrow class: every surplus call repeats, back to back, the message handed to party.send just before
        j, extras, ok = 0, 0, True
        for i, x in enumerate(sends):
            if j < len(want) and x == want[j]:
                j += 1
            elif i > 0 and x == sends[i - 1]:
                extras += 1
            else:
                ok = False
                break
        if ok and extras and j == len(want):
            resend = True
            bad.append((SIG_RESEND, "a message was handed to party.send again without being recorded: the history has fewer "
                                    "fuzzer messages than were transmitted"))
        else:
            bad.append((SIG_SENDS, f"party.send calls {sends} vs history {want}"))
    # (4)/(5) contents are words of their type, not forbidden; the rejected one is forbidden
    for m in hist:
        t = types.get(m[2])
        w = "".join(chr(c) for c in m[3])
        if t is None or w not in t["words"]:
            bad.append((SIG_WORD, f"{m[0]}->{m[1]} {m[2]} recorded with content {w!r}"))
        elif w in t["forbidden"]:
            bad.append((SIG_FORBIDDEN, f"{m[0]}->{m[1]} {m[2]} = {w!r} is in the history although the constraints forbid it"))
    if obs["status"] in ("done", "failed") and any(v is not True for v in obs.get("fresh_constraints", [])):
        bad.append((SIG_FRESH, f"fresh constraint objects: {obs.get('fresh_constraints')}"))
    # (5) bad remote data that was consumed must have ended the run with an error
    if obs["status"] == "done" and obs.get("fault_done") in ("wrong_type", "violating", "truncated"):
        consumed_all = all(not [b for b in obs["buffer"] if b[0] == p] for p in ext)
        if consumed_all and obs["undelivered"] == 0 and obs["delivered"]:
            bad.append((SIG_BAD_ACCEPTED, f"peer behaviour {obs['fault_done']}: the run completed and the data is gone"))
    # correspondence with the model
    if model is not None and not divergent and not resend and not (kind or "").startswith("other:"):
        mh = [[m[0], m[1], m[2], m[3]] for m in model["history"]]
        diffs = []
        if model.get("missing_forecast"):
            diffs.append("the model's history left the prefixes the verified forecaster enumerated (no forecast for it)")
        if model["stuck"] is not None and model["stuck"] < len(obs["trace"]):
            diffs.append(f"model does not enable trace event #{model['stuck']} {obs['trace'][model['stuck']]}")
        if mh != hist:
            diffs.append(f"history model {mh} real {hist}")
        mr = model["rejected"][:4] if model["rejected"] else None
        if mr != rejected:
            diffs.append(f"rejected model {mr} real {rejected}")
        if model["buffer"] != obs["buffer"]:
            diffs.append(f"buffer model {model['buffer']} real {obs['buffer']}")
        if model["failed"] != kind:
            diffs.append(f"error model {model['failed']} real {kind}")
        if (obs["status"] == "done") != model["finished"]:
            diffs.append(f"finished model {model['finished']} real status {obs['status']}")
        if model["outbox"] != obs["sends"]:
            diffs.append(f"party.send model {model['outbox']} real {obs['sends']}")
        if diffs:
            bad.append((SIG_CORR, "; ".join(diffs)[:600]))
    return bad


def model_request(info: dict, cases: list, obs: dict) -> dict:
    return {
        "forecast": [[c["h"], c["nexts"]] for c in cases],
        "done": [c["h"] for c in cases if c["complete"]],
        "fuzzer": info["fuzzer"],
        "types": [["<" + t["name"] + ">", [[ord(ch) for ch in w] for w in t["words"]]] for t in info["types"]],
        "forbidden": [["<" + t["name"] + ">", [ord(ch) for ch in w]] for t in info["types"] for w in t["forbidden"]],
        "trace": obs["trace"],
    }


def run_spec(job: dict) -> dict:
    """everything for one spec; job: {idx, spec, info, scenarios, cap_per_scenario, sample_extra, seed}"""
    t0 = time.time()
    use_repo()
    from harness.impl.grammar_io import grammar_to_json, parse_spec
    from harness.impl import io_world
    import warnings
    res: dict = {"idx": job["idx"], "skipped": None, "cases": [], "counts": {}}

    def count(k, n=1):
        res["counts"][k] = res["counts"].get(k, 0) + n
    try:
        io_world.install()
        with warnings.catch_warnings():
            warnings.simplefilter("ignore")
            grammar, _ = parse_spec(job["spec"])
        gj, _ = grammar_to_json(grammar)
        ans = driver_ask("drv_proto", [{"op": "enum", "grammar": gj, "start": "<start>", "cap": 20, "depth": 12,
                                        "limit": 4000}])[0]
        certs = ans["certs"]
        if not (certs["rank_ok"] and certs["productive"] and certs["msg_only"]) or ans["truncated"]:
            res["skipped"] = "forecaster hypotheses / enumeration truncated"
            return res
        cases = ans["cases"]
        table = {key_of(c["h"]): [tuple(m) for m in c["nexts"]] for c in cases}
        complete = {key_of(c["h"]) for c in cases if c["complete"]}
        res["n_prefixes"] = len(cases)
        rng = rng_for(PID, job["seed"], f"tapes{job['idx']}")
        runs = []
        for sc in job["scenarios"]:
            tape: Optional[list[int]] = list(job.get("first_tape") or [])
            n = 0
            exhausted = False
            while tape is not None and n < job["cap_per_scenario"]:
                obs = io_world.run_case(job["spec"], job["info"], sc, tape, table)
                runs.append((sc, tape, obs))
                n += 1
                tape = io_world.next_tape(obs["tape_log"])
                if tape is None:
                    exhausted = True
            count("scenario:schedules-exhausted" if exhausted else "scenario:schedules-capped")
            if not exhausted:
                for _ in range(job["sample_extra"]):
                    tp = [rng.randrange(8) for _ in range(rng.randrange(2, 14))]
                    runs.append((sc, tp, io_world.run_case(job["spec"], job["info"], sc, tp, table)))
        # C19's business: runs on which the real forecaster left the verified one
        reqs = []
        for sc, tp, obs in runs:
            for f in obs["forecasts"]:
                if f.get("h") is None:
                    obs["c19_divergence"] = "forecaster crashed: " + str(f.get("crash"))
                    break
                k = key_of(f["h"])
                if k not in table:
                    continue
                if sorted(tuple(o) for o in f["opts"]) != sorted(set(table[k])) or (f["complete"] != (k in complete)):
                    obs["c19_divergence"] = {"h": f["h"], "real": f["opts"], "verified": sorted(set(table[k])),
                                             "real_complete": f["complete"], "verified_complete": k in complete}
                    break
            reqs.append(model_request(job["info"], cases, obs))
        models = driver_ask("drv_io", reqs) if reqs else []
        for (sc, tp, obs), model in zip(runs, models):
            kind = error_kind(obs)
            count("status:" + obs["status"] + (":" + kind.split(":")[0] if kind else ""))
            count("fault:" + str(obs.get("fault_done")))
            count("remote-chunks:" + str(min(len(obs["delivered"]), 7)))
            for k, v in (obs.get("tries") or {}).items():
                if v:
                    count("extends_history:" + k, v)
            if len({(d[0], d[1]) for d in obs["delivered"]}) > 1:
                count("runs-with-several-channels")
            if len({d[1] for d in obs["delivered"]}) > 1 and len({d[0] for d in obs["delivered"]}) == 1:
                count("runs-one-sender-two-recipients")
            for p in {d[0] for d in obs["delivered"]}:
                rs = [d[1] for d in obs["delivered"] if d[0] == p]
                rs = [r for i, r in enumerate(rs) if i == 0 or rs[i - 1] != r]
                if len(rs) > len(set(rs)):
                    count("runs-one-sender-channels-interleaved(A-B-A)")
                    break
            if sc.get("overlap"):
                count("runs-overlapping-peers")
            if obs.get("c19_divergence"):
                count("left-to-C19:forecast-differs-from-verified")
                if len(res.setdefault("divergences", [])) < 3:
                    res["divergences"].append(obs["c19_divergence"])
            if kind and kind.startswith("other:"):
                count("unmodelled-error" + ("(well-behaved peers)" if not obs.get("fault_done") else "") + ":" + kind[6:60])
            bad = judge(job["info"], table, complete, obs, model, None)
            nontrivial = len(obs["delivered"]) > 0 and len(obs.get("history") or []) > 1
            res["cases"].append({"sc": sc, "tape": tp, "bad": bad, "nontrivial": nontrivial,
                                 "canon": [job["idx"], sc["seed"], tp],
                                 "summary": {"status": obs["status"], "error": kind, "history": obs.get("history"),
                                             "delivered": obs["delivered"], "sends": obs["sends"]},
                                 "obs": obs if bad else None})
    except MachineryError:
        raise
    except Exception as e:  # noqa
        res["crash"] = type(e).__name__ + ": " + str(e)[:300]
        res["tb"] = traceback.format_exc()[-2000:]
    res["wall"] = round(time.time() - t0, 2)
    return res


# ------------------------------------------------------------------------------------------------
# main / replay
# ------------------------------------------------------------------------------------------------

def load_known(run: Run) -> None:
    if PROPOSED.exists():
        for k in json.loads(PROPOSED.read_text()):
            if k.get("property") == PID and k.get("status") == "open" and \
                    not any(x.get("signature") == k.get("signature") for x in run.known):
                run.known.append(k)


def make_jobs(run: Run, tier: str) -> list[dict]:
    rng = run.rng("specs")
    n_gen = 7 if tier == "quick" else 24
    cap = 5 if tier == "quick" else 12
    extra = 1 if tier == "quick" else 2
    specs = corpus_specs()
    variants = ["one", "one", "two_ext", "two_fz"]
    for i in range(n_gen):
        specs.append(gen_spec(rng, variants[i % len(variants)]))
    jobs = []
    # past disagreements first
    cdir = VERIF / "corpus" / PID
    for k, f in enumerate(sorted(cdir.glob("*.json")) if cdir.exists() else []):
        c = json.loads(f.read_text())
        jobs.append({"idx": 1000 + k, "spec": c["spec"], "info": c["info"], "seed": run.seed, "scenarios": [c["scenario"]],
                     "first_tape": c.get("tape") or [], "cap_per_scenario": 2, "sample_extra": 0})
    for i, s in enumerate(specs):
        jobs.append({"idx": i, "spec": s["spec"], "info": s["info"], "seed": run.seed,
                     "scenarios": scenarios_for(s["info"], rng, tier),
                     "cap_per_scenario": cap, "sample_extra": extra})
    return jobs


def fresh_pool(workers: int) -> ProcessPoolExecutor:
    """one fresh interpreter per task, string hashing fixed (fandango iterates over sets of names)"""
    import multiprocessing
    os.environ["PYTHONHASHSEED"] = "0"
    return ProcessPoolExecutor(max_workers=workers, mp_context=multiprocessing.get_context("spawn"),
                               max_tasks_per_child=1)


def build_drivers() -> None:
    from harness.common import LEAN, _Lock, _run
    with _Lock():
        rc, log = _run(["lake", "build", "drv_io", "drv_proto"], LEAN, 1500)
    if rc != 0:
        raise MachineryError("C20: the model drivers do not build:\n" + log[-1500:])


def main(tier: str) -> int:
    use_repo()
    run = Run(PID, tier, "proof")
    load_known(run)
    gen = translate_iorun.regenerate()
    lean = lean_check("Props.C20", ["drv_io", "drv_proto"])
    for r in gen["refusals"]:
        lean.broken.append({"module": "Generated.IoRun", "reason": "translator refused: " + r})
    run.coverage["generated_variant"] = gen["flags"]
    run.coverage["pinned_sites"] = gen["sites"]
    print(f"[C20] translator {gen['flags']} refusals={len(gen['refusals'])}; lean_check {time.time() - run.t0:.1f}s",
          flush=True)
    if not lean.ok:
        # the drivers do not depend on Props/C20: make sure they follow the regenerated variant
        build_drivers()
    jobs = make_jobs(run, tier)
    workers = int(os.environ.get("VERIF_WORKERS", "6" if tier == "quick" else "8"))
    results = []
    # one fresh interpreter per spec: what a run does must not depend on which specs the worker process ran before
    # (fandango keeps module-level state), or a reported schedule would not replay
    with fresh_pool(workers) as ex:
        futs = {ex.submit(run_spec, j): j for j in jobs}
        for fu in as_completed(futs):
            results.append((futs[fu], fu.result()))
    results.sort(key=lambda p: p[0]["idx"])
    print(f"[C20] runs done {time.time() - run.t0:.1f}s; per spec wall: " +
          " ".join(str(r.get("wall")) for _, r in results), flush=True)
    for job, res in results:
        run.count("specs")
        run.count("specs:" + job["info"]["variant"] + (":bytes" if job["info"]["bytes"] else ""))
        if res.get("crash"):
            raise MachineryError(f"C20 worker crashed on spec #{job['idx']}: {res['crash']}\n{res.get('tb')}")
        if res["skipped"]:
            run.count("specs-skipped:" + res["skipped"])
            continue
        for k, v in res["counts"].items():
            run.count(k, v)
        for c in res["cases"]:
            run.case(c["canon"], c["nontrivial"], sample=c["summary"] if c["nontrivial"] else None)
            for sig, what in c["bad"]:
                run.report(sig, what, {"spec": job["spec"], "info": job["info"], "scenario": c["sc"],
                                       "tape": c["tape"], "observation": c["obs"]})
    if not lean.ok and not run.violations and not run.known_hits:
        # the obligations are broken and no schedule of this run shows the property failing
        run.report("C20/obligation-broken", "proof obligations of Props/C20.lean no longer check for the rule the source "
                   f"has now (generated variant {gen['flags']}): {json.dumps(lean.broken)[:700]}",
                   {"broken": lean.broken, "generated_variant": gen["flags"], "refusals": gen["refusals"]}, no_input=True)
    return run.finish(
        lean, "every schedule explored: model = run (history, buffer, party.send, error kind, every _extends_history verdict); "
              "history prefix-valid by the verified forecaster; per-(sender, recipient) channel accounting; contents; "
              "fresh constraint objects",
        explanation="real _generate_io driven event by event (virtual clock, scripted parties); schedules enumerated depth "
                    "first per scenario (fragmentation × early/late arrival), capped; forecast oracle of the model = C19's "
                    "verified forecaster",
        trusted_base=TRUSTED)


def replay_case(rp: dict) -> dict:
    """one recorded case on the current tree (runs in a fresh interpreter, as every case of `main` does)"""
    use_repo()
    from harness.impl.grammar_io import grammar_to_json, parse_spec
    from harness.impl import io_world
    import warnings
    io_world.install()
    with warnings.catch_warnings():
        warnings.simplefilter("ignore")
        grammar, _ = parse_spec(rp["spec"])
    gj, _ = grammar_to_json(grammar)
    ans = driver_ask("drv_proto", [{"op": "enum", "grammar": gj, "start": "<start>", "cap": 20, "depth": 12, "limit": 4000}])[0]
    cases = ans["cases"]
    table = {key_of(c["h"]): [tuple(m) for m in c["nexts"]] for c in cases}
    complete = {key_of(c["h"]) for c in cases if c["complete"]}
    obs = io_world.run_case(rp["spec"], rp["info"], rp["scenario"], rp["tape"], table)
    model = driver_ask("drv_io", [model_request(rp["info"], cases, obs)])[0]
    bad = judge(rp["info"], table, complete, obs, model, None)
    return {"obs": obs, "model": model, "bad": bad}


def replay(path: str) -> int:
    use_repo()
    rp = json.loads(open(path).read())
    gen = translate_iorun.regenerate()
    if rp.get("no_failing_input_found"):
        print(f"[C20] replay names a broken obligation / correspondence case: {rp.get('what')}")
        lean = lean_check("Props.C20", ["drv_io", "drv_proto"])
        print("generated variant", gen["flags"], "refusals", gen["refusals"])
        print("obligations", len(lean.discharged), "/", len(lean.obligations))
        return 0 if lean.ok and not gen["refusals"] else 1
    build_drivers()
    with fresh_pool(1) as ex:
        r = ex.submit(replay_case, rp).result()
    obs, model, bad = r["obs"], r["model"], r["bad"]
    print(rp["spec"].split("import c20world")[0])
    print("scenario", rp["scenario"], "tape", rp["tape"])
    for k in ("status", "error", "history", "buffer", "sends", "delivered", "trace", "fresh_constraints"):
        print(f"  {k}: {obs.get(k)}")
    print("  model:", json.dumps(model))
    hit = [b for b in bad if b[0] == rp.get("signature")]
    for sig, what in bad:
        print(f"  {'REPRODUCED' if sig == rp.get('signature') else 'also'}: {sig}: {what}")
    print("replay:", "property violated" if hit else "no violation on the current tree")
    return 1 if hit else 0
