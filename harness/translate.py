"""Translators: regenerate `lean/Generated/*.lean` from /repo's *current* source on every run.

T-const   module constants / small code shapes the models take as parameters
T-fitness the arithmetic of Evaluator.evaluate_individual (see harness/translate_fitness.py)

A translator *refuses* (raises Refusal) when the source no longer has a shape it understands; the
caller then reports the dependent proof obligations as broken and searches for a failing input.
"""
from __future__ import annotations

import ast
import re
from pathlib import Path
from typing import Any, Optional

from harness.common import LEAN, REPO_SRC

FD = REPO_SRC / "fandango"


class Refusal(Exception):
    pass


def parse_file(rel: str) -> ast.Module:
    return ast.parse((FD / rel).read_text())


def find_class(mod: ast.Module, name: str) -> ast.ClassDef:
    for n in mod.body:
        if isinstance(n, ast.ClassDef) and n.name == name:
            return n
    raise Refusal(f"class {name} not found")


def find_func(scope: Any, name: str) -> ast.FunctionDef:
    for n in scope.body:
        if isinstance(n, (ast.FunctionDef, ast.AsyncFunctionDef)) and n.name == name:
            return n
    raise Refusal(f"function {name} not found")


def strip_doc(fn: ast.FunctionDef) -> list[ast.stmt]:
    body = list(fn.body)
    if body and isinstance(body[0], ast.Expr) and isinstance(body[0].value, ast.Constant) \
            and isinstance(body[0].value.value, str):
        body = body[1:]
    return body


def module_constant(mod: ast.Module, name: str) -> Any:
    for n in mod.body:
        if isinstance(n, ast.Assign) and len(n.targets) == 1 and isinstance(n.targets[0], ast.Name) \
                and n.targets[0].id == name:
            return ast.literal_eval(n.value)
        if isinstance(n, ast.AnnAssign) and isinstance(n.target, ast.Name) and n.target.id == name \
                and n.value is not None:
            return ast.literal_eval(n.value)
    raise Refusal(f"module constant {name} not found")


def enc_name(py: str) -> str:
    py = py.lower().replace("_", "-")
    if py in ("utf-8", "utf8"):
        return ".utf8"
    if py in ("latin-1", "latin1", "iso-8859-1"):
        return ".latin1"
    raise Refusal(f"encoding {py!r} is not modelled")


# ------------------------------------------------------------------------------------------------
# T-const
# ------------------------------------------------------------------------------------------------

def tree_value_constants() -> dict[str, str]:
    mod = parse_file("language/tree_value.py")
    s2b = module_constant(mod, "STRING_TO_BYTES_ENCODING")
    b2s = module_constant(mod, "BYTES_TO_STRING_ENCODING")
    cls = find_class(mod, "TreeValue")
    out = {"strToBytesEncoding": enc_name(s2b), "bytesToStrEncoding": enc_name(b2s)}

    def flush_encoding(method: str, params: dict[str, str]) -> str:
        fn = find_func(cls, method)
        # defaults of keyword parameters
        defaults = {}
        args = fn.args
        pos = args.args[len(args.args) - len(args.defaults):]
        for a, d in zip(pos, args.defaults):
            defaults[a.arg] = d
        for a, d in zip(args.kwonlyargs, args.kw_defaults):
            if d is not None:
                defaults[a.arg] = d
        calls = [c for c in ast.walk(fn) if isinstance(c, ast.Call) and isinstance(c.func, ast.Attribute)
                 and c.func.attr == "_reduce_trailing_bits"]
        if len(calls) != 1:
            raise Refusal(f"{method}: expected exactly one _reduce_trailing_bits call, found {len(calls)}")
        kw = {k.arg: k.value for k in calls[0].keywords}
        v = kw.get("str_to_bytes_encoding") or (calls[0].args[0] if calls[0].args else None)
        if v is None:
            raise Refusal(f"{method}: flush encoding argument not found")
        if isinstance(v, ast.Name) and v.id in defaults:
            v = defaults[v.id]
        if isinstance(v, ast.Name):
            return enc_name(module_constant(mod, v.id))
        if isinstance(v, ast.Constant) and isinstance(v.value, str):
            return enc_name(v.value)
        raise Refusal(f"{method}: cannot resolve flush encoding {ast.dump(v)}")

    out["toStrFlush"] = flush_encoding("to_string", {})
    out["toBytesFlush"] = flush_encoding("to_bytes", {})
    out["appendFlush"] = flush_encoding("append", {})
    out["toIntFlush"] = flush_encoding("to_int", {})
    return out


_VALUE_LEAF_FOLD = (
    "If(test=Attribute(value=Attribute(value=Name(id='self'), attr='symbol'), attr='is_terminal'), "
    "body=[Return(value=Call(func=Attribute(value=Attribute(value=Name(id='self'), attr='symbol'), attr='value')))]"
)


def tree_value_fold_shape() -> str:
    """which fold DerivationTree.value() performs: `.leaves` (over the terminal leaves, threading one
    aggregate) or `.nested` (every child computes its own value first)"""
    mod = parse_file("language/tree.py")
    cls = find_class(mod, "DerivationTree")
    fn = find_func(cls, "value")
    body = strip_doc(fn)
    src = "\n".join(ast.unparse(s) for s in body)
    if re.search(r"\.append\(\s*child\.value\(\)\s*\)", src):
        return ".nested"
    if "_append_value_to(TreeValue.empty())" in src.replace(" ", "").replace("\n", "") or \
            "_append_value_to(TreeValue.empty())" in src:
        helper = find_func(cls, "_append_value_to")
        hsrc = "\n".join(ast.unparse(s) for s in strip_doc(helper))
        want = ("if self.symbol.is_terminal:\n    return aggregate.append(self.symbol.value())\n"
                "for child in self._children:\n    aggregate = child._append_value_to(aggregate)\n"
                "return aggregate")
        if hsrc.strip() == want:
            return ".leaves"
        raise Refusal("DerivationTree._append_value_to has an unknown shape:\n" + hsrc)
    raise Refusal("DerivationTree.value has an unknown shape:\n" + src)


def constants() -> dict[str, str]:
    out = tree_value_constants()
    out["valueFold"] = tree_value_fold_shape()
    return out


HEADER = """/-
GENERATED by harness/translate.py from /repo's current source — do not edit.
Records the constants and code shapes the hand-written models take as parameters; theorems in
Props/ are stated for these, so a change in the source re-checks (or breaks) the proofs.
-/
import Model.Value
namespace FV.Generated

inductive ValueFold where
  | leaves | nested
  deriving DecidableEq, Repr

"""


def write_if_changed(path: Path, text: str) -> bool:
    if path.exists() and path.read_text() == text:
        return False
    path.parent.mkdir(parents=True, exist_ok=True)
    path.write_text(text)
    return True


def regenerate() -> dict[str, Any]:
    """returns {'constants': {...}, 'refusals': [..]}; always leaves a compilable Generated/ dir
    (a refused constant is emitted as the value that keeps the *old* theorem statement false-proof:
    we emit nothing for it, so dependent proofs fail to compile)."""
    refusals: list[str] = []
    vals: dict[str, str] = {}
    for name, fn in (("treeValue", tree_value_constants), ("valueFold", lambda: {"valueFold": tree_value_fold_shape()})):
        try:
            vals.update(fn())
        except Refusal as e:
            refusals.append(f"{name}: {e}")
        except (OSError, SyntaxError) as e:
            refusals.append(f"{name}: cannot read source: {e}")
    body = HEADER
    types = {"valueFold": "ValueFold"}
    for k in sorted(vals):
        body += f"def {k} : {types.get(k, 'Enc')} := {vals[k]}\n"
    body += "\nend FV.Generated\n"
    write_if_changed(LEAN / "Generated" / "Constants.lean", body)
    return {"constants": vals, "refusals": refusals}


if __name__ == "__main__":
    import json
    print(json.dumps(regenerate(), indent=1))
