"""T-cache: read the shape of `Parser.parse_forest` (and of the code it calls) off /repo's current source
and emit `lean/Generated/Cache.lean` — the `FV.PC.Config` the theorems of Props/C12.lean are stated for.

Decided from the AST (never from running the code):

* policy        `self._cache[cache_key] = forest` after the parse loop (storeWhenExhausted) vs. a write
                to `self._cache[...]` inside the loop (appendWhileYielding)
* hitCopies     every tree served on a hit goes through `deepcopy(...)` first
* hitYieldsCf   the hit loop has a yield on the include_controlflow=True path
* missShare     uncached path, include_controlflow=False: `collapse(tree)` builds new nodes; whether the
                `origin_repetitions` / `sources` *list objects* are passed on as they are is read from
                `IterativeParser._collapse`
* missShareCf   uncached path, include_controlflow=True: `yield tree` is the object kept for the cache
* key*          the names in the `cache_key` tuple
* sharedRegs    `_parse_forest` drives the one `self._iter_parser` (new_parse + consume) rather than a
                per-request parser object

The translator refuses (Refusal) shapes it does not know; then no `cacheConfig` is emitted, Props/C12
does not compile, and the check reports the obligations as broken and searches for a failing history.
"""
from __future__ import annotations

import ast
from typing import Any, Optional

from harness.common import LEAN, REPO_SRC
from harness.translate import Refusal, find_class, find_func, strip_doc, write_if_changed

PARSER_PY = "fandango/language/grammar/parser/parser.py"
ITER_PY = "fandango/language/grammar/parser/iterative_parser.py"
KEY_NAMES = {"word": None, "start": "keyStart", "mode": "keyMode", "hookin_parent": "keyHook",
             "starter_bit": "keySbit"}


def _parse(rel: str) -> ast.Module:
    return ast.parse((REPO_SRC / rel).read_text())


def _is_self_cache_subscript(node: ast.AST) -> bool:
    return (isinstance(node, ast.Subscript) and isinstance(node.value, ast.Attribute)
            and node.value.attr == "_cache" and isinstance(node.value.value, ast.Name)
            and node.value.value.id == "self")


def _writes_cache(stmts: list[ast.stmt]) -> list[ast.AST]:
    """statements (anywhere below) that assign to self._cache[...] or call a mutator on it"""
    hits = []
    for st in stmts:
        for n in ast.walk(st):
            if isinstance(n, (ast.Assign, ast.AugAssign, ast.AnnAssign)):
                targets = n.targets if isinstance(n, ast.Assign) else [n.target]
                if any(_is_self_cache_subscript(t) for t in targets):
                    hits.append(n)
            if isinstance(n, ast.Call) and isinstance(n.func, ast.Attribute) \
                    and n.func.attr in ("append", "extend", "insert", "setdefault", "update"):
                v = n.func.value
                if _is_self_cache_subscript(v) or (isinstance(v, ast.Attribute) and v.attr == "_cache"):
                    hits.append(n)
    return hits


def _is_deepcopy_call(e: ast.AST) -> bool:
    if not isinstance(e, ast.Call):
        return False
    f = e.func
    if isinstance(f, ast.Name) and f.id == "deepcopy":
        return True
    if isinstance(f, ast.Attribute) and f.attr in ("deepcopy", "__deepcopy__"):
        return True
    return False


def _yields(stmts: list[ast.stmt]) -> list[ast.Yield]:
    out = []
    for st in stmts:
        for n in ast.walk(st):
            if isinstance(n, ast.Yield):
                out.append(n)
    return out


def _collapse_share() -> str:
    """does IterativeParser._collapse pass the list objects of the node it collapses on?"""
    mod = _parse(ITER_PY)
    cls = find_class(mod, "IterativeParser")
    fn = find_func(cls, "_collapse")
    calls = [c for c in ast.walk(fn) if isinstance(c, ast.Call) and isinstance(c.func, ast.Name)
             and c.func.id == "DerivationTree"]
    if len(calls) != 1:
        raise Refusal(f"_collapse: expected one DerivationTree(...) construction, found {len(calls)}")
    kw = {k.arg: k.value for k in calls[0].keywords}
    shared = []
    for name in ("origin_repetitions", "sources"):
        v = kw.get(name)
        if v is None:
            continue                       # not passed: the new node gets a fresh empty list
        if isinstance(v, ast.Attribute) and v.attr == name:
            shared.append(name)            # tree.origin_repetitions: the same list object
        elif isinstance(v, ast.Call) and isinstance(v.func, ast.Name) and v.func.id in ("list", "deepcopy") \
                or isinstance(v, (ast.List, ast.ListComp)) \
                or (isinstance(v, ast.Call) and isinstance(v.func, ast.Attribute) and v.func.attr == "copy"):
            pass                           # a new list object
        else:
            raise Refusal(f"_collapse: cannot classify {name}={ast.unparse(v)}")
    kids = kw.get("children")
    if kids is None and len(calls[0].args) >= 2:
        kids = calls[0].args[1]
    if not (isinstance(kids, ast.Name) and kids.id == "reduced"):
        raise Refusal("_collapse: children are not the freshly built `reduced` list")
    return ".lists" if shared else ".none"


def cache_config() -> dict[str, str]:
    mod = _parse(PARSER_PY)
    cls = find_class(mod, "Parser")
    fn = find_func(cls, "parse_forest")
    body = strip_doc(fn)

    # ---- cache key
    key_assign = [s for s in body if isinstance(s, ast.Assign) and len(s.targets) == 1
                  and isinstance(s.targets[0], ast.Name) and s.targets[0].id == "cache_key"]
    if len(key_assign) != 1 or not isinstance(key_assign[0].value, ast.Tuple):
        raise Refusal("parse_forest: `cache_key = (...)` not found")
    names = []
    for e in key_assign[0].value.elts:
        if not isinstance(e, ast.Name) or e.id not in KEY_NAMES:
            raise Refusal(f"parse_forest: cache key component {ast.unparse(e)} is not a request component "
                          f"the model knows ({sorted(KEY_NAMES)})")
        names.append(e.id)
    if "word" not in names:
        raise Refusal("parse_forest: the word is not part of the cache key")
    cfg = {f: ("true" if n in names else "false") for n, f in KEY_NAMES.items() if f}

    # ---- hit branch
    idx_key = body.index(key_assign[0])
    rest = body[idx_key + 1:]
    hit_ifs = [s for s in rest if isinstance(s, ast.If) and isinstance(s.test, ast.Compare)
               and len(s.test.ops) == 1 and isinstance(s.test.ops[0], ast.In)
               and isinstance(s.test.left, ast.Name) and s.test.left.id == "cache_key"]
    if len(hit_ifs) != 1:
        raise Refusal("parse_forest: `if cache_key in self._cache:` not found")
    hit = hit_ifs[0]
    if not hit.body or not isinstance(hit.body[-1], ast.Return):
        raise Refusal("parse_forest: the hit branch does not end with `return`")
    hit_loops = [s for s in hit.body if isinstance(s, ast.For)]
    if len(hit_loops) != 1:
        raise Refusal("parse_forest: hit branch without a single for-loop")
    hl = hit_loops[0]
    var = hl.target.id if isinstance(hl.target, ast.Name) else None
    first = hl.body[0] if hl.body else None
    copies = (isinstance(first, ast.Assign) and len(first.targets) == 1 and isinstance(first.targets[0], ast.Name)
              and _is_deepcopy_call(first.value))
    if copies:
        copied_name = first.targets[0].id
        # every yield in the loop must hand out the copy or something built from it
        for y in _yields(hl.body):
            src = ast.unparse(y.value) if y.value is not None else ""
            if not (src == copied_name or src == "collapsed"):
                raise Refusal(f"parse_forest: hit branch yields {src}")
        collapses = [n for n in ast.walk(hl) if isinstance(n, ast.Call) and isinstance(n.func, ast.Attribute)
                     and n.func.attr == "collapse"]
        for c in collapses:
            if not (len(c.args) == 1 and isinstance(c.args[0], ast.Name) and c.args[0].id == copied_name):
                raise Refusal("parse_forest: hit branch collapses something else than the copy")
    else:
        if any(_is_deepcopy_call(n) for n in ast.walk(hl)):
            raise Refusal("parse_forest: hit branch copies in a shape the translator does not know")
    cfg["hitCopies"] = "true" if copies else "false"
    _ = var
    # does the hit loop yield at all when include_controlflow is set?
    cf_tests = [n for n in hl.body if isinstance(n, ast.If)]
    yields_cf = None
    for n in cf_tests:
        t = n.test
        if isinstance(t, ast.UnaryOp) and isinstance(t.op, ast.Not) and isinstance(t.operand, ast.Name) \
                and t.operand.id == "include_controlflow":
            yields_cf = bool(_yields(n.orelse))            # `if not include_controlflow: … [else: yield …]`
        elif isinstance(t, ast.Name) and t.id == "include_controlflow":
            yields_cf = bool(_yields(n.body))              # `if include_controlflow: yield … else: …`
    if yields_cf is None:
        top = [st for st in hl.body if isinstance(st, ast.Expr) and isinstance(st.value, ast.Yield)]
        if top:
            yields_cf = True                               # an unconditional yield
        else:
            raise Refusal("parse_forest: hit loop without an include_controlflow test")
    cfg["hitYieldsCf"] = "true" if yields_cf else "false"

    # ---- miss loop and insertion policy
    after_hit = rest[rest.index(hit) + 1:]
    loops = [s for s in after_hit if isinstance(s, ast.For)]
    if len(loops) != 1:
        raise Refusal("parse_forest: expected exactly one parse loop after the hit branch")
    loop = loops[0]
    if not (isinstance(loop.iter, ast.Call) and isinstance(loop.iter.func, ast.Attribute)
            and loop.iter.func.attr == "_parse_forest"):
        raise Refusal("parse_forest: the parse loop does not iterate self._parse_forest(...)")
    inside = _writes_cache(loop.body)
    tail = after_hit[after_hit.index(loop) + 1:]
    after = _writes_cache(tail)
    if inside and not after:
        cfg["policy"] = ".appendWhileYielding"
    elif after and not inside:
        st = after[0]
        ok = (isinstance(st, ast.Assign) and isinstance(st.value, ast.Name) and st.value.id == "forest"
              and st in tail)          # directly at function level: runs only when the loop ran to its end
        appends = [n for n in ast.walk(loop) if isinstance(n, ast.Call) and isinstance(n.func, ast.Attribute)
                   and n.func.attr == "append" and isinstance(n.func.value, ast.Name)
                   and n.func.value.id == "forest"]
        if not ok or len(appends) != 1:
            raise Refusal("parse_forest: store-after-loop in an unknown shape")
        if any(isinstance(n, (ast.Try, ast.With)) for n in ast.walk(fn)):
            raise Refusal("parse_forest: try/with around the loop (a `finally` would store partial forests)")
        cfg["policy"] = ".storeWhenExhausted"
    else:
        raise Refusal("parse_forest: cannot decide the insertion policy "
                      f"(cache writes inside the loop: {len(inside)}, after it: {len(after)})")

    # ---- what the uncached path hands out
    loop_var = loop.target.id if isinstance(loop.target, ast.Name) else None
    ifs = [s for s in loop.body if isinstance(s, ast.If) and isinstance(s.test, ast.Name)
           and s.test.id == "include_controlflow"]
    if len(ifs) != 1 or loop_var is None:
        raise Refusal("parse_forest: `if include_controlflow:` not found in the parse loop")
    cf_yields = _yields(ifs[0].body)
    if len(cf_yields) != 1:
        raise Refusal("parse_forest: include_controlflow branch without a single yield")
    v = cf_yields[0].value
    if isinstance(v, ast.Name) and v.id == loop_var:
        cfg["missShareCf"] = ".whole"
    elif _is_deepcopy_call(v):
        cfg["missShareCf"] = ".none"
    else:
        raise Refusal(f"parse_forest: include_controlflow branch yields {ast.unparse(v)}")
    collapses = [n for n in ast.walk(ast.Module(body=ifs[0].orelse, type_ignores=[]))
                 if isinstance(n, ast.Call) and isinstance(n.func, ast.Attribute) and n.func.attr == "collapse"]
    if len(collapses) != 1 or len(collapses[0].args) != 1:
        raise Refusal("parse_forest: collapse(...) not found on the uncached path")
    arg = collapses[0].args[0]
    if isinstance(arg, ast.Name) and arg.id == loop_var:
        cfg["missShare"] = _collapse_share()
    elif _is_deepcopy_call(arg):
        cfg["missShare"] = ".none"
    else:
        raise Refusal(f"parse_forest: collapse({ast.unparse(arg)})")

    # ---- one parser shared by all generators?
    init = find_func(cls, "__init__")
    owns = any(isinstance(n, ast.Assign) and any(isinstance(t, ast.Attribute) and t.attr == "_iter_parser"
                                                 for t in n.targets) for n in ast.walk(init))
    pf = find_func(cls, "_parse_forest")
    drivers = []
    for n in ast.walk(pf):
        if isinstance(n, ast.Call) and isinstance(n.func, ast.Attribute) and n.func.attr in ("new_parse", "consume"):
            drivers.append((n.func.attr, ast.unparse(n.func.value)))
    recv = {r for _, r in drivers}
    if {a for a, _ in drivers} != {"new_parse", "consume"} or len(recv) != 1:
        raise Refusal(f"_parse_forest: new_parse/consume receivers {sorted(drivers)}")
    r = recv.pop()
    if r == "self._iter_parser" and owns:
        cfg["sharedRegs"] = "true"
    elif "." not in r:
        assigned = [n for n in ast.walk(pf) if isinstance(n, ast.Assign)
                    and any(isinstance(t, ast.Name) and t.id == r for t in n.targets)]
        if len(assigned) != 1 or not isinstance(assigned[0].value, ast.Call):
            raise Refusal(f"_parse_forest: local parser {r} is not created by a call")
        if ast.unparse(assigned[0].value) == "self._iter_parser":
            raise Refusal("_parse_forest: alias of the shared parser")
        cfg["sharedRegs"] = "false"
    else:
        raise Refusal(f"_parse_forest drives {r}")
    return cfg


HEADER = """/-
GENERATED by harness/translate_cache.py from /repo's current source — do not edit.
The shape of `Parser.parse_forest` (insertion policy, copying, cache key, parser sharing) as a
`FV.PC.Config`; Props/C12.lean states the refinement theorem for this value.
-/
import Model.ParseCache
namespace FV.Generated

"""

ORDER = ["policy", "hitCopies", "hitYieldsCf", "missShare", "missShareCf", "keySbit", "keyStart", "keyHook", "keyMode", "sharedRegs"]


def regenerate() -> dict[str, Any]:
    refusal: Optional[str] = None
    cfg: dict[str, str] = {}
    try:
        cfg = cache_config()
    except Refusal as e:
        refusal = str(e)
    except (OSError, SyntaxError) as e:
        refusal = f"cannot read source: {e}"
    body = HEADER
    if refusal is None:
        fields = ", ".join(f"{k} := {cfg[k]}" for k in ORDER)
        body += f"def cacheConfig : FV.PC.Config :=\n  {{ {fields} }}\n"
    else:
        body += "-- translator refused: " + refusal.replace("\n", " ") + "\n"
    body += "\nend FV.Generated\n"
    write_if_changed(LEAN / "Generated" / "Cache.lean", body)
    return {"config": cfg, "refusal": refusal}


if __name__ == "__main__":
    import json
    print(json.dumps(regenerate(), indent=1))
