"""T-cons: read from /repo's *current* source the two code shapes the constraint model (E4) takes as
parameters, and write them to `lean/Generated/Cons.lean`:

* `binding`   — do `ForallConstraint.fitness` / `ExistsConstraint.fitness` bind their variable on a
                *copy* of `scope` / `local_variables` (fix 0c4c2f46) or do they assign into the
                dictionaries passed in by the caller (`scope = scope or dict()` → `.shared`)?
* `skipRaise` — does `ComparisonConstraint.fitness` record `0.0` for a combination one of whose sides
                raises (fix 90f1d189) or does it `continue` past it?

Everything is decided from the Python `ast` of the three files.  A shape the translator does not
understand is a *refusal*: `consCfgRead := false` is emitted, which breaks
`Props/C07.lean: C07_source_configuration` (and with it the obligations that depend on it).
"""
from __future__ import annotations

import ast
from typing import Any

from harness.common import LEAN
from harness.translate import Refusal, find_class, find_func, parse_file, write_if_changed


def _names(node: ast.AST) -> set[str]:
    return {n.id for n in ast.walk(node) if isinstance(n, ast.Name)}


def _is_copy_of(expr: ast.AST, param: str) -> bool:
    """`dict(p)`, `p.copy()`, `copy(p)`, `{**p}`, `dict(p or {})`"""
    if isinstance(expr, ast.Call):
        f = expr.func
        if isinstance(f, ast.Name) and f.id in ("dict", "copy") and len(expr.args) == 1:
            a = expr.args[0]
            if isinstance(a, ast.Name) and a.id == param:
                return True
            if isinstance(a, ast.BoolOp) and isinstance(a.op, ast.Or) and isinstance(a.values[0], ast.Name) \
                    and a.values[0].id == param:
                return True
        if isinstance(f, ast.Attribute) and f.attr == "copy" and isinstance(f.value, ast.Name) \
                and f.value.id == param and not expr.args:
            return True
    if isinstance(expr, ast.Dict) and expr.keys == [None] and isinstance(expr.values[0], ast.Name) \
            and expr.values[0].id == param:
        return True
    return False


def _is_fresh(expr: ast.AST) -> bool:
    """`dict()`, `{}`"""
    if isinstance(expr, ast.Call) and isinstance(expr.func, ast.Name) and expr.func.id == "dict" \
            and not expr.args and not expr.keywords:
        return True
    return isinstance(expr, ast.Dict) and not expr.keys


def _classify_rebinding(value: ast.AST, param: str) -> str:
    """how `param = <value>` relates the new object to the caller's"""
    if isinstance(value, ast.BoolOp) and isinstance(value.op, ast.Or):
        first = value.values[0]
        if isinstance(first, ast.Name) and first.id == param and all(_is_fresh(v) for v in value.values[1:]):
            return "shared"                       # p or dict()
    if isinstance(value, ast.IfExp):
        t = value.test
        if isinstance(t, ast.Name) and t.id == param:
            if _is_copy_of(value.body, param) and _is_fresh(value.orelse):
                return "copy"                     # dict(p) if p else dict()
            if isinstance(value.body, ast.Name) and value.body.id == param and _is_fresh(value.orelse):
                return "shared"                   # p if p else dict()
    if _is_copy_of(value, param):
        return "copy"
    raise Refusal(f"cannot tell whether `{param} = {ast.unparse(value)}` copies the caller's dictionary")


def quantifier_binding(rel: str, cls_name: str) -> str:
    mod = parse_file(rel)
    fn = find_func(find_class(mod, cls_name), "fitness")
    params = [a.arg for a in fn.args.args]
    if params[:4] != ["self", "tree", "scope", "local_variables"]:
        raise Refusal(f"{cls_name}.fitness has parameters {params}")
    loops = [n for n in fn.body if isinstance(n, ast.For)]
    if not loops:
        raise Refusal(f"{cls_name}.fitness: no top-level for loop")
    loop = loops[0]
    if "quantify" not in ast.unparse(loop.iter):
        raise Refusal(f"{cls_name}.fitness: the first loop does not iterate over search.quantify(...)")
    # the loop must bind by subscript assignment into `scope` / `local_variables`
    stores = {t.value.id for n in ast.walk(loop) if isinstance(n, ast.Assign) for t in n.targets
              if isinstance(t, ast.Subscript) and isinstance(t.value, ast.Name)}
    if not {"scope", "local_variables"} <= stores:
        raise Refusal(f"{cls_name}.fitness: the loop does not assign into scope[...] and local_variables[...]")
    out = {}
    before = fn.body[:fn.body.index(loop)]
    for p in ("scope", "local_variables"):
        kind = "shared"          # no re-binding at all: the caller's object is written
        seen = False
        for st in before:
            for n in ast.walk(st):
                if isinstance(n, (ast.Assign, ast.AugAssign, ast.AnnAssign)) and any(
                        isinstance(t, ast.Name) and t.id == p
                        for t in (n.targets if isinstance(n, ast.Assign) else [n.target])):
                    if n is not st or not isinstance(n, ast.Assign):
                        raise Refusal(f"{cls_name}.fitness: `{p}` is re-bound inside a compound statement")
                    kind = _classify_rebinding(n.value, p)
                    seen = True
        if not seen:
            raise Refusal(f"{cls_name}.fitness: `{p}` may be None and is never normalised before the loop")
        out[p] = kind
    if out["scope"] != out["local_variables"]:
        raise Refusal(f"{cls_name}.fitness: scope is {out['scope']} but local_variables is {out['local_variables']}"
                      " (mixed variant is not modelled)")
    return out["scope"]


def comparison_raise_shape() -> str:
    mod = parse_file("constraints/comparison.py")
    fn = find_func(find_class(mod, "ComparisonConstraint"), "fitness")
    tries = [n for n in ast.walk(fn) if isinstance(n, ast.Try)
             and any(isinstance(c, ast.Call) and isinstance(c.func, ast.Attribute) and c.func.attr == "eval"
                     for b in n.body for c in ast.walk(b))]
    if not tries:
        raise Refusal("ComparisonConstraint.fitness: no try block around self.eval(...)")
    kinds = set()
    for t in tries:
        if len(t.handlers) != 1:
            raise Refusal("ComparisonConstraint.fitness: try with several handlers")
        h = t.handlers[0]
        appended = None
        for n in ast.walk(h):
            if isinstance(n, ast.Call) and isinstance(n.func, ast.Attribute) and n.func.attr == "append" \
                    and isinstance(n.func.value, ast.Name) and n.func.value.id == "fitness_values":
                if len(n.args) == 1 and isinstance(n.args[0], ast.Constant):
                    appended = n.args[0].value
                else:
                    raise Refusal("ComparisonConstraint.fitness: handler appends a non-constant fitness")
        has_continue = any(isinstance(n, ast.Continue) for n in ast.walk(h))
        if appended is None and has_continue:
            kinds.add("skip")
        elif appended is not None and float(appended) == 0.0 and has_continue:
            kinds.add("zero")
        else:
            raise Refusal(f"ComparisonConstraint.fitness: handler records {appended!r}, continue={has_continue}")
    if kinds == {"zero"}:
        return "zero"
    return "skip"                # some raising side is skipped


def comparison_values_binary() -> None:
    """the model takes the value of one comparison combination to be 0.0 or 1.0 (`Fit.dist : List Bool`; C02's float
    theorem `valueF_le_defect` needs it).  That holds of the source exactly while `_distance_norm` never returns a
    number: its type test `dist is float | int` is always false.  Any other text (in particular a repaired test) is
    refused: a distance-aware value 1 - 2*(sigmoid(d) - 0.5) can ROUND to 1.0 for a failed comparison."""
    mod = parse_file("constraints/comparison.py")
    fn = find_func(mod, "_distance_norm")
    tests = [ast.unparse(n.test) for n in ast.walk(fn) if isinstance(n, ast.If)]
    rets = [ast.unparse(n.value) if n.value is not None else "None" for n in ast.walk(fn) if isinstance(n, ast.Return)]
    if tests != ["dist is float | int"] or sorted(rets) != ["None", "None", "dist"]:
        raise Refusal("_distance_norm can return a number now (tests " + repr(tests) + ", returns " + repr(rets)
                      + "): comparison values are no longer 0.0 / 1.0, the model (Fit.dist : List Bool) does not cover them")
    cls = find_class(mod, "ComparisonConstraint")
    uses = [ast.unparse(n) for n in ast.walk(cls) if isinstance(n, ast.Assign)
            and any(isinstance(c, ast.Call) and isinstance(c.func, ast.Name) and c.func.id == "_distance_norm"
                    for c in ast.walk(n.value))]
    if uses != ["dist_norm = _distance_norm(left, right)"]:
        raise Refusal(f"ComparisonConstraint uses _distance_norm differently: {uses}")


def read_config() -> dict[str, Any]:
    comparison_values_binary()
    b1 = quantifier_binding("constraints/forall.py", "ForallConstraint")
    b2 = quantifier_binding("constraints/exists.py", "ExistsConstraint")
    if b1 != b2:
        raise Refusal(f"forall binds on {b1} but exists on {b2} (mixed variant is not modelled)")
    return {"binding": b1, "cmpRaise": comparison_raise_shape()}


HEADER = """/-
GENERATED by harness/translate_cons.py from /repo's current source — do not edit.
`consCfg` is the variant of the operational constraint model (Model/Constraint.lean `OpCfg`) that the
source implements today: read from the `ast` of constraints/forall.py, exists.py (do the quantifiers
bind on a copy of scope/local_variables?) and comparison.py (does a raising side record 0.0?).
Props/C07.lean states `C07_op_eq_denote` for this variant.
-/
import Model.Constraint
namespace FV.Generated

"""


def regenerate() -> dict[str, Any]:
    refusals: list[str] = []
    cfg: dict[str, Any] = {}
    try:
        cfg = read_config()
    except Refusal as e:
        refusals.append(str(e))
    except (OSError, SyntaxError) as e:
        refusals.append(f"cannot read source: {e}")
    body = HEADER
    if cfg:
        body += "def consCfgRead : Bool := true\n"
        body += (f"def consCfg : FV.OpCfg := ⟨.{cfg['binding']}, "
                 f"{'false' if cfg['cmpRaise'] == 'zero' else 'true'}⟩\n")
    else:
        body += "/- the translator refused: " + "; ".join(refusals).replace("-/", "- /") + " -/\n"
        body += "def consCfgRead : Bool := false\n"
        body += "def consCfg : FV.OpCfg := FV.OpCfg.fixed\n"
    body += "\nend FV.Generated\n"
    write_if_changed(LEAN / "Generated" / "Cons.lean", body)
    return {"constants": cfg, "refusals": refusals}


if __name__ == "__main__":
    import json
    print(json.dumps(regenerate(), indent=1))
