"""T-earley: read the admission policy of the Earley chart from /repo's *current* source and emit
`lean/Generated/Earley.lean`.

What is read (Python `ast`, nothing is executed):

* `parse_state.py  ParseState.__hash__` — the attribute names folded into the hash tuple;
* `parse_state.py  ParseState.__eq__`   — the attribute names compared;
* `column.py       Column.add`          — whether a state is only appended `if state not in self.unique`,
                                          and that `unique` is a `set` built from the states;
* `iterative_parser.py  IterativeParser.complete` / `parse_state.py ParseState.covering/set_covering/copy` —
                                          whether `complete` returns at once for a state whose own derivation
                                          `(nonterminal, finished())` is in its `covering` set, and the exact
                                          bookkeeping of that set (the acyclic repair; the same test cuts the
                                          force-completed rounds of INCOMPLETE mode);
* `nodes/__init__.py  MAX_REPETITIONS`  — the cap the OLD compilation used for open upper bounds;
* `iterative_parser.py  visitRepetition` — whether an open-ended `{n,}` (`node.internal_max is None`) is compiled to
                                          n iterations + a right-recursive tail (b48dd899) — `cap := none` — or as
                                          `{n,MAX_REPETITIONS}` (before) — `cap := some MAX_REPETITIONS`;
* `iterative_parser.py  predict`        — whether it ends by completing the finished empty derivations of the predicted
                                          symbol (1d73281f) — `predDone`;
* `iterative_parser.py  scan_bit`       — the guard `if byte > 0xFF: return False` (1ef12755) — `wideGuard`;
* `iterative_parser.py  scan_regex`     — whether only an *incomplete* state's match is compared with the previous match
                                          length (179bde08: an empty match is a match) — `emptyRegex`;
* `iterative_parser.py  _consume`       — the branch `elif curr_table_idx % 8 != 0: match = False` between the bit scan and
                                          the payload scans (a33087ac) — `aligned`;
* `iterative_parser.py  complete` / `parse_state.py  ParseState.__init__/copy/next` — `ParseState.cut_short` (the repair
                                          of finding C19:F68: a state advanced over a derivation that ends with the input
                                          is never advanced again): `cut_short = state.cut_short or not state.finished()`
                                          after the covering cut, `if s.cut_short: continue` at the head of the loop body,
                                          `s.cut_short = cut_short` after `s = s.next()`; `self.cut_short = False` in
                                          `__init__`, `state.cut_short = self.cut_short` in `copy()`; `next()` is
                                          `copy()` + `_dot += 1`; the name occurs nowhere else in the parser package —
                                          `cutShort` (a parameter of the PREFIX-mode model only, `PCfg.cutShort`:
                                          `Gen.cutShort`; COMPLETE mode never sets the flag,
                                          `C06_cut_short_irrelevant_in_complete_mode`).
Each pin has exactly two accepted shapes (the repair present / absent); anything else is refused.

Policy selection (a Python `set` compares hashes first, then `__eq__`):
  duplicate(a, b)  ⇔  a.f == b.f for every field f in  hash_fields ∪ eq_fields
  core fields only                       → Policy.core      (textbook recogniser, terminates: theorem)
  core fields + children                 → Policy.impl      (diverges on cyclic grammars: machine-checked witness)
  … + the covering cut in `complete`     → Policy.acyclic
Anything else (no membership test, an unknown field in the hash, …) is *refused*: the model has no policy
for it, the obligations of C06 count as broken and the check searches for a diverging input.
"""
from __future__ import annotations

import ast
from typing import Any

from harness.common import LEAN
from harness.translate import Refusal, find_class, find_func, module_constant, parse_file

OUT = LEAN / "Generated" / "Earley.lean"
CORE = {"nonterminal", "position", "symbols", "_dot"}
ALIASES = {"_nonterminal": "nonterminal", "_position": "position", "_symbols": "symbols", "dot": None}


def _self_attrs(node: ast.AST) -> list[str]:
    out = []
    for n in ast.walk(node):
        if isinstance(n, ast.Attribute) and isinstance(n.value, ast.Name) and n.value.id == "self":
            out.append(n.attr)
    return out


def hash_fields() -> list[str]:
    cls = find_class(parse_file("language/grammar/parser/parse_state.py"), "ParseState")
    fn = find_func(cls, "__hash__")
    calls = [n for n in ast.walk(fn) if isinstance(n, ast.Call) and isinstance(n.func, ast.Name) and n.func.id == "hash"]
    if len(calls) != 1 or len(calls[0].args) != 1 or not isinstance(calls[0].args[0], ast.Tuple):
        raise Refusal("ParseState.__hash__ is not `hash((…))` of one tuple")
    fields = []
    for elt in calls[0].args[0].elts:
        attrs = [a for a in _self_attrs(elt)]
        if len(attrs) != 1:
            raise Refusal(f"ParseState.__hash__: tuple element {ast.unparse(elt)} is not one attribute of self")
        fields.append(attrs[0])
    return fields


def eq_fields() -> list[str]:
    cls = find_class(parse_file("language/grammar/parser/parse_state.py"), "ParseState")
    fn = find_func(cls, "__eq__")
    fields = []
    for n in ast.walk(fn):
        if isinstance(n, ast.Compare) and len(n.ops) == 1 and isinstance(n.ops[0], ast.Eq):
            l, r = n.left, n.comparators[0]
            if isinstance(l, ast.Attribute) and isinstance(r, ast.Attribute) and l.attr == r.attr \
                    and isinstance(l.value, ast.Name) and l.value.id == "self":
                fields.append(l.attr)
            else:
                raise Refusal(f"ParseState.__eq__: comparison {ast.unparse(n)} is not self.f == other.f")
    if not fields:
        raise Refusal("ParseState.__eq__ compares nothing")
    return fields


def norm(fields: list[str]) -> set[str]:
    out = set()
    for f in fields:
        f = ALIASES.get(f, f) if f in ALIASES else f
        if f is None:
            raise Refusal("field `dot` (a property) in hash/eq is not understood")
        out.add(f)
    return out


def add_membership() -> dict[str, Any]:
    cls = find_class(parse_file("language/grammar/parser/column.py"), "Column")
    add = find_func(cls, "add")
    guarded = False
    for n in ast.walk(add):
        if isinstance(n, ast.If) and isinstance(n.test, ast.Compare) and len(n.test.ops) == 1 \
                and isinstance(n.test.ops[0], ast.NotIn) and ast.unparse(n.test.comparators[0]) == "self.unique":
            appends = [c for c in ast.walk(n) if isinstance(c, ast.Call) and ast.unparse(c.func) == "self.states.append"]
            adds = [c for c in ast.walk(n) if isinstance(c, ast.Call) and ast.unparse(c.func) == "self.unique.add"]
            guarded = bool(appends) and bool(adds)
    # an append outside the guard means every state is admitted
    all_appends = [c for c in ast.walk(add) if isinstance(c, ast.Call) and ast.unparse(c.func) == "self.states.append"]
    init = find_func(cls, "__init__")
    unique_is_set = any(isinstance(n, ast.Assign) and ast.unparse(n.targets[0]) == "self.unique"
                        and isinstance(n.value, ast.Call) and ast.unparse(n.value.func) == "set"
                        for n in ast.walk(init))
    return {"guarded": guarded and len(all_appends) == 1, "unique_is_set": unique_is_set}


def _norm(node: ast.AST) -> str:
    return ast.unparse(node).replace(" ", "")


def covering_cut() -> dict[str, Any]:
    """the acyclic repair, read from `IterativeParser.complete` and `ParseState`:

    * head of `complete`: `derivation = (state.nonterminal, state.finished())`, `covering = state.covering(k)`,
      `if derivation in covering: return`  — before the loop over `find_dot`;
    * loop body: a set that receives `derivation` and `covering` under `s.position == state.position`, and
      `s.covering(k)` under `state.position == k`, handed to `s.set_covering(k, frozenset(…))` after `s = s.next()`;
    * `ParseState.covering(column)` answers only for the column it was set for; `copy()` carries it.

    Returns {"cut": bool, "prefix": bool}; raises Refusal when the word `covering` occurs in `complete` in a shape
    other than this one (the model has no policy for it)."""
    cls = find_class(parse_file("language/grammar/parser/iterative_parser.py"), "IterativeParser")
    fn = find_func(cls, "complete")
    if "covering" not in ast.unparse(fn):
        if "cut_short" in ast.unparse(fn):
            raise Refusal("complete: `cut_short` without the covering cut")
        return {"cut": False, "prefix": False, "cut_short_complete": (False, False, False)}
    body = [st for st in fn.body if not (isinstance(st, ast.Expr) and isinstance(st.value, ast.Constant))]
    loops = [i for i, st in enumerate(body) if isinstance(st, ast.For)]
    if len(loops) != 1:
        raise Refusal("complete: expected exactly one loop over find_dot")
    head, loop = body[:loops[0]], body[loops[0]]
    heads = [_norm(st).replace("    ", "") for st in head]
    want_head = ["derivation=(state.nonterminal,state.finished())", "covering=state.covering(k)",
                 "ifderivationincovering:\nreturn"]
    # the repair of C19:F68 adds one statement after the cut
    cut_head = heads[3:] == [CUT_SHORT_HEAD]
    if heads[:3] != want_head or (len(heads) > 3 and not cut_head):
        raise Refusal(f"complete: head of the covering cut has an unknown shape: {heads}")
    if _norm(loop.iter) != "table[state.position].find_dot(state.nonterminal)":
        raise Refusal("complete: loop does not run over table[state.position].find_dot(state.nonterminal)")
    set_name = None
    conds: dict[str, list[str]] = {}
    handed = False
    advanced_before_set = False
    seen_next = False
    cut_skip = bool(loop.body) and _norm(loop.body[0]).replace("    ", "") == CUT_SHORT_SKIP
    cut_set = False
    cut_set_in_place = False
    for st in loop.body:
        if "cut_short" in _norm(st):
            if st is loop.body[0] and cut_skip:
                continue
            if _norm(st) == CUT_SHORT_SET and not cut_set:
                cut_set = True
                cut_set_in_place = seen_next and not handed      # between `s = s.next()` and `s.set_covering(…)`
                continue
            raise Refusal(f"complete: `cut_short` is used in an unknown shape: {_norm(st)}")
        if isinstance(st, ast.AnnAssign) and _norm(st.value) == "set()" or \
                isinstance(st, ast.Assign) and _norm(st.value) == "set()":
            tgt = st.target if isinstance(st, ast.AnnAssign) else st.targets[0]
            set_name = _norm(tgt)
        elif isinstance(st, ast.If) and set_name and any(set_name + "." in _norm(b) for b in st.body):
            conds[_norm(st.test)] = sorted(_norm(b) for b in st.body)
            if st.orelse:
                raise Refusal("complete: covering bookkeeping with an else branch")
        elif _norm(st) == "s=s.next()":
            seen_next = True
        elif set_name and _norm(st) == f"s.set_covering(k,frozenset({set_name}))":
            handed = True
            advanced_before_set = seen_next
    want_conds = {
        "s.position==state.position": sorted([f"{set_name}.add(derivation)", f"{set_name}.update(covering)"]),
        "state.position==k": [f"{set_name}.update(s.covering(k))"],
    }
    if conds != want_conds or not handed or not advanced_before_set:
        raise Refusal(f"complete: covering bookkeeping has an unknown shape: {conds}, handed={handed}")
    # ParseState side
    ps = find_class(parse_file("language/grammar/parser/parse_state.py"), "ParseState")
    cov = find_func(ps, "covering")
    rets = [_norm(n.value) for n in ast.walk(cov) if isinstance(n, ast.Return) and n.value is not None]
    if rets != ["self._coveringifself._covering_column==columnelsefrozenset()"]:
        raise Refusal(f"ParseState.covering has an unknown shape: {rets}")
    setc = find_func(ps, "set_covering")
    sets = sorted(_norm(st) for st in setc.body if not isinstance(st, ast.Expr))
    if sets != ["self._covering=covering", "self._covering_column=column"]:
        raise Refusal(f"ParseState.set_covering has an unknown shape: {sets}")
    cp = find_func(ps, "copy")
    if "set_covering(self._covering_column,self._covering)" not in _norm(cp):
        raise Refusal("ParseState.copy does not carry the covering set")
    # `table[k].add(s)` is the last statement of the loop body (the advanced, marked state is what is admitted)
    if _norm(loop.body[-1]) != "table[k].add(s)":
        raise Refusal("complete: the loop body does not end with table[k].add(s)")
    # the cut sits at the head of `complete`, which the INCOMPLETE end-of-input loop calls for every state with
    # children: the same test (with `finished()` False) cuts the force-completed rounds of prefix mode
    return {"cut": True, "prefix": True, "cut_short_complete": (cut_head, cut_skip, cut_set and cut_set_in_place)}


CUT_SHORT_HEAD = "cut_short=state.cut_shortornotstate.finished()"
CUT_SHORT_SKIP = "ifs.cut_short:\ncontinue"
CUT_SHORT_SET = "s.cut_short=cut_short"
PARSER_PKG = "language/grammar/parser"


def _mentions(node: ast.AST, name: str) -> int:
    """occurrences of the identifier / attribute / keyword / string `name` below `node`"""
    n = 0
    for x in ast.walk(node):
        if isinstance(x, ast.Name) and x.id == name or isinstance(x, ast.Attribute) and x.attr == name \
                or isinstance(x, ast.keyword) and x.arg == name or isinstance(x, ast.arg) and x.arg == name \
                or isinstance(x, ast.Constant) and x.value == name:
            n += 1
    return n


def cut_short(in_complete: tuple[bool, bool, bool]) -> bool:
    """`ParseState.cut_short` (the repair of C19:F68): present in exactly the shape the model has
    (`Model/EarleyPrefix.lean`: `advanceP`, `stepB`), or absent altogether; `in_complete` = what `covering_cut` found
    in `IterativeParser.complete` (head statement, skip, mark)"""
    from harness.common import REPO_SRC
    ps_mod = parse_file(PARSER_PKG + "/parse_state.py")
    ps = find_class(ps_mod, "ParseState")
    init, cp, nxt = find_func(ps, "__init__"), find_func(ps, "copy"), find_func(ps, "next")
    if [_norm(st) for st in strip_body(nxt)] != ["next_state=self.copy()", "next_state._dot+=1", "returnnext_state"]:
        raise Refusal("ParseState.next is not copy() + `_dot += 1`")
    init_sets = [_norm(st) for st in ast.walk(init) if isinstance(st, (ast.Assign, ast.AnnAssign)) and "cut_short" in _norm(st)]
    cp_body = [_norm(st) for st in strip_body(cp)]
    cp_sets = [x for x in cp_body if "cut_short" in x]
    in_init = init_sets == ["self.cut_short=False"] and any(_norm(st) == "self.cut_short=False" for st in init.body)
    # `state = ParseState(…)` … `state.cut_short = self.cut_short` … `return state`
    in_copy = cp_sets == ["state.cut_short=self.cut_short"] and cp_body[0].startswith("state=ParseState(") \
        and cp_body[-1] == "returnstate"
    # the name occurs nowhere else in the parser package
    total = 0
    for f in sorted((REPO_SRC / "fandango" / PARSER_PKG).glob("*.py")):
        total += _mentions(parse_file(PARSER_PKG + "/" + f.name), "cut_short")
    comp = _ip_func("complete")
    pinned = _mentions(comp, "cut_short") + _mentions(init, "cut_short") + _mentions(cp, "cut_short")
    parts = list(in_complete) + [in_init, in_copy]
    if all(parts):
        # complete: target + state.cut_short, s.cut_short (skip), s.cut_short + cut_short (mark) = 5; __init__ 1; copy 2
        if total != pinned or pinned != 8:
            raise Refusal(f"`cut_short` is used outside the pinned statements ({total} occurrences in the parser "
                          f"package, {pinned} in complete / ParseState.__init__ / copy)")
        return True
    if not any(parts) and total == 0:
        return False
    raise Refusal(f"`cut_short` is only partly there: complete (head, skip, mark) = {tuple(in_complete)}, "
                  f"ParseState.__init__ = {in_init}, copy = {in_copy}, occurrences = {total}")


def _ip_func(name: str) -> ast.FunctionDef:
    cls = find_class(parse_file("language/grammar/parser/iterative_parser.py"), "IterativeParser")
    return find_func(cls, name)


OPEN_TAIL_BODY = [
    "tail_alts:IterativeParserVisitorReturnType=[[]]",
    "tail=self.set_implicit_rule(tail_alts)",
    "tail_alts.append([nt,tail])",
    "min_nt=self.set_implicit_rule([node_min*[nt]+[tail]])",
    "self.set_rule(repetition_nt,[[min_nt]])",
    "return[[(repetition_nt,frozenset())]]",
]


def open_tail() -> bool:
    """`visitRepetition`: `if node.internal_max is None:` + the tail construction, inside the branch that reads
    `node.min` / `node.max` (no bounds constraint)"""
    fn = _ip_func("visitRepetition")
    hits = [n for n in ast.walk(fn) if isinstance(n, ast.If) and "internal_max" in _norm(n.test)]
    if not hits:
        if "internal_max" in _norm(fn):
            raise Refusal("visitRepetition mentions internal_max outside an `if`")
        return False
    if len(hits) != 1 or _norm(hits[0].test) != "node.internal_maxisNone" or hits[0].orelse:
        raise Refusal("visitRepetition: the open-ended branch has an unknown test")
    body = [_norm(st) for st in hits[0].body]
    if body != OPEN_TAIL_BODY:
        raise Refusal(f"visitRepetition: the open-ended branch has an unknown shape: {body}")
    return True


PRED_DONE = ("fordonein[sforsintable[k].statesifs.position==kands.nonterminal==symbolands.finished()]:"
             "\nself.complete(done,table,k)")


def pred_done() -> bool:
    """`predict`: after the prediction branches, `for done in [finished states of `symbol` that start in column k]:
    self.complete(done, table, k)`; the computed-repetition branch returns before it"""
    fn = _ip_func("predict")
    body = strip_body(fn)
    loops = [st for st in body if isinstance(st, ast.For)]
    if not loops:
        if "complete" in _norm(fn):
            raise Refusal("predict calls complete in an unknown shape")
        return False
    if len(loops) != 1 or body[-1] is not loops[0]:
        raise Refusal("predict: expected one trailing loop over the finished states")
    if _norm(loops[0]).replace("    ", "") != PRED_DONE:
        raise Refusal(f"predict: the trailing loop has an unknown shape: {_norm(loops[0])}")
    return True


def strip_body(fn: ast.FunctionDef) -> list:
    return [st for st in fn.body if not (isinstance(st, ast.Expr) and isinstance(st.value, ast.Constant))]


def wide_guard() -> bool:
    """`scan_bit`: `byte = …` ; `if byte > 255: return False` ; `bit = byte >> bit_count & 1`"""
    body = strip_body(_ip_func("scan_bit"))
    idx = [i for i, st in enumerate(body) if isinstance(st, ast.Assign) and _norm(st.targets[0]) == "byte"]
    if len(idx) != 1:
        raise Refusal("scan_bit: no single assignment to `byte`")
    i = idx[0]
    nxt = _norm(body[i + 1]).replace("    ", "")
    if nxt.startswith("bit="):
        if nxt != "bit=byte>>bit_count&1":
            raise Refusal(f"scan_bit: unknown bit extraction {nxt}")
        return False
    if nxt != "ifbyte>255:\nreturnFalse" or _norm(body[i + 2]) != "bit=byte>>bit_count&1":
        raise Refusal(f"scan_bit: unknown statements after `byte = …`: {nxt}")
    return True


def empty_regex() -> bool:
    """`scan_regex`: the test that discards a match not longer than the previous (incomplete) match"""
    fn = _ip_func("scan_regex")
    tests = [_norm(n.test).replace("(", "").replace(")", "") for n in ast.walk(fn)
             if isinstance(n, ast.If) and "prev_match_length" in _norm(n.test)]
    if tests == ["state.is_incompleteandmatchandmatch_length<=prev_match_length"]:
        return True
    if tests == ["matchandmatch_length<=prev_match_length"]:
        return False
    raise Refusal(f"scan_regex: unknown comparison with prev_match_length: {tests}")


def aligned_scan() -> bool:
    """`_consume`: `if dot is bits: scan_bit … [elif curr_table_idx % 8 != 0: match = False] else: regex / bytes`"""
    fn = _ip_func("_consume")
    bit_ifs = [n for n in ast.walk(fn) if isinstance(n, ast.If)
               and _norm(n.test) == "state.dotisnotNoneandstate.dot.is_type(TreeValueType.TRAILING_BITS_ONLY)"]
    if len(bit_ifs) != 1 or len(bit_ifs[0].orelse) != 1 or not isinstance(bit_ifs[0].orelse[0], ast.If):
        raise Refusal("_consume: the scan dispatch has an unknown shape")
    nxt = bit_ifs[0].orelse[0]
    payload = "state.dotisnotNoneandstate.dot.is_regex"
    if _norm(nxt.test) == payload:
        return False
    if _norm(nxt.test) == "curr_table_idx%8!=0" and [_norm(b) for b in nxt.body] == ["match=False"] \
            and len(nxt.orelse) == 1 and isinstance(nxt.orelse[0], ast.If) and _norm(nxt.orelse[0].test) == payload:
        return True
    raise Refusal(f"_consume: unknown branch after the bit scan: {_norm(nxt.test)}")


def max_repetitions() -> int:
    return int(module_constant(parse_file("language/grammar/nodes/__init__.py"), "MAX_REPETITIONS"))


def regenerate() -> dict:
    info: dict[str, Any] = {"refusals": []}
    policy = None
    try:
        hf, ef = hash_fields(), eq_fields()
        info["hash_fields"], info["eq_fields"] = hf, ef
        mem = add_membership()
        info.update(mem)
        cut = covering_cut()
        info["covering_cut"] = cut["cut"]
        info["prefix_cut"] = cut["prefix"]
        info["cut_short"] = cut_short(cut["cut_short_complete"])
        info["max_repetitions"] = max_repetitions()
        if not mem["guarded"] or not mem["unique_is_set"]:
            raise Refusal("Column.add does not admit a state only `if state not in self.unique` (a set)")
        key = norm(hf) | norm(ef)
        if not CORE <= key:
            raise Refusal(f"hash/eq of ParseState miss core fields: {sorted(CORE - key)}")
        extra = key - CORE
        if extra == set():
            policy = "core"
        elif extra == {"children"}:
            policy = "acyclic" if info["covering_cut"] else "impl"
        else:
            raise Refusal(f"ParseState hash/eq use fields the model has no policy for: {sorted(extra - {'children'})}")
    except Refusal as e:
        info["refusals"].append(str(e))
    for key, fn in (("open_tail", open_tail), ("pred_done", pred_done), ("wide_guard", wide_guard),
                    ("empty_regex", empty_regex), ("aligned", aligned_scan)):
        try:
            info[key] = fn()
        except Refusal as e:
            info["refusals"].append(str(e))
    info["policy"] = policy
    lean_policy = {"core": ".core", "impl": ".impl", "acyclic": ".acyclic"}.get(policy or "", None)
    variant = None
    if lean_policy and not info["refusals"]:
        variant = {"policy": policy, "cap": None if info["open_tail"] else info["max_repetitions"],
                   "predDone": info["pred_done"], "aligned": info["aligned"], "wideGuard": info["wide_guard"],
                   "emptyRegex": info["empty_regex"],
                   # prefix mode only (`PCfg.cutShort`; the driver's op `prefix` reads it, `parse` ignores it)
                   "cutShort": bool(info.get("cut_short"))}
    info["variant"] = variant

    def b(x):
        return "true" if x else "false"
    if variant:
        lean_variant = ("some { policy := " + lean_policy + ", cap := " +
                        ("none" if variant["cap"] is None else f"some {variant['cap']}") +
                        f", predDone := {b(variant['predDone'])}, aligned := {b(variant['aligned'])}, "
                        f"wideGuard := {b(variant['wideGuard'])}, emptyRegex := {b(variant['emptyRegex'])} }}")
    else:
        lean_variant = "none"
    lines = [
        "/-",
        "GENERATED by harness/translate_earley.py from /repo's current source — do not edit.",
        "The admission policy of the Earley chart as the code has it now (ParseState.__hash__/__eq__, Column.add,",
        "IterativeParser.complete) and which of the parser repairs the source carries (visitRepetition, predict,",
        "scan_bit, scan_regex, _consume); Props/C04.lean and Props/C06.lean state their verdicts for this variant.",
        "-/",
        "import Model.Earley",
        "namespace FV.Earley.Gen",
        "",
        f"def hashFields : List String := {lean_list(info.get('hash_fields', []))}",
        f"def eqFields : List String := {lean_list(info.get('eq_fields', []))}",
        f"def addGuardedByMembership : Bool := {'true' if info.get('guarded') else 'false'}",
        f"def coveringCut : Bool := {'true' if info.get('covering_cut') else 'false'}",
        f"def prefixCut : Bool := {'true' if info.get('prefix_cut') else 'false'}",
        f"def maxRepetitions : Nat := {info.get('max_repetitions', 20)}",
        f"def openTail : Bool := {b(info.get('open_tail'))}",
        f"def predDone : Bool := {b(info.get('pred_done'))}",
        f"def alignedScan : Bool := {b(info.get('aligned'))}",
        f"def wideGuard : Bool := {b(info.get('wide_guard'))}",
        f"def emptyRegex : Bool := {b(info.get('empty_regex'))}",
        "/-- the source has `ParseState.cut_short` (a state advanced over a derivation that ends with the input is never",
        "    advanced again): the parameter `PCfg.cutShort` of the prefix-mode model; meaningless when `variant = none` -/",
        f"def cutShort : Bool := {b(info.get('cut_short'))}",
        "",
        "/-- `none`: the translator refused (the source has a shape the model has no policy for) -/",
        f"def policy : Option Policy := {'some ' + lean_policy if lean_policy else 'none'}",
        "",
        "/-- the variant of the parser the source is (`none`: refused) -/",
        f"def variant : Option Variant := {lean_variant}",
        "",
        "end FV.Earley.Gen",
        "",
    ]
    text = "\n".join(lines)
    if not OUT.exists() or OUT.read_text() != text:
        OUT.write_text(text)
    return info


def lean_list(xs: list[str]) -> str:
    return "[" + ", ".join('"' + x + '"' for x in xs) + "]"


if __name__ == "__main__":
    import json
    print(json.dumps(regenerate(), indent=1))
