"""T-env: regenerate `lean/Generated/Env.lean` from /repo's current source (C18).

Extracts, from the Python AST:
  * the constants of `AdaptiveTuner.update_parameters` (thresholds, factors, clamps) and the safe caps
    of `AdaptiveTuner.__init__` — the *shape* of update_parameters is pinned (numeric constants
    abstracted, logging stripped): any other shape is refused,
  * the keyword defaults of `evolution.algorithm.Fandango.__init__` that reach the tuner and the way
    the tuner is constructed / glued to the cap in `_generate_simple` / `_generate_io`,
  * the library default `nodes.MAX_REPETITIONS`,
  * WHERE the repetition cap lives: `.moduleGlobal` (set_max_repetition writes the module attribute
    that every Repetition reads) or `.perGrammar` (an attribute of the Grammar object, the module
    constant has no writer anywhere in src/fandango).

All floats are emitted as exact ratios (`float.as_integer_ratio()`), i.e. as `Dy` literals.
"""
from __future__ import annotations

import ast
from typing import Any

from harness.common import LEAN
from harness.translate import FD, Refusal, find_class, find_func, module_constant, parse_file, strip_doc, \
    write_if_changed


def dy(x: float | int) -> str:
    x = float(x)
    if x < 0 or x != x or x in (float("inf"),):
        raise Refusal(f"constant {x!r} is outside the modelled range (finite, >= 0)")
    n, d = x.as_integer_ratio()
    e = d.bit_length() - 1
    assert d == 1 << e
    return f"⟨{n}, {e}⟩"


# ------------------------------------------------------------------------------------------------
# update_parameters: pinned shape, constants by position
# ------------------------------------------------------------------------------------------------

class _Abstract(ast.NodeTransformer):
    def __init__(self):
        self.consts: list[Any] = []

    def visit_Constant(self, node: ast.Constant):
        if isinstance(node.value, (int, float)) and not isinstance(node.value, bool):
            self.consts.append(node.value)
            return ast.copy_location(ast.Name(id=f"K{len(self.consts) - 1}", ctx=ast.Load()), node)
        return node


def _is_logger_call(stmt: ast.stmt) -> bool:
    return (isinstance(stmt, ast.Expr) and isinstance(stmt.value, ast.Call)
            and isinstance(stmt.value.func, ast.Attribute)
            and isinstance(stmt.value.func.value, ast.Name) and stmt.value.func.value.id == "LOGGER")


class _StripLogging(ast.NodeTransformer):
    def generic_visit(self, node):
        super().generic_visit(node)
        for field in ("body", "orelse"):
            b = getattr(node, field, None)
            if isinstance(b, list) and b and isinstance(b[0], ast.stmt):
                nb = [s for s in b if not _is_logger_call(s)]
                setattr(node, field, nb or ([ast.Pass()] if field == "body" else []))
        return node


UPDATE_SHAPE = """\
diversities = evaluator.compute_diversity_bonus(population)
avg_diversity = sum(diversities) / len(diversities) if diversities else K0
if prev_best_fitness > K1:
    fitness_improvement = (current_best_fitness - prev_best_fitness) / prev_best_fitness
else:
    fitness_improvement = current_best_fitness
fitness_improvement_threshold = K2
diversity_low_threshold = K3
if fitness_improvement < fitness_improvement_threshold or avg_diversity < diversity_low_threshold:
    new_mutation_rate = min(K4, self.mutation_rate * K5)
    self.mutation_rate = new_mutation_rate
else:
    new_mutation_rate = max(K6, self.mutation_rate * K7)
    self.mutation_rate = new_mutation_rate
if avg_diversity < diversity_low_threshold:
    new_crossover_rate = max(K8, self.crossover_rate * K9)
    self.crossover_rate = new_crossover_rate
else:
    new_crossover_rate = min(K10, self.crossover_rate * K11)
    self.crossover_rate = new_crossover_rate
if fitness_improvement < fitness_improvement_threshold or avg_diversity < diversity_low_threshold:
    increment = math.ceil(self.max_repetition_rate * self.current_max_repetition)
    increment = max(K12, increment)
    new_max_repetition = self.current_max_repetition + increment
    if self.max_repetitions is not None:
        new_max_repetition = min(new_max_repetition, self.max_repetitions)
    new_max_repetition = min(new_max_repetition, self.max_safe_repetition)
    if new_max_repetition > self.current_max_repetition:
        self.current_max_repetition = new_max_repetition
if fitness_improvement < fitness_improvement_threshold or avg_diversity < diversity_low_threshold:
    increment = math.ceil(self.max_nodes_rate * self.current_max_nodes)
    increment = max(K13, increment)
    new_max_nodes = self.current_max_nodes + increment
    new_max_nodes = min(new_max_nodes, self.max_nodes)
    new_max_nodes = min(new_max_nodes, self.max_safe_nodes)
    if new_max_nodes > self.current_max_nodes:
        self.current_max_nodes = new_max_nodes
return (self.mutation_rate, self.crossover_rate)"""

INIT_SHAPE = """\
self.initial_mutation_rate = initial_mutation_rate
self.initial_crossover_rate = initial_crossover_rate
self.initial_max_repetition = initial_max_repetition
self.initial_max_nodes = initial_max_nodes
self.mutation_rate = initial_mutation_rate
self.crossover_rate = initial_crossover_rate
self.max_repetitions = max_repetition
self.current_max_repetition = initial_max_repetition
self.max_repetition_rate = max_repetition_rate
self.max_nodes = max_nodes
self.current_max_nodes = initial_max_nodes
self.max_nodes_rate = max_nodes_rate
self.max_safe_repetition = max_safe_repetition
self.max_safe_nodes = max_safe_nodes"""

RESET_SHAPE = """\
self.mutation_rate = self.initial_mutation_rate
self.crossover_rate = self.initial_crossover_rate
self.current_max_repetition = self.initial_max_repetition
self.current_max_nodes = self.initial_max_nodes"""


def _body_text(fn: ast.FunctionDef, abstract: bool) -> tuple[str, list[Any]]:
    mod = ast.Module(body=strip_doc(fn), type_ignores=[])
    mod = _StripLogging().visit(mod)
    ab = _Abstract()
    if abstract:
        mod = ab.visit(mod)
    ast.fix_missing_locations(mod)
    return ast.unparse(mod).strip(), ab.consts


def _defaults(fn: ast.FunctionDef) -> dict[str, Any]:
    out = {}
    a = fn.args
    pos = a.args[len(a.args) - len(a.defaults):]
    for arg, d in zip(pos, a.defaults):
        out[arg.arg] = d
    for arg, d in zip(a.kwonlyargs, a.kw_defaults):
        if d is not None:
            out[arg.arg] = d
    return out


def tuner_constants() -> dict[str, str]:
    mod = parse_file("evolution/adaptation.py")
    cls = find_class(mod, "AdaptiveTuner")
    text, k = _body_text(find_func(cls, "update_parameters"), abstract=True)
    if text != UPDATE_SHAPE:
        import difflib
        d = "\n".join(list(difflib.unified_diff(UPDATE_SHAPE.splitlines(), text.splitlines(), lineterm="", n=0))[:12])
        raise Refusal("AdaptiveTuner.update_parameters no longer has the modelled shape:\n" + d)
    if len(k) != 14 or k[0] != 0 or k[1] != 0:
        raise Refusal(f"update_parameters: unexpected constants {k}")
    if not (k[2] > 0 and k[3] > 0):
        raise Refusal("thresholds must be positive for the modelled comparison of a negative improvement")
    if k[12] != k[13]:
        raise Refusal("different minimum increments for repetitions and nodes are not modelled")
    init = find_func(cls, "__init__")
    itext, _ = _body_text(init, abstract=False)
    if itext != INIT_SHAPE:
        raise Refusal("AdaptiveTuner.__init__ no longer has the modelled shape")
    order = [a.arg for a in init.args.args]
    want = ["self", "initial_mutation_rate", "initial_crossover_rate", "initial_max_repetition",
            "initial_max_nodes", "max_repetition", "max_repetition_rate", "max_nodes", "max_nodes_rate",
            "max_safe_repetition", "max_safe_nodes"]
    if order != want:
        raise Refusal(f"AdaptiveTuner.__init__ parameters changed: {order}")
    rtext, _ = _body_text(find_func(cls, "reset_parameters"), abstract=False)
    if rtext != RESET_SHAPE:
        raise Refusal("AdaptiveTuner.reset_parameters no longer has the modelled shape")
    dfl = _defaults(init)
    safe_rep = ast.literal_eval(dfl["max_safe_repetition"])
    safe_nodes = ast.literal_eval(dfl["max_safe_nodes"])
    return {
        "fitThr": dy(k[2]), "divThr": dy(k[3]),
        "mutHi": dy(k[4]), "mutUp": dy(k[5]), "mutLo": dy(k[6]), "mutDown": dy(k[7]),
        "crLo": dy(k[8]), "crDown": dy(k[9]), "crHi": dy(k[10]), "crUp": dy(k[11]),
        "minInc": str(int(k[12])), "safeRep": str(int(safe_rep)), "safeNodes": str(int(safe_nodes)),
    }


# ------------------------------------------------------------------------------------------------
# Fandango.__init__ defaults and glue
# ------------------------------------------------------------------------------------------------

GLUE_CTOR = ("AdaptiveTuner(mutation_rate, crossover_rate, grammar.get_max_repetition(), max_nodes, "
             "max_repetitions, max_repetition_rate, max_nodes, max_nodes_rate)")
GLUE_GEN = [
    "current_max_repetitions = self.grammar.get_max_repetition()",
    "self.adaptive_tuner.update_parameters(generation, prev_best_fitness, current_best_fitness, "
    "self.population, self.evaluator, current_max_repetitions)",
    "if self.adaptive_tuner.current_max_repetition > current_max_repetitions:\n"
    "    self.grammar.set_max_repetition(self.adaptive_tuner.current_max_repetition)",
]
GLUE_IO = ["self.adaptive_tuner.reset_parameters()",
           "self.grammar.set_max_repetition(self.adaptive_tuner.current_max_repetition)"]


def _stmts_text(fn: ast.FunctionDef) -> list[str]:
    return [ast.unparse(s) for s in ast.walk(fn) if isinstance(s, ast.stmt)]


def algorithm_settings() -> dict[str, str]:
    mod = parse_file("evolution/algorithm.py")
    cls = find_class(mod, "Fandango")
    init = find_func(cls, "__init__")
    ctor = [ast.unparse(c) for c in ast.walk(init) if isinstance(c, ast.Call)
            and isinstance(c.func, ast.Name) and c.func.id == "AdaptiveTuner"]
    if ctor != [GLUE_CTOR]:
        raise Refusal(f"Fandango.__init__ constructs the tuner differently: {ctor}")
    gen = _stmts_text(find_func(cls, "_generate_simple"))
    for g in GLUE_GEN:
        if gen.count(g) != 1:
            raise Refusal(f"_generate_simple: expected exactly one `{g.splitlines()[0]}`")
    setters = [ast.unparse(s) for s in ast.walk(find_func(cls, "_generate_simple"))
               if isinstance(s, ast.Expr) and "set_max_repetition" in ast.unparse(s)]
    if len(setters) != 1:
        raise Refusal(f"_generate_simple: unexpected writers of the cap: {setters}")
    io = _stmts_text(find_func(cls, "_generate_io"))
    for g in GLUE_IO:
        if io.count(g) != 1:
            raise Refusal(f"_generate_io: expected exactly one `{g}`")
    # no other caller of set_max_repetition in the package
    callers = []
    for path in sorted(FD.rglob("*.py")):
        if "language/parser" in str(path):
            continue
        try:
            tree = ast.parse(path.read_text())
        except SyntaxError as e:
            raise Refusal(f"cannot parse {path}: {e}")
        for c in ast.walk(tree):
            if isinstance(c, ast.Call) and isinstance(c.func, ast.Attribute) and c.func.attr == "set_max_repetition":
                callers.append(str(path.relative_to(FD)))
    if sorted(callers) != ["evolution/algorithm.py", "evolution/algorithm.py"]:
        raise Refusal(f"callers of set_max_repetition changed: {callers}")
    d = _defaults(init)

    def lit(name):
        return ast.literal_eval(d[name])

    mr = lit("max_repetitions")
    return {
        "mutR": dy(lit("mutation_rate")), "crossR": dy(lit("crossover_rate")),
        "maxReps": "none" if mr is None else f"some {int(mr)}",
        "repRate": dy(lit("max_repetition_rate")), "maxNodes": str(int(lit("max_nodes"))),
        "nodesRate": dy(lit("max_nodes_rate")),
    }


# ------------------------------------------------------------------------------------------------
# where the cap lives
# ------------------------------------------------------------------------------------------------

def _writers_of_module_cap() -> list[str]:
    """every store to a name / attribute called MAX_REPETITIONS in src/fandango (except its definition)"""
    out = []
    for path in sorted(FD.rglob("*.py")):
        if "language/parser" in str(path):
            continue
        rel = str(path.relative_to(FD))
        tree = ast.parse(path.read_text())
        for n in ast.walk(tree):
            targets = []
            if isinstance(n, ast.Assign):
                targets = n.targets
            elif isinstance(n, (ast.AugAssign, ast.AnnAssign)):
                targets = [n.target]
            elif isinstance(n, ast.Global) and "MAX_REPETITIONS" in n.names:
                out.append(f"{rel}:{n.lineno}:global")
            elif isinstance(n, ast.Call) and isinstance(n.func, ast.Name) and n.func.id == "setattr" \
                    and any(isinstance(a, ast.Constant) and a.value == "MAX_REPETITIONS" for a in n.args):
                out.append(f"{rel}:{n.lineno}:setattr")
            for t in targets:
                for s in ast.walk(t):
                    if (isinstance(s, ast.Attribute) and s.attr == "MAX_REPETITIONS") or \
                            (isinstance(s, ast.Name) and s.id == "MAX_REPETITIONS"):
                        if rel == "language/grammar/nodes/__init__.py" and isinstance(s, ast.Name):
                            continue
                        out.append(f"{rel}:{n.lineno}")
    return out


def cap_location() -> dict[str, str]:
    default = module_constant(parse_file("language/grammar/nodes/__init__.py"), "MAX_REPETITIONS")
    if not isinstance(default, int) or default <= 0:
        raise Refusal(f"nodes.MAX_REPETITIONS = {default!r}")
    gmod = parse_file("language/grammar/grammar.py")
    gcls = find_class(gmod, "Grammar")
    set_src = "\n".join(ast.unparse(s) for s in strip_doc(find_func(gcls, "set_max_repetition")))
    get_src = "\n".join(ast.unparse(s) for s in strip_doc(find_func(gcls, "get_max_repetition")))
    rmod = parse_file("language/grammar/nodes/repetition.py")
    max_src = "\n".join(ast.unparse(s) for s in strip_doc(find_func(find_class(rmod, "Repetition"), "max")))
    writers = _writers_of_module_cap()
    if set_src == "nodes.MAX_REPETITIONS = max_rep" and get_src == "return nodes.MAX_REPETITIONS" \
            and max_src == "if self._max is None:\n    return nodes.MAX_REPETITIONS\nreturn self._max":
        if len(writers) != 1 or not writers[0].startswith("language/grammar/grammar.py:"):
            raise Refusal(f"module-global design with unexpected writers of MAX_REPETITIONS: {writers}")
        loc = ".moduleGlobal"
    elif not writers and get_src == "return self._max_repetition" \
            and set_src.startswith("self._max_repetition = max_rep") \
            and "open_max" in max_src and "nodes.MAX_REPETITIONS" in max_src:
        # per-grammar design: the module constant has no writer at all; the grammar stores its cap
        # and hands it to its own repetition nodes
        fn = find_func(gcls, "set_max_repetition")
        for n in ast.walk(fn):
            if isinstance(n, (ast.Assign, ast.AugAssign)):
                for t in (n.targets if isinstance(n, ast.Assign) else [n.target]):
                    for s in ast.walk(t):
                        if isinstance(s, ast.Attribute) and isinstance(s.value, ast.Name) \
                                and s.value.id not in ("self", "node"):
                            raise Refusal(f"set_max_repetition writes {ast.unparse(s)}")
        ginit = "\n".join(ast.unparse(s) for s in strip_doc(find_func(gcls, "__init__")))
        if "self._max_repetition: int = nodes.MAX_REPETITIONS" not in ginit \
                and "self._max_repetition = nodes.MAX_REPETITIONS" not in ginit:
            raise Refusal("Grammar.__init__ does not initialise its own cap from the library default")
        loc = ".perGrammar"
    else:
        raise Refusal("cannot tell where the repetition cap lives:\n  set: " + set_src.replace("\n", " | ")
                      + "\n  get: " + get_src + "\n  max: " + max_src.replace("\n", " | ")
                      + f"\n  writers: {writers}")
    return {"capLocation": loc, "defaultMaxRepetitions": str(default)}


# ------------------------------------------------------------------------------------------------
# how the parser compiles an open-ended repetition
# ------------------------------------------------------------------------------------------------

OPEN_TAIL = ("tail_alts: IterativeParserVisitorReturnType = [[]]\n"
             "tail = self.set_implicit_rule(tail_alts)\n"
             "tail_alts.append([nt, tail])\n"
             "min_nt = self.set_implicit_rule([node_min * [nt] + [tail]])\n"
             "self.set_rule(repetition_nt, [[min_nt]])\n"
             "return [[(repetition_nt, frozenset())]]")


def open_parse() -> dict[str, str]:
    """`.unbounded`: visitRepetition gives `{n,}` n iterations and a right-recursive tail (pinned text);
    `.cappedAtBuild`: it unrolls `range(node.min, node.max)` and `Repetition.max` reads the cap."""
    mod = parse_file("language/grammar/parser/iterative_parser.py")
    fn = find_func(find_class(mod, "IterativeParser"), "visitRepetition")
    branch = None
    for n in ast.walk(fn):
        if isinstance(n, ast.If) and ast.unparse(n.test) == "node.bounds_constraint is not None" and n.orelse:
            branch = n.orelse
    if branch is None:
        raise Refusal("visitRepetition: no static-bounds branch found")
    texts = [ast.unparse(s) for s in branch]
    if texts[:2] != ["node_min = node.min", "node_max = node.max"]:
        raise Refusal(f"visitRepetition reads the static bounds differently: {texts[:2]}")
    loops = [ast.unparse(n.iter) for n in ast.walk(fn) if isinstance(n, ast.For)]
    if loops != ["range(node_min, node_max)"]:
        raise Refusal(f"visitRepetition unrolls differently: {loops}")
    if len(texts) == 2:
        return {"openParse": ".cappedAtBuild"}
    if len(texts) == 3 and isinstance(branch[2], ast.If) \
            and ast.unparse(branch[2].test) == "node.internal_max is None" and not branch[2].orelse \
            and "\n".join(ast.unparse(s) for s in branch[2].body) == OPEN_TAIL:
        return {"openParse": ".unbounded"}
    raise Refusal("visitRepetition: unknown treatment of an open upper bound: " + " | ".join(texts[2:])[:400])


HEADER = """/-
GENERATED by harness/translate_env.py from /repo's current source — do not edit.
Tuner constants (exact ratios of the float literals), the keyword defaults that reach the tuner, the
library default of the repetition cap and WHERE the cap lives.  Props/C18.lean is stated for these.
-/
import Model.Globals
namespace FV.Generated
open FV.Env

"""

CFG_FIELDS = ["openParse", "fitThr", "divThr", "mutUp", "mutHi", "mutDown", "mutLo", "crDown", "crLo", "crUp", "crHi",
              "minInc", "safeRep", "safeNodes"]
SET_FIELDS = ["mutR", "crossR", "maxReps", "repRate", "maxNodes", "nodesRate"]


def regenerate() -> dict[str, Any]:
    refusals: list[str] = []
    vals: dict[str, str] = {}
    for name, fn in (("tuner", tuner_constants), ("settings", algorithm_settings), ("cap", cap_location),
                     ("open-parse", open_parse)):
        try:
            vals.update(fn())
        except Refusal as e:
            refusals.append(f"{name}: {e}")
        except (OSError, SyntaxError, KeyError, ValueError) as e:
            refusals.append(f"{name}: cannot read source: {e!r}")
    body = HEADER
    if all(k in vals for k in CFG_FIELDS):
        body += "def tunerCfg : Cfg :=\n  { " + ",\n    ".join(f"{k} := {vals[k]}" for k in CFG_FIELDS) + " }\n\n"
    if all(k in vals for k in SET_FIELDS):
        body += "def defaultSettings : Settings :=\n  { " + ",\n    ".join(f"{k} := {vals[k]}" for k in SET_FIELDS) + " }\n\n"
    if "capLocation" in vals:
        body += f"def capLocation : CapLoc := {vals['capLocation']}\n"
        body += f"def defaultMaxRepetitions : Nat := {vals['defaultMaxRepetitions']}\n"
    body += "\nend FV.Generated\n"
    write_if_changed(LEAN / "Generated" / "Env.lean", body)
    return {"constants": vals, "refusals": refusals}


if __name__ == "__main__":
    import json
    print(json.dumps(regenerate(), indent=1, ensure_ascii=False))
