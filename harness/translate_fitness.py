"""T-fitness: regenerate `lean/Generated/Fitness.lean` from the *current* AST of

* `Evaluator.evaluate_individual`   -> `fitnessFormula`, `fullySolved`, `acceptCmp`, `emitCondition`
* `Evaluator._evaluate_constraints` -> `classMean`
* `ConstraintFitness.fitness`, `DistanceAwareConstraintFitness.fitness` -> `cfFitness`, `daFitness`

(evolution/evaluation.py, constraints/fitness.py).  The functions are executed *symbolically*: every
assignment to a local is translated to a Lean `let` over the Float53 operations of
`lean/Model/Float53.lean`, with the operators and the operand ORDER exactly as in the source (Python's
own parse tree decides the association), so `a / t * h` and `a * h / t` give different Lean terms.

Understood: `+ - * /` (and the augmented forms), names of translated locals, `len(<collection>)`,
int / float constants, comparisons, `and` / `or` / `not`, `if` without `else`, the helper calls
`self.evaluate_{hard,repetition_bounds,soft}_constraints(individual)` (after checking that each
helper delegates to `_evaluate_constraints` with the matching list).  Statements that neither define
nor use a translated value (failing-tree / suggestion bookkeeping) are skipped; a translated
expression that mentions anything else raises `Refusal` — the check then reports the proof
obligations as broken and searches the real code for a failing input.
"""
from __future__ import annotations

import ast
import decimal
from typing import Any, Optional

from harness.common import LEAN
from harness.translate import Refusal, find_class, find_func, parse_file, strip_doc, write_if_changed

OUT = LEAN / "Generated" / "Fitness.lean"

# ---------------------------------------------------------------------------------------------
# typed Lean expressions
# ---------------------------------------------------------------------------------------------

NAT, FLT, BOOL = "Nat", "F", "Bool"


class E:
    def __init__(self, ty: str, lean: str, atom: bool = False):
        self.ty, self.lean, self.atom = ty, lean, atom

    def p(self) -> str:
        return self.lean if self.atom else f"({self.lean})"


class Opaque:
    """a local whose value is not arithmetic (lists, suggestions, keys …); using it in a translated
    expression is refused"""

    def __init__(self, why: str):
        self.why = why


def as_f(e: E) -> E:
    if e.ty == FLT:
        return e
    if e.ty == NAT:
        return E(FLT, f"ofNat {e.p()}")
    raise Refusal(f"a {e.ty} used as a number: {e.lean}")


BIN = {ast.Add: ("fadd", "+"), ast.Sub: ("fsub", None), ast.Mult: ("fmul", "*"), ast.Div: ("fdiv", None)}
CMP_F = {ast.GtE: "fge", ast.Gt: "fgt", ast.LtE: "fle", ast.Lt: "flt", ast.Eq: "feq", ast.NotEq: "fne"}
CMP_N = {ast.GtE: "≥", ast.Gt: ">", ast.LtE: "≤", ast.Lt: "<", ast.Eq: "=", ast.NotEq: "≠"}


def binop(op: ast.operator, a: E, b: E) -> E:
    if type(op) not in BIN:
        raise Refusal(f"operator {type(op).__name__} is not modelled")
    fname, natop = BIN[type(op)]
    if a.ty == NAT and b.ty == NAT:
        if natop is not None:
            return E(NAT, f"{a.p()} {natop} {b.p()}")
        if isinstance(op, ast.Div):       # int / int: correctly rounded true division
            return E(FLT, f"fdiv (ofNat {a.p()}) (ofNat {b.p()})")
        raise Refusal("int - int is not modelled")
    return E(FLT, f"{fname} {as_f(a).p()} {as_f(b).p()}")


def constant(v: Any) -> E:
    if isinstance(v, bool):
        return E(BOOL, "true" if v else "false", True)
    if isinstance(v, int):
        if v < 0:
            raise Refusal("negative int constant")
        return E(NAT, str(v), True)
    if isinstance(v, float):
        d = decimal.Decimal(repr(v))
        sign, digits, exp = d.as_tuple()
        if sign or not isinstance(exp, int) or exp > 0:
            raise Refusal(f"float constant {v!r} is not modelled")
        mant = int("".join(map(str, digits)))
        return E(FLT, f"ofDecimal {mant} {-exp}")
    raise Refusal(f"constant {v!r} is not modelled")


class Ctx:
    """translation context of one function"""

    def __init__(self, lens: dict[str, E], attrs: dict[str, E]):
        self.env: dict[str, Any] = {}
        self.lens = lens          # unparsed argument of len(...) -> Nat expression
        self.attrs = attrs        # unparsed attribute / name -> expression (parameters)
        self.lines: list[str] = []
        self.ncond = 0

    def expr(self, n: ast.expr) -> E:
        if isinstance(n, ast.Constant):
            return constant(n.value)
        if isinstance(n, ast.Name):
            if n.id in self.env:
                v = self.env[n.id]
                if isinstance(v, Opaque):
                    raise Refusal(f"`{n.id}` ({v.why}) is used in the fitness arithmetic")
                return v
            if n.id in self.attrs:
                return self.attrs[n.id]
            raise Refusal(f"unknown name `{n.id}` in the fitness arithmetic")
        if isinstance(n, ast.Attribute):
            s = ast.unparse(n)
            if s in self.attrs:
                return self.attrs[s]
            raise Refusal(f"`{s}` is not modelled")
        if isinstance(n, ast.Call):
            if isinstance(n.func, ast.Name) and n.func.id == "len" and len(n.args) == 1 and not n.keywords:
                s = ast.unparse(n.args[0])
                if s in self.lens:
                    return self.lens[s]
                raise Refusal(f"len({s}) is not modelled")
            raise Refusal(f"call `{ast.unparse(n)}` is not modelled")
        if isinstance(n, ast.BinOp):
            return binop(n.op, self.expr(n.left), self.expr(n.right))
        if isinstance(n, ast.Compare):
            if len(n.ops) != 1:
                raise Refusal("chained comparison")
            a, b = self.expr(n.left), self.expr(n.comparators[0])
            op = type(n.ops[0])
            if op not in CMP_F:
                raise Refusal(f"comparison {op.__name__} is not modelled")
            if a.ty == NAT and b.ty == NAT:
                return E(BOOL, f"decide ({a.p()} {CMP_N[op]} {b.p()})")
            if BOOL in (a.ty, b.ty):
                raise Refusal("comparison of truth values")
            return E(BOOL, f"{CMP_F[op]} {as_f(a).p()} {as_f(b).p()}")
        if isinstance(n, ast.BoolOp):
            vals = [self.truth(self.expr(v)) for v in n.values]
            op = " && " if isinstance(n.op, ast.And) else " || "
            return E(BOOL, op.join(v.p() for v in vals))
        if isinstance(n, ast.UnaryOp) and isinstance(n.op, ast.Not):
            return E(BOOL, f"!{self.truth(self.expr(n.operand)).p()}")
        raise Refusal(f"expression `{ast.unparse(n)}` ({type(n).__name__}) is not modelled")

    def truth(self, e: E) -> E:
        """Python truthiness of a translated value"""
        if e.ty == BOOL:
            return e
        if e.ty == NAT:
            return E(BOOL, f"decide ({e.p()} ≠ 0)")
        return E(BOOL, f"fne {e.p()} (ofNat 0)")

    def let(self, name: str, e: E, cond: Optional[str]) -> None:
        """emit `let name := …` (guarded by the enclosing ifs); the local keeps its Python name"""
        old = self.env.get(name)
        if cond is not None and old is None:
            # first bound inside the branch: a fresh name that only exists on that path (a use on the
            # other path would be a NameError in Python); bind it unconditionally
            self.lines.append(f"let {lname(name)} : {e.ty} := {e.lean}")
        elif cond is not None:
            if not isinstance(old, E):
                raise Refusal(f"`{name}` was not arithmetic before this `if`")
            if old.ty != e.ty:
                if {old.ty, e.ty} == {NAT, FLT}:
                    e = as_f(e)
                    if old.ty == NAT:
                        self.lines.append(f"let {lname(name)} : F := ofNat {lname(name)}")
                else:
                    raise Refusal(f"`{name}` changes its type inside an `if`")
            self.lines.append(f"let {lname(name)} : {e.ty} := if {cond} then {e.lean} else {lname(name)}")
        else:
            self.lines.append(f"let {lname(name)} : {e.ty} := {e.lean}")
        self.env[name] = E(e.ty, lname(name), True)


def lname(py: str) -> str:
    parts = py.strip("_").split("_")
    return parts[0] + "".join(p.capitalize() for p in parts[1:])


# ---------------------------------------------------------------------------------------------
# Evaluator.evaluate_individual
# ---------------------------------------------------------------------------------------------

HELPERS = {
    "evaluate_hard_constraints": ("_hard_constraints", "hardMean"),
    "evaluate_repetition_bounds_constraints": ("_repetition_bounds_constraints", "repMean"),
}


def check_helpers(cls: ast.ClassDef) -> None:
    for name, (lst, _) in HELPERS.items():
        body = strip_doc(find_func(cls, name))
        want = f"return self._evaluate_constraints(individual, self.{lst})"
        got = " ".join(ast.unparse(s) for s in body)
        if got != want:
            raise Refusal(f"{name} no longer delegates to _evaluate_constraints(individual, self.{lst}): {got}")
    # the soft class is a parameter of the model (tdigest scores are not modelled); we only need
    # the method to exist and to return a pair
    find_func(cls, "evaluate_soft_constraints")
    init = find_func(cls, "__init__")
    src = ast.unparse(init)
    for frag in ("isinstance(constraint, SoftValue)", "isinstance(constraint, RepetitionBoundsConstraint)",
                 "self._repetition_bounds_constraints.append(constraint)", "self._hard_constraints.append(constraint)",
                 "self._soft_constraints.append(constraint)"):
        if frag not in src:
            raise Refusal(f"Evaluator.__init__ no longer contains `{frag}`")


def mentions(n: ast.AST, names: set[str]) -> bool:
    return any(isinstance(x, ast.Name) and x.id in names for x in ast.walk(n))


def cache_key_shape(cls: ast.ClassDef) -> str:
    """`Evaluator._cache_key`: hash((root, tree)), extended by the origin tags iff repetition bounds exist.
    The Emit model identifies a tree with its key, so what matters is that the key is a function of the
    individual alone (no counters, no instance history); any other body is refused."""
    body = [ast.unparse(x) for x in strip_doc(find_func(cls, "_cache_key"))]
    want = ["key = hash((individual.get_root(), individual))",
            "if self._repetition_bounds_constraints:\n    key = hash((key, individual.get_root().origin_signature()))",
            "return key"]
    if body != want:
        raise Refusal(f"Evaluator._cache_key has an unexpected body: {body}")
    return "hash((individual.get_root(), individual)) [+ origin_signature() when repetition bounds exist]"


def translate_evaluate_individual(cls: ast.ClassDef) -> dict[str, Any]:
    check_helpers(cls)
    fn = find_func(cls, "evaluate_individual")
    body = strip_doc(fn)
    lens = {"self._hard_constraints": E(NAT, "h", True),
            "self._repetition_bounds_constraints": E(NAT, "r", True),
            "self._soft_constraints": E(NAT, "s", True)}
    attrs = {"self._expected_fitness": E(FLT, "expected", True)}
    cx = Ctx(lens, attrs)
    info: dict[str, Any] = {"skipped": []}
    state = {"cache_check": False, "emit": None, "cache_write": False, "returned": None}

    def tracked_names() -> set[str]:
        return {k for k, v in cx.env.items() if isinstance(v, E)}

    def assign_call(targets: list[ast.expr], call: ast.Call, cond: Optional[str]) -> bool:
        """`a, b, c = self.evaluate_xxx(individual)`"""
        if not (isinstance(call.func, ast.Attribute) and isinstance(call.func.value, ast.Name)
                and call.func.value.id == "self"):
            return False
        m = call.func.attr
        if m in HELPERS or m == "evaluate_soft_constraints":
            if [ast.unparse(a) for a in call.args] != ["individual"] or call.keywords:
                raise Refusal(f"{m} is called with unexpected arguments")
            param = HELPERS[m][1] if m in HELPERS else "softMean"
            if not (len(targets) == 1 and isinstance(targets[0], ast.Tuple) and
                    all(isinstance(t, ast.Name) for t in targets[0].elts) and len(targets[0].elts) >= 2):
                raise Refusal(f"result of {m} is not unpacked into names")
            names = [t.id for t in targets[0].elts]  # type: ignore[attr-defined]
            cx.let(names[0], E(FLT, param, True), cond)
            for other in names[1:]:
                cx.env[other] = Opaque(f"{m}(...)[{names.index(other)}]")
            info.setdefault("calls", []).append(m)
            return True
        return False

    def stmt(s: ast.stmt, cond: Optional[str]) -> None:
        if state["returned"] is not None:
            raise Refusal("statement after the final return")
        # ---- key in cache -> return cached
        if isinstance(s, ast.If) and ast.unparse(s.test) == "key in self._fitness_cache":
            if cond is not None or state["cache_check"] or len(cx.lines) > 0:
                raise Refusal("the fitness-cache lookup is not the first step any more")
            if [ast.unparse(x) for x in s.body] != ["return self._fitness_cache[key]"] or s.orelse:
                raise Refusal("the fitness-cache lookup no longer returns the cached entry")
            state["cache_check"] = True
            return
        # ---- emission
        if isinstance(s, ast.If) and any(isinstance(x, (ast.Yield, ast.YieldFrom)) for b in s.body for x in ast.walk(b)):
            if cond is not None or s.orelse or state["emit"] is not None:
                raise Refusal("unexpected shape of the emission step")
            t = s.test
            if not (isinstance(t, ast.BoolOp) and isinstance(t.op, ast.And) and len(t.values) == 2):
                raise Refusal(f"emission condition `{ast.unparse(t)}` is not `<fitness test> and key not in self._solution_set`")
            if ast.unparse(t.values[1]) != "key not in self._solution_set":
                raise Refusal(f"emission condition `{ast.unparse(t)}`: second conjunct is not `key not in self._solution_set`")
            cmp_ = t.values[0]
            if not (isinstance(cmp_, ast.Compare) and len(cmp_.ops) == 1):
                raise Refusal("emission test is not a single comparison")
            if [ast.unparse(x) for x in s.body] != ["self._solution_set.add(key)", "yield individual"]:
                raise Refusal("emission body is not `self._solution_set.add(key); yield individual`")
            l, r_ = cmp_.left, cmp_.comparators[0]
            if not (isinstance(l, ast.Name) and l.id == "fitness" and ast.unparse(r_) == "self._expected_fitness"):
                raise Refusal(f"emission test `{ast.unparse(cmp_)}` is not `fitness <op> self._expected_fitness`")
            op = type(cmp_.ops[0])
            if op not in CMP_F:
                raise Refusal(f"emission comparison {op.__name__} is not modelled")
            state["emit"] = {"cmp": CMP_F[op], "py": ast.unparse(t), "fitness": cx.expr(l).lean}
            return
        if isinstance(s, ast.Assign):
            # ---- cache write
            if ast.unparse(s.targets[0]) == "self._fitness_cache[key]":
                if state["emit"] is None or cond is not None:
                    raise Refusal("the fitness cache is written before the emission step")
                v = s.value
                if not (isinstance(v, ast.Tuple) and isinstance(v.elts[0], ast.Name) and v.elts[0].id == "fitness"):
                    raise Refusal("the fitness cache no longer stores (fitness, ...)")
                state["cache_write"] = True
                return
            if isinstance(s.value, ast.Call) and assign_call(s.targets, s.value, cond):
                return
            if len(s.targets) == 1 and isinstance(s.targets[0], ast.Name):
                name = s.targets[0].id
                if name == "key":
                    src_key = ast.unparse(s.value)
                    if src_key == "self._cache_key(individual)":
                        # since a55700f5 the key is computed by Evaluator._cache_key: the tree hash, extended
                        # by the origin tags when repetition bounds exist. Any other shape is refused.
                        src_key = cache_key_shape(cls)
                    elif src_key != "hash((individual.get_root(), individual))":
                        raise Refusal(f"key is now `{src_key}`")
                    cx.env[name] = Opaque("the tree's hash key")
                    info["key"] = src_key
                    return
                try:
                    e = cx.expr(s.value)
                except Refusal as why:
                    if isinstance(cx.env.get(name), E) or mentions(s.value, tracked_names()):
                        raise
                    cx.env[name] = Opaque(f"`{ast.unparse(s.value)[:60]}`: {why}")
                    info["skipped"].append(ast.unparse(s)[:80])
                    return
                cx.let(name, e, cond)
                return
            if mentions(s, tracked_names()) and any(isinstance(t, ast.Name) and isinstance(cx.env.get(t.id), E)
                                                    for tt in s.targets for t in ast.walk(tt)):
                raise Refusal(f"assignment `{ast.unparse(s)[:80]}` to a translated local is not modelled")
            for tt in s.targets:
                for t in ast.walk(tt):
                    if isinstance(t, ast.Name):
                        cx.env[t.id] = Opaque("assigned from an untranslated expression")
            info["skipped"].append(ast.unparse(s)[:80])
            return
        if isinstance(s, ast.AugAssign):
            if isinstance(s.target, ast.Name) and (isinstance(cx.env.get(s.target.id), E) or mentions(s.value, tracked_names())):
                cur = cx.expr(s.target)
                cx.let(s.target.id, binop(s.op, cur, cx.expr(s.value)), cond)
                return
            info["skipped"].append(ast.unparse(s)[:80])
            return
        if isinstance(s, ast.If):
            if s.orelse:
                raise Refusal("`if … else` in evaluate_individual is not modelled")
            c = cx.truth(cx.expr(s.test))
            cx.ncond += 1
            cname = f"c{cx.ncond}"
            cx.lines.append(f"let {cname} : Bool := {c.lean}" if cond is None
                            else f"let {cname} : Bool := {cond} && {c.p()}")
            for b in s.body:
                stmt(b, cname)
            return
        if isinstance(s, ast.Expr):
            # a call for its effect (failing_trees.extend, rec_set_allow_repetition_full_delete …)
            if isinstance(s.value, ast.Call):
                f = s.value.func
                recv = f.value if isinstance(f, ast.Attribute) else None
                if isinstance(recv, ast.Name) and isinstance(cx.env.get(recv.id), E):
                    raise Refusal(f"method call on a translated local: {ast.unparse(s)}")
                info["skipped"].append(ast.unparse(s)[:80])
                return
            raise Refusal(f"statement `{ast.unparse(s)[:80]}` is not modelled")
        if isinstance(s, ast.Return):
            if cond is not None:
                raise Refusal("conditional return")
            v = s.value
            if not (isinstance(v, ast.Tuple) and isinstance(v.elts[0], ast.Name) and v.elts[0].id == "fitness"):
                raise Refusal("evaluate_individual no longer returns (fitness, ...)")
            state["returned"] = cx.expr(v.elts[0]).lean
            return
        raise Refusal(f"statement `{ast.unparse(s)[:80]}` ({type(s).__name__}) is not modelled")

    # the lets emitted before the emission step define the formula; nothing may follow that changes it
    for s in body:
        before = len(cx.lines)
        stmt(s, None)
        if state["emit"] is not None and len(cx.lines) != before:
            raise Refusal("the fitness is modified after the acceptance test")
    for k in ("cache_check", "cache_write"):
        if not state[k]:
            raise Refusal(f"evaluate_individual: step `{k}` not found")
    if state["emit"] is None or state["returned"] is None:
        raise Refusal("evaluate_individual: emission step or final return not found")
    fsf = cx.env.get("fully_solved_so_far")
    info.update({"lines": cx.lines, "result": state["returned"], "emit": state["emit"],
                 "fully_solved": fsf.lean if isinstance(fsf, E) else None})
    return info


# ---------------------------------------------------------------------------------------------
# Evaluator._evaluate_constraints
# ---------------------------------------------------------------------------------------------

def translate_class_mean(cls: ast.ClassDef) -> dict[str, Any]:
    fn = find_func(cls, "_evaluate_constraints")
    body = strip_doc(fn)
    cx = Ctx({"constraints": E(NAT, "fs.length", True)}, {})
    out: dict[str, Any] = {}
    i = 0
    # if len(constraints) == 0: return <const>, [], NopSuggestion()
    s = body[i]
    if not (isinstance(s, ast.If) and not s.orelse and len(s.body) == 1 and isinstance(s.body[0], ast.Return)):
        raise Refusal("_evaluate_constraints: no early return for the empty class")
    test = cx.truth(cx.expr(s.test))
    rv = s.body[0].value
    if not (isinstance(rv, ast.Tuple) and len(rv.elts) == 3):
        raise Refusal("_evaluate_constraints: early return is not a triple")
    out["empty_test"] = test.lean
    out["empty_value"] = as_f(cx.expr(rv.elts[0])).lean
    i += 1
    loop = None
    while i < len(body):
        s = body[i]
        i += 1
        if isinstance(s, ast.For):
            loop = s
            break
        if isinstance(s, (ast.Assign, ast.AnnAssign)):
            tgt = s.targets[0] if isinstance(s, ast.Assign) else s.target
            if isinstance(tgt, ast.Name) and tgt.id == "fitness":
                cx.let("fitness", as_f(cx.expr(s.value)), None)     # type: ignore[arg-type]
                continue
            if mentions(s, {"fitness"}):
                raise Refusal(f"_evaluate_constraints: `{ast.unparse(s)}`")
            continue
        raise Refusal(f"_evaluate_constraints: unexpected statement `{ast.unparse(s)[:60]}` before the loop")
    if loop is None or "fitness" not in cx.env:
        raise Refusal("_evaluate_constraints: accumulator or loop not found")
    if not (isinstance(loop.target, ast.Name) and ast.unparse(loop.iter) == "constraints" and not loop.orelse):
        raise Refusal("_evaluate_constraints: loop is not `for constraint in constraints`")
    cvar = loop.target.id
    if not (len(loop.body) == 1 and isinstance(loop.body[0], ast.Try)):
        raise Refusal("_evaluate_constraints: loop body is not a single try")
    tr = loop.body[0]
    if tr.orelse or tr.finalbody or len(tr.handlers) != 1:
        raise Refusal("_evaluate_constraints: unexpected try shape")
    hd = tr.handlers[0]
    if not (isinstance(hd.type, ast.Name) and hd.type.id == "Exception"):
        raise Refusal("_evaluate_constraints: handler is not `except Exception`")
    for hs in hd.body:
        if not isinstance(hs, ast.Expr) or mentions(hs, {"fitness"}):
            raise Refusal("_evaluate_constraints: the exception handler does more than logging")
    # try body: result = constraint.fitness(individual); fitness += result.fitness(); bookkeeping
    tb = tr.body
    if ast.unparse(tb[0]) != f"result = {cvar}.fitness(individual)":
        raise Refusal(f"_evaluate_constraints: first statement of try is `{ast.unparse(tb[0])}`")
    acc = None
    for k, s in enumerate(tb[1:], 1):
        if isinstance(s, ast.AugAssign) and isinstance(s.target, ast.Name) and s.target.id == "fitness":
            if acc is not None:
                raise Refusal("_evaluate_constraints: fitness accumulated twice")
            if ast.unparse(s.value) != "result.fitness()":
                raise Refusal(f"_evaluate_constraints: accumulates `{ast.unparse(s.value)}`")
            if k != 1:
                raise Refusal("_evaluate_constraints: statements that may raise precede the accumulation")
            acc = binop(s.op, E(FLT, "fitness", True), E(FLT, "x", True))
        elif mentions(s, {"fitness"}) and not (isinstance(s, ast.Expr)):
            raise Refusal(f"_evaluate_constraints: `{ast.unparse(s)[:60]}`")
    if acc is None:
        raise Refusal("_evaluate_constraints: no accumulation")
    out["init_lines"] = list(cx.lines)
    out["acc"] = acc.lean
    cx.lines.clear()
    # after the loop: fitness /= len(constraints); return (fitness, …)
    ret = None
    for s in body[i:]:
        if isinstance(s, ast.AugAssign) and isinstance(s.target, ast.Name) and s.target.id == "fitness":
            cx.let("fitness", binop(s.op, cx.expr(s.target), cx.expr(s.value)), None)
        elif isinstance(s, ast.Assign) and isinstance(s.targets[0], ast.Name) and s.targets[0].id == "fitness":
            cx.let("fitness", as_f(cx.expr(s.value)), None)
        elif isinstance(s, ast.Return):
            v = s.value
            if not (isinstance(v, ast.Tuple) and len(v.elts) == 3):
                raise Refusal("_evaluate_constraints: final return is not a triple")
            ret = as_f(cx.expr(v.elts[0])).lean
        else:
            raise Refusal(f"_evaluate_constraints: unexpected statement after the loop `{ast.unparse(s)[:60]}`")
    if ret is None:
        raise Refusal("_evaluate_constraints: no final return")
    out["post_lines"] = list(cx.lines)
    out["ret"] = ret
    return out


# ---------------------------------------------------------------------------------------------
# ConstraintFitness.fitness / DistanceAwareConstraintFitness.fitness
# ---------------------------------------------------------------------------------------------

def translate_cf(mod: ast.Module) -> dict[str, str]:
    out = {}
    cls = find_class(mod, "ConstraintFitness")
    body = strip_doc(find_func(cls, "fitness"))
    if not (len(body) == 1 and isinstance(body[0], ast.If) and len(body[0].body) == 1 and len(body[0].orelse) == 1
            and isinstance(body[0].body[0], ast.Return) and isinstance(body[0].orelse[0], ast.Return)):
        raise Refusal("ConstraintFitness.fitness is not `if …: return … else: return …`")
    cx = Ctx({}, {"self.solved": E(NAT, "solved", True), "self.total": E(NAT, "total", True)})
    t = cx.truth(cx.expr(body[0].test))
    a = as_f(cx.expr(body[0].body[0].value))      # type: ignore[arg-type]
    b = as_f(cx.expr(body[0].orelse[0].value))    # type: ignore[arg-type]
    out["cf"] = f"if {t.lean} then {a.lean} else {b.lean}"
    # DistanceAwareConstraintFitness: if self.values: try: return sum(self.values) / len(self.values)
    #                                  except OverflowError: … else: return 0
    cls = find_class(mod, "DistanceAwareConstraintFitness")
    body = strip_doc(find_func(cls, "fitness"))
    if not (len(body) == 1 and isinstance(body[0], ast.If) and ast.unparse(body[0].test) == "self.values"
            and len(body[0].body) == 1 and isinstance(body[0].body[0], ast.Try) and len(body[0].orelse) == 1
            and isinstance(body[0].orelse[0], ast.Return)):
        raise Refusal("DistanceAwareConstraintFitness.fitness has an unknown shape")
    tr = body[0].body[0]
    if not (len(tr.body) == 1 and isinstance(tr.body[0], ast.Return) and len(tr.handlers) == 1
            and isinstance(tr.handlers[0].type, ast.Name) and tr.handlers[0].type.id == "OverflowError"):
        raise Refusal("DistanceAwareConstraintFitness.fitness: unknown try shape")
    rv = tr.body[0].value

    class DA(Ctx):
        def expr(self, n: ast.expr) -> E:    # sum(self.values) is CPython's compensated float sum
            if isinstance(n, ast.Call) and ast.unparse(n) == "sum(self.values)":
                return E(FLT, "pySum values")
            return super().expr(n)

    dx = DA({"self.values": E(NAT, "values.length", True)}, {})
    a = as_f(dx.expr(rv))                                   # type: ignore[arg-type]
    b = as_f(dx.expr(body[0].orelse[0].value))              # type: ignore[arg-type]
    out["da"] = f"if !values.isEmpty then {a.lean} else {b.lean}"
    return out


# ---------------------------------------------------------------------------------------------

HEADER = """/-
GENERATED by harness/translate_fitness.py from /repo's current source — do not edit.

  evolution/evaluation.py   Evaluator.evaluate_individual, Evaluator._evaluate_constraints
  constraints/fitness.py    ConstraintFitness.fitness, DistanceAwareConstraintFitness.fitness

Operators and operand order are exactly those of the Python parse tree; `Props/C03.lean` proves its
theorems about THESE definitions, so a re-association in the source is re-proved or breaks them.
-/
import Model.Float53
namespace FV.Generated

"""


KFLOAT_OPS = """/-! ## the same text over Lean's kernel `Float`

Only used by a finite `decide +kernel` cross-check in Props/C03.lean (a TEST of the binary64 model on
the generated formula, not part of a proof). -/
namespace KFloat
abbrev F := Float
def fadd (a b : Float) : Float := a + b
def fsub (a b : Float) : Float := a - b
def fmul (a b : Float) : Float := a * b
def fdiv (a b : Float) : Float := a / b
def ofNat (n : Nat) : Float := Float.ofNat n
def ofDecimal (m d : Nat) : Float := Float.ofScientific m true d
def feq (a b : Float) : Bool := a == b
def fne (a b : Float) : Bool := a != b
def fle (a b : Float) : Bool := decide (a ≤ b)
def flt (a b : Float) : Bool := decide (a < b)
def fge (a b : Float) : Bool := decide (b ≤ a)
def fgt (a b : Float) : Bool := decide (b < a)
def foldOk (step : Float → Float → Float) (init : Float) (fs : List (Option Float)) : Float :=
  fs.foldl (fun acc r => match r with
    | some x => step acc x
    | none => acc) init

"""


def render_defs(ei: dict, cm: dict, cf: dict, with_da: bool) -> str:
    ind = "  "
    t = "/-- `ConstraintFitness.fitness` -/\n"
    t += f"def cfFitness (solved total : Nat) : F :=\n{ind}{cf['cf']}\n\n"
    if with_da:
        t += "/-- `DistanceAwareConstraintFitness.fitness` (`sum` is CPython's compensated float sum) -/\n"
        t += f"def daFitness (values : List F) : F :=\n{ind}{cf['da']}\n\n"
    t += ("/-- `Evaluator._evaluate_constraints`: `fs` = what `constraint.fitness(individual).fitness()` gave per\n"
          "    constraint in declaration order, `none` = the call raised (logged, contributes nothing) -/\n")
    t += "def classMean (fs : List (Option F)) : F :=\n"
    t += f"{ind}if {cm['empty_test']} then {cm['empty_value']} else\n"
    for ln in cm["init_lines"]:
        t += f"{ind}{ln}\n"
    t += f"{ind}let fitness : F := foldOk (fun fitness x => {cm['acc']}) fitness fs\n"
    for ln in cm["post_lines"]:
        t += f"{ind}{ln}\n"
    t += f"{ind}{cm['ret']}\n\n"
    t += ("/-- the local `fitness` of `Evaluator.evaluate_individual` at the acceptance test, as a function of the\n"
          "    class means and class sizes (`softMean` = result of `evaluate_soft_constraints`, a parameter) -/\n")
    t += "def fitnessFormula (hardMean repMean softMean : F) (h r s : Nat) : F :=\n"
    for ln in ei["lines"]:
        t += f"{ind}{ln}\n"
    t += f"{ind}{ei['result']}\n\n"
    t += f"/-- the comparison of the acceptance test `{ei['emit']['py']}` -/\n"
    t += f"def acceptCmp (fitness expected : F) : Bool := {ei['emit']['cmp']} fitness expected\n\n"
    return t


def render(ei: dict, cm: dict, cf: dict) -> str:
    t = HEADER
    t += "section model\nopen FV.F\n\n"
    t += render_defs(ei, cm, cf, True)
    t += "/-- the whole emission condition; `seen` = `key in self._solution_set` -/\n"
    t += "def emitCondition (fitness expected : F) (seen : Bool) : Bool := acceptCmp fitness expected && !seen\n\n"
    t += f"def sourceKey : String := {lean_str(ei.get('key', ''))}\n\nend model\n\n"
    t += KFLOAT_OPS
    t += render_defs(ei, cm, cf, False)
    t += "end KFloat\n"
    t += "\nend FV.Generated\n"
    return t


def lean_str(s: str) -> str:
    return '"' + s.replace("\\", "\\\\").replace('"', '\\"') + '"'


REFUSED = """/-
GENERATED by harness/translate_fitness.py — the translator REFUSED the current source:

{why}

No definitions are emitted, so everything that depends on `Generated.Fitness` fails to compile and the
check reports the obligations as broken.
-/
import Model.Float53
"""


def regenerate() -> dict[str, Any]:
    """returns {'refusals': [...], 'formula': [...lines...], 'emit': {...}}"""
    try:
        ev = parse_file("evolution/evaluation.py")
        cls = find_class(ev, "Evaluator")
        ei = translate_evaluate_individual(cls)
        cm = translate_class_mean(cls)
        cf = translate_cf(parse_file("constraints/fitness.py"))
    except Refusal as e:
        write_if_changed(OUT, REFUSED.format(why=str(e).replace("-/", "- /")))
        return {"refusals": [str(e)], "formula": [], "emit": None}
    except (OSError, SyntaxError) as e:
        write_if_changed(OUT, REFUSED.format(why=f"cannot read source: {e}".replace("-/", "- /")))
        return {"refusals": [f"cannot read source: {e}"], "formula": [], "emit": None}
    write_if_changed(OUT, render(ei, cm, cf))
    return {"refusals": [], "formula": ei["lines"] + [ei["result"]], "emit": ei["emit"],
            "skipped_statements": ei["skipped"], "class_mean": cm, "fitness_classes": cf}


if __name__ == "__main__":
    import json
    print(json.dumps(regenerate(), indent=1))
