"""Translator for C16: facts about the generator code paths, read from /repo's *current* source (Python `ast`)
and emitted as `lean/Generated/GenFlags.lean`.  The theorems of Props/C16.lean are stated for these constants.

regenMarksReadOnly    replace_multiple: after `set_children(grammar.derive_generator_output(..))` the new children
                      are marked `set_all_read_only(True)`
fuzzMarksReadOnly     NonTerminalNode.fuzz: children of `grammar.generate(..)` are marked read-only
populateMarksReadOnly Grammar._populate_sources marks the children of a generator node read-only
unfitValueRaises      Grammar.generate: `if tree is None: raise FandangoParseError`, and nothing else is assigned to
                      `tree` afterwards (no substitute value)
replaceChecksReadOnly replace_multiple only swaps a node when `not self.read_only`
deriveMarksParamReadOnly  Grammar.derive_sources marks the output of a parameter's own generator read-only
eqRepairGuardsGenerated  EqualComparisonSuggestion.get_replacements consults `is_use_generator`
The translator *refuses* (→ broken obligation) when a function it reads has disappeared or lost its shape.
"""
from __future__ import annotations

import ast
from pathlib import Path

from harness.common import LEAN, REPO_SRC


def _func(tree: ast.AST, cls: str, name: str):
    for n in ast.walk(tree):
        if isinstance(n, ast.ClassDef) and n.name == cls:
            for m in n.body:
                if isinstance(m, ast.FunctionDef) and m.name == name:
                    return m
    return None


def _calls(node: ast.AST, attr: str) -> list[ast.Call]:
    return [c for c in ast.walk(node) if isinstance(c, ast.Call) and isinstance(c.func, ast.Attribute) and c.func.attr == attr]


def _marks_ro(stmts: list[ast.stmt]) -> bool:
    for st in stmts:
        for c in _calls(st, "set_all_read_only"):
            if c.args and isinstance(c.args[0], ast.Constant) and c.args[0].value is True:
                return True
    return False


def regenerate() -> dict:
    refusals: list[str] = []
    flags: dict[str, bool] = {}
    src = REPO_SRC / "fandango"

    def load(rel: str):
        try:
            return ast.parse((src / rel).read_text())
        except Exception as e:  # noqa
            refusals.append(f"{rel}: {e!r}")
            return None

    tree_py, nt_py, gr_py, cmp_py = (load("language/tree.py"), load("language/grammar/nodes/non_terminal.py"),
                                     load("language/grammar/grammar.py"), load("constraints/comparison.py"))
    # ---- replace_multiple
    f = _func(tree_py, "DerivationTree", "replace_multiple") if tree_py else None
    if f is None:
        refusals.append("DerivationTree.replace_multiple not found")
    else:
        found = False
        for n in ast.walk(f):
            if isinstance(n, (ast.If,)):
                for body in (n.body, n.orelse):
                    if any(_calls(st, "derive_generator_output") for st in body) and not any(
                            isinstance(st, ast.If) and _calls(st, "derive_generator_output") for st in body):
                        found = True
                        flags["regenMarksReadOnly"] = _marks_ro(body)
        if not found:
            refusals.append("replace_multiple: no block calling derive_generator_output")
        ro_test = False
        for n in ast.walk(f):
            if isinstance(n, ast.If) and any(isinstance(x, ast.UnaryOp) and isinstance(x.op, ast.Not)
                                             and isinstance(x.operand, ast.Attribute) and x.operand.attr == "read_only"
                                             for x in ast.walk(n.test)):
                ro_test = True
        flags["replaceChecksReadOnly"] = ro_test
    # ---- NonTerminalNode.fuzz
    f = _func(nt_py, "NonTerminalNode", "fuzz") if nt_py else None
    if f is None:
        refusals.append("NonTerminalNode.fuzz not found")
    else:
        ok = False
        for n in ast.walk(f):
            if isinstance(n, ast.If) and _calls(n.test, "is_use_generator"):
                ok = True
                flags["fuzzMarksReadOnly"] = bool(_calls(n, "generate")) and _marks_ro(n.body)
        if not ok:
            refusals.append("NonTerminalNode.fuzz: no `if grammar.is_use_generator(..)` branch")
    # ---- Grammar._populate_sources, Grammar.generate
    f = _func(gr_py, "Grammar", "_populate_sources") if gr_py else None
    if f is None:
        refusals.append("Grammar._populate_sources not found")
    else:
        flags["populateMarksReadOnly"] = _marks_ro(f.body)
    f = _func(gr_py, "Grammar", "derive_sources") if gr_py else None
    if f is None:
        refusals.append("Grammar.derive_sources not found")
    else:
        if not _calls(f, "generate") or not _calls(f, "populate_sources"):
            refusals.append("Grammar.derive_sources: no longer generates the parameters / populates their children")
        flags["deriveMarksParamReadOnly"] = _marks_ro(f.body)
    f = _func(gr_py, "Grammar", "generate") if gr_py else None
    if f is None:
        refusals.append("Grammar.generate not found")
    else:
        raises, assigns = False, 0
        for n in ast.walk(f):
            if isinstance(n, ast.If) and isinstance(n.test, ast.Compare) and isinstance(n.test.left, ast.Name) \
                    and n.test.left.id == "tree" and any(isinstance(o, ast.Is) for o in n.test.ops):
                raises = any(isinstance(st, ast.Raise) for st in n.body) and not any(
                    isinstance(st, (ast.Assign, ast.Return)) for st in n.body)
            if isinstance(n, ast.Assign) and any(isinstance(t, ast.Name) and t.id == "tree" for t in n.targets):
                assigns += 1
        flags["unfitValueRaises"] = raises and assigns == 1
    # ---- EqualComparisonSuggestion.get_replacements
    f = _func(cmp_py, "EqualComparisonSuggestion", "get_replacements") if cmp_py else None
    if f is None:
        refusals.append("EqualComparisonSuggestion.get_replacements not found")
    else:
        flags["eqRepairGuardsGenerated"] = bool(_calls(f, "is_use_generator"))
    names = ["regenMarksReadOnly", "fuzzMarksReadOnly", "populateMarksReadOnly", "unfitValueRaises",
             "replaceChecksReadOnly", "eqRepairGuardsGenerated", "deriveMarksParamReadOnly"]
    for n in names:
        if n not in flags:
            refusals.append(f"{n}: could not be read from the source")
            flags[n] = False
    text = ("/- GENERATED by harness/translate_gen.py from /repo's current source — do not edit -/\n"
            "namespace FV.Gen.Generated\n"
            + "".join(f"def {n} : Bool := {'true' if flags[n] else 'false'}\n" for n in names)
            + "end FV.Gen.Generated\n")
    out = LEAN / "Generated" / "GenFlags.lean"
    if not out.exists() or out.read_text() != text:
        out.write_text(text)
    return {"flags": flags, "refusals": refusals}


if __name__ == "__main__":
    import json
    print(json.dumps(regenerate(), indent=1))
