"""T-globals: the inventory of process-wide mutable state of src/fandango (C18), regenerated on every run.

C18's model (`Model/Globals.lean`) threads the process-wide state it knows about — the repetition cap, the
tuner, the iteration counters, the IO instances — explicitly through `World`.  That this list is COMPLETE is an
assumption about the code; this translator turns it into a checked one.  It walks the AST of every module of the
package and lists every place where state can outlive one instance:

  * `module`  — a module-level name bound to a mutable container / an object created at import time,
  * `class`   — a class attribute bound to a mutable container / an object created at class creation,
  * `default` — a function default that is a mutable container or the result of a call (ONE object shared by all
                calls: `mutation_method=SimpleMutation()`),
  * `memo`    — a function decorated with a cache (`functools.lru_cache`, `cache`, …),
  * `global`  — a function that rebinds a module-level name (`global X`).

The result is written to `lean/Generated/ProcessState.lean` as a list of strings
`<file>::<name>::<kind>::<what>`; `Props/C18.lean` pins the REVIEWED inventory
(`C18_process_state_inventory_pinned`, by `decide`), each entry with the reason why it cannot carry outputs from
one spec object to another.  A new cache, registry, counter or shared default object changes the list: the
obligation breaks and the check searches for an (A, B) pair that shows the leak.

Left out on purpose (immutable or not state): `TypeVar(...)`, `re.compile(...)`, `float(...)`, `enum.auto()`,
`logging.getLogger(...)`, `threading.Lock()`, `__all__`; the generated ANTLR recognisers (`language/parser/Fandango
Parser*.py`, `FandangoLexer.py`, `converters/antlr/*`: tables built at import, never written) and the language
server (`language/server/*`, a separate entry point).
"""
from __future__ import annotations

import ast
from typing import Any

from harness.common import LEAN
from harness.translate import FD, write_if_changed

MUT_CALLS = {"dict", "list", "set", "defaultdict", "OrderedDict", "deque", "Counter", "WeakValueDictionary",
             "WeakKeyDictionary", "WeakSet", "bytearray"}
HARMLESS_CALLS = {"TypeVar", "compile", "float", "auto", "getLogger", "Lock", "RLock", "int", "str", "frozenset", "tuple"}
SKIP_PREFIXES = ("converters/antlr/", "language/server/", "language/cpp_parser")


def _kind(v: ast.expr) -> str | None:
    if isinstance(v, (ast.Dict, ast.List, ast.Set, ast.ListComp, ast.DictComp, ast.SetComp)):
        return "container"
    if isinstance(v, ast.Call):
        f = v.func
        name = f.id if isinstance(f, ast.Name) else (f.attr if isinstance(f, ast.Attribute) else "?")
        if name in MUT_CALLS:
            return "container"
        if name in HARMLESS_CALLS:
            return None
        return "call:" + name
    return None


def _targets(st: ast.stmt) -> list[tuple[ast.expr, ast.expr]]:
    if isinstance(st, ast.Assign):
        return [(t, st.value) for t in st.targets]
    if isinstance(st, ast.AnnAssign) and st.value is not None:
        return [(st.target, st.value)]
    return []


def _class_attrs() -> dict[str, tuple[set[str], list[str]]]:
    """class name -> (names assigned through `self.<name>` in any of its methods, base class names)"""
    table: dict[str, tuple[set[str], list[str]]] = {}
    for path in sorted(FD.rglob("*.py")):
        try:
            tree = ast.parse(path.read_text())
        except (SyntaxError, OSError):
            continue
        for node in ast.walk(tree):
            if isinstance(node, ast.ClassDef):
                attrs: set[str] = set()
                for sub in ast.walk(node):
                    tg = []
                    if isinstance(sub, ast.Assign):
                        tg = sub.targets
                    elif isinstance(sub, (ast.AnnAssign, ast.AugAssign)):
                        tg = [sub.target]
                    for t in tg:
                        if isinstance(t, ast.Attribute) and isinstance(t.value, ast.Name) and t.value.id == "self":
                            attrs.add(t.attr)
                bases = [b.id if isinstance(b, ast.Name) else (b.attr if isinstance(b, ast.Attribute) else "?")
                         for b in node.bases]
                old = table.get(node.name)
                table[node.name] = (attrs | (old[0] if old else set()), bases + (old[1] if old else []))
    return table


def _state_of(cls: str, table: dict, seen: frozenset = frozenset()) -> set[str]:
    if cls not in table or cls in seen:
        return set()
    attrs, bases = table[cls]
    out = set(attrs)
    for b in bases:
        out |= _state_of(b, table, seen | {cls})
    return out


def inventory() -> tuple[list[str], list[str]]:
    out: set[str] = set()
    problems: list[str] = []
    table = _class_attrs()

    def describe(k: str) -> str:
        # an object of a package class that lives for the whole process: what instance state does that class have?
        if k.startswith("call:") and k[5:] in table:
            return k + "{" + ",".join(sorted(_state_of(k[5:], table))) + "}"
        return k
    for path in sorted(FD.rglob("*.py")):
        rel = str(path.relative_to(FD))
        base = rel.split("/")[-1]
        if rel.startswith(SKIP_PREFIXES):
            continue
        if rel.startswith("language/parser/") and (base.startswith("FandangoParser") or base == "FandangoLexer.py"):
            continue
        try:
            tree = ast.parse(path.read_text())
        except (SyntaxError, OSError) as e:
            problems.append(f"cannot read {rel}: {e!r}")
            continue
        for node in tree.body:
            for t, v in _targets(node):
                k = _kind(v)
                if k and isinstance(t, ast.Name) and t.id != "__all__":
                    out.add(f"{rel}::{t.id}::module::{describe(k)}")
        for node in ast.walk(tree):
            if isinstance(node, ast.ClassDef):
                for st in node.body:
                    for t, v in _targets(st):
                        k = _kind(v)
                        if k and isinstance(t, ast.Name):
                            out.add(f"{rel}::{node.name}.{t.id}::class::{describe(k)}")
            if isinstance(node, (ast.FunctionDef, ast.AsyncFunctionDef)):
                for d in list(node.args.defaults) + [x for x in node.args.kw_defaults if x is not None]:
                    k = _kind(d)
                    if k:
                        out.add(f"{rel}::{node.name}::default::{describe(k)}")
                for dec in node.decorator_list:
                    s = ast.unparse(dec)
                    if "cache" in s.lower():
                        out.add(f"{rel}::{node.name}::memo::{s.split('(')[0]}")
                for sub in ast.walk(node):
                    if isinstance(sub, ast.Global):
                        for n in sub.names:
                            out.add(f"{rel}::{node.name}::global::{n}")
    return sorted(out), problems


HEADER = """/-
GENERATED by harness/translate_globals.py from /repo's current source — do not edit.
Every place of src/fandango where state can outlive one spec object (module-level / class-level mutable objects,
shared default-argument objects, memoised functions, functions rebinding module names).  Props/C18.lean pins the
reviewed inventory.
-/
namespace FV.Generated

"""


def regenerate() -> dict[str, Any]:
    inv, problems = inventory()
    body = HEADER + "def processState : List String := [\n"
    body += ",\n".join('  "' + e.replace("\\", "\\\\").replace('"', '\\"') + '"' for e in inv)
    body += "\n]\n\nend FV.Generated\n"
    write_if_changed(LEAN / "Generated" / "ProcessState.lean", body)
    return {"entries": len(inv), "refusals": problems, "inventory": inv}


if __name__ == "__main__":
    import json
    r = regenerate()
    print(json.dumps({k: v for k, v in r.items() if k != "inventory"}, indent=1))
    for e in r["inventory"]:
        print(e)
