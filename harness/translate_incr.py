"""T-incr: read from /repo's *current* `iterative_parser.py` the three code shapes of the scanners that the
incremental-parsing model (lean/Model/Incremental.lean, C13) is written for, and write which variant the source
has to `lean/Generated/Incr.lean`:

* `emptyMatchIsMatch` — `scan_regex`: the statement that discards a match (`match = False; match_length = 0`) is
                        guarded by `state.is_incomplete and match and match_length <= prev_match_length`
                        (fix 179bde08: only a re-scan of an incomplete state that does not get past the remembered
                        prefix is no match) or by `match and match_length <= prev_match_length` (before: an empty
                        match of a fresh state is no match, too).
* `byteBoundaryGuard` — `_consume`: the scan branch is `if <bit terminal>: scan_bit … elif curr_table_idx % 8 != 0:
                        match = False else: scan_regex / scan_bytes` (fix a33087ac) or has no such `elif`.
* `bitRefusesWide`    — `scan_bit`: `if byte > 0xFF: return False` stands between reading the unit and taking the
                        bit (fix 1ef12755) or does not.

Everything is decided from the Python `ast`.  A shape the translator does not understand is a *refusal*:
`incrCfgRead := false` is emitted, which breaks `Props/C13.lean: C13_source_configuration`.
"""
from __future__ import annotations

import ast
from typing import Any

from harness.common import LEAN
from harness.translate import Refusal, find_class, find_func, parse_file, write_if_changed

PARSER = "language/grammar/parser/iterative_parser.py"


def _norm(node: ast.AST) -> str:
    return ast.unparse(node).replace("(", "").replace(")", "").replace(" ", "")


def regex_length_test(cls: ast.ClassDef) -> bool:
    """True: the length test only applies to incomplete states (an empty match of a fresh state is a match)"""
    fn = find_func(cls, "scan_regex")
    hits = []
    for n in ast.walk(fn):
        if not isinstance(n, ast.If) or n.orelse:
            continue
        body = [ast.unparse(b).replace(" ", "") for b in n.body]
        if body == ["match=False", "match_length=0"]:
            hits.append(n)
    if len(hits) != 1:
        raise Refusal(f"scan_regex: expected exactly one `if …: match = False; match_length = 0`, found {len(hits)}")
    test = _norm(hits[0].test)
    if test == "state.is_incompleteandmatchandmatch_length<=prev_match_length":
        variant = True
    elif test == "matchandmatch_length<=prev_match_length":
        variant = False
    else:
        raise Refusal(f"scan_regex: the match-length test `{ast.unparse(hits[0].test)}` is not a modelled shape")
    # what the test compares with: prev_match_length = 0, and len(prev_val_raw) inside `if state.is_incomplete:`
    assigns = [n for n in ast.walk(fn) if isinstance(n, ast.Assign) and len(n.targets) == 1
               and isinstance(n.targets[0], ast.Name) and n.targets[0].id == "prev_match_length"]
    vals = sorted(_norm(a.value) for a in assigns)
    if vals != ["0", "lenprev_val_raw"]:
        raise Refusal(f"scan_regex: prev_match_length is assigned {vals}")
    # the columns: k + (offset - state.incomplete_idx) * table_idx_multiplier, multiplier 8
    mult = [n for n in ast.walk(fn) if isinstance(n, ast.Assign) and len(n.targets) == 1
            and isinstance(n.targets[0], ast.Name) and n.targets[0].id == "table_idx_multiplier"]
    if len(mult) != 1 or _norm(mult[0].value) != "8":
        raise Refusal("scan_regex: table_idx_multiplier is not the constant 8")
    subs = sorted({_norm(n.slice) for n in ast.walk(fn) if isinstance(n, ast.Subscript)
                   and isinstance(n.value, ast.Name) and n.value.id == "table"})
    want = sorted(["k+incomplete_table_offset-state.incomplete_idx*table_idx_multiplier",
                   "k+table_offset-state.incomplete_idx*table_idx_multiplier"])
    if subs != want:
        raise Refusal(f"scan_regex: target columns {subs}")
    return variant


def byte_boundary_guard(cls: ast.ClassDef) -> bool:
    """True: `_consume` scans text/bytes/regex terminals only in columns `curr_table_idx % 8 == 0`"""
    fn = find_func(cls, "_consume")
    calls = [n for n in ast.walk(fn) if isinstance(n, ast.If) and any(
        isinstance(c, ast.Call) and isinstance(c.func, ast.Attribute) and c.func.attr == "scan_bit"
        for b in n.body for c in ast.walk(b))
        and "TRAILING_BITS_ONLY" in ast.unparse(n.test)]
    if len(calls) != 1:
        raise Refusal(f"_consume: expected exactly one `if <bit terminal>: scan_bit(...)`, found {len(calls)}")
    node = calls[0]
    if _norm(node.test) != "state.dotisnotNoneandstate.dot.is_typeTreeValueType.TRAILING_BITS_ONLY":
        raise Refusal(f"_consume: the bit-terminal test is `{ast.unparse(node.test)}`")

    def scans_bytes(stmts: list[ast.stmt]) -> bool:
        names = {c.func.attr for s in stmts for c in ast.walk(s)
                 if isinstance(c, ast.Call) and isinstance(c.func, ast.Attribute)}
        return {"scan_regex", "scan_bytes"} <= names

    orelse = node.orelse
    if len(orelse) == 1 and isinstance(orelse[0], ast.If) and not scans_bytes(orelse[0].body):
        guard = orelse[0]
        if _norm(guard.test) != "curr_table_idx%8!=0":
            raise Refusal(f"_consume: the guard before scan_regex/scan_bytes is `{ast.unparse(guard.test)}`")
        body = [ast.unparse(b).replace(" ", "") for b in guard.body]
        if body != ["match=False"]:
            raise Refusal(f"_consume: the byte-boundary guard does {body}")
        if not scans_bytes(guard.orelse):
            raise Refusal("_consume: no scan_regex/scan_bytes behind the byte-boundary guard")
        return True
    if scans_bytes(orelse):
        return False
    raise Refusal("_consume: the branch after scan_bit is not a modelled shape")


def bit_refuses_wide(cls: ast.ClassDef) -> bool:
    """True: `scan_bit` returns False for a unit above 0xFF before it takes the bit"""
    fn = find_func(cls, "scan_bit")
    body = fn.body
    idx_byte = next((i for i, s in enumerate(body) if isinstance(s, ast.Assign) and len(s.targets) == 1
                     and isinstance(s.targets[0], ast.Name) and s.targets[0].id == "byte"), None)
    idx_bit = next((i for i, s in enumerate(body) if isinstance(s, ast.Assign) and len(s.targets) == 1
                    and isinstance(s.targets[0], ast.Name) and s.targets[0].id == "bit"), None)
    if idx_byte is None or idx_bit is None or idx_bit <= idx_byte:
        raise Refusal("scan_bit: `byte = …` / `bit = …` not found in this order")
    if _norm(body[idx_byte].value) != "ordword[w]ifisinstanceword,strelseword[w]":
        raise Refusal(f"scan_bit: byte is `{ast.unparse(body[idx_byte].value)}`")
    if _norm(body[idx_bit].value) != "byte>>bit_count&1":
        raise Refusal(f"scan_bit: bit is `{ast.unparse(body[idx_bit].value)}`")
    between = body[idx_byte + 1:idx_bit]
    if not between:
        return False
    if len(between) == 1 and isinstance(between[0], ast.If) and not between[0].orelse \
            and _norm(between[0].test) in ("byte>255", "byte>0xFF", "byte>0xff") \
            and [ast.unparse(b).replace(" ", "") for b in between[0].body] == ["returnFalse"]:
        return True
    raise Refusal("scan_bit: the statements between `byte = …` and `bit = …` are not a modelled shape")


def read_config() -> dict[str, Any]:
    cls = find_class(parse_file(PARSER), "IterativeParser")
    return {"emptyMatchIsMatch": regex_length_test(cls), "byteBoundaryGuard": byte_boundary_guard(cls),
            "bitRefusesWide": bit_refuses_wide(cls)}


HEADER = """/-
GENERATED by harness/translate_incr.py from /repo's current source — do not edit.
`incrCfg` is the variant of the scanners of `iterative_parser.py` that the source implements today, read from
the `ast`: is the match-length test of `scan_regex` restricted to incomplete states (179bde08), does `_consume`
scan text/bytes/regex terminals at byte boundaries only (a33087ac), does `scan_bit` refuse units above 0xFF
(1ef12755).  Model/Incremental.lean is written for `ScanCfg.modelled`; Props/C13.lean states
`C13_source_configuration` for this value.
-/
import Model.Incremental
namespace FV.Generated

"""


def _b(x: bool) -> str:
    return "true" if x else "false"


def regenerate() -> dict[str, Any]:
    refusals: list[str] = []
    cfg: dict[str, Any] = {}
    try:
        cfg = read_config()
    except Refusal as e:
        refusals.append(str(e))
    except (OSError, SyntaxError) as e:
        refusals.append(f"cannot read source: {e}")
    body = HEADER
    if cfg:
        body += "def incrCfgRead : Bool := true\n"
        body += (f"def incrCfg : FV.Incr.ScanCfg := ⟨{_b(cfg['emptyMatchIsMatch'])}, "
                 f"{_b(cfg['byteBoundaryGuard'])}, {_b(cfg['bitRefusesWide'])}⟩\n")
    else:
        body += "/- the translator refused: " + "; ".join(refusals).replace("-/", "- /") + " -/\n"
        body += "def incrCfgRead : Bool := false\n"
        body += "def incrCfg : FV.Incr.ScanCfg := FV.Incr.ScanCfg.modelled\n"
    body += "\nend FV.Generated\n"
    write_if_changed(LEAN / "Generated" / "Incr.lean", body)
    return {"constants": cfg, "refusals": refusals}


if __name__ == "__main__":
    import json
    print(json.dumps(regenerate(), indent=1))
