"""Translator for C20: which rule /repo's *current* source has at the places the protocol-run model
(lean/Model/IoRun.lean) takes as a parameter (`FV.Io.Variant`), read with Python `ast` and emitted as
`lean/Generated/IoRun.lean`.  The theorems of Props/C20.lean are stated for the generated variant and are
provable only for `Variant.current`; a source that goes back to sender-only filtering (or loses the
`_extends_history` guard) regenerates a different variant and the obligations break.

findByRecipient   io/packetparser.py `_find_next_fragment` tests
                  `sender == role_sender and (role_recipient is None or recipient == role_recipient)` AND every call in
                  `parse_next_remote_packet` passes `msg_recipient`, which the party-selection loop binds from the
                  buffered fragment (`for idx, (msg_sender, msg_recipient, _) in enumerate(get_received_msgs())`)
clearByRecipient  io/__init__.py `FandangoIO.clear_by_party` drops
                  `sender == party_name and (recipient is None or receiver == recipient) and idx <= to_idx` AND
                  `parse_next_remote_packet` calls it with `msg_recipient`
typesByRecipient  `available_non_terminals` is the forecast's types of the sender whose packet's
                  `node.recipient in (None, msg_recipient)`
extendsGuard      evolution/algorithm.py `_generate_io`: `if not self._extends_history(history_tree, next_tree): continue`
                  stands before the transmit / `history_tree = next_tree`, and `_extends_history` is
                  `len(new) == len(old) + 1 and all(a.sender == b.sender and a.recipient == b.recipient and a.msg == b.msg …zip(old, new))`

Each site is pinned by its `ast.unparse` text: the OLD text gives `false`, the CURRENT text gives `true`, any
other text is a *refusal* (→ broken obligation; the flag is emitted as `false`).  Also pinned (refusal only):
`add_receive` appends one entry per character/byte; the parsed tree is labelled with the forecast packet's
sender and recipient.
"""
from __future__ import annotations

import ast
from typing import Any, Optional

from harness.common import LEAN, REPO_SRC

OUT = LEAN / "Generated" / "IoRun.lean"
FLAGS = ["findByRecipient", "clearByRecipient", "typesByRecipient", "extendsGuard"]

FIND_TEST = {
    "sender == role_sender": False,
    "sender == role_sender and (role_recipient is None or recipient == role_recipient)": True,
}
FIND_UNPACK = "sender, recipient, msg_fragment = messages[idx]"
FIND_CALL = {
    "_find_next_fragment(msg_sender, io_instance.get_received_msgs(), current_fragment_idx + 1)": False,
    "_find_next_fragment(msg_sender, io_instance.get_received_msgs(), current_fragment_idx + 1, msg_recipient)": True,
}
SELECT_LOOP = {
    ("(idx, (msg_sender, _, _))", "enumerate(io_instance.get_received_msgs())"): False,
    ("(idx, (msg_sender, msg_recipient, _))", "enumerate(io_instance.get_received_msgs())"): True,
}
SELECT_BODY = "if msg_sender in forecast.get_msg_parties():\n    break"
CLEAR_COMP = {
    "[(sender, receiver, msg) for idx, (sender, receiver, msg) in enumerate(self.receive) "
    "if not (sender == party_name and idx <= to_idx)]": False,
    "[(sender, receiver, msg) for idx, (sender, receiver, msg) in enumerate(self.receive) "
    "if not (sender == party_name and (recipient is None or receiver == recipient) and (idx <= to_idx))]": True,
}
CLEAR_CALL = {
    "io_instance.clear_by_party(msg_sender, max_parse_idx)": False,
    "io_instance.clear_by_party(msg_sender, max_parse_idx, msg_recipient)": True,
}
AVAIL = {
    "set(forecast_non_terminals.get_non_terminals())": False,
    "{nt for nt in forecast_non_terminals.get_non_terminals() "
    "if forecast_non_terminals[nt].node.recipient in (None, msg_recipient)}": True,
}
LABELS = ["parse_tree.sender = forecast_packet.node.sender", "parse_tree.recipient = forecast_packet.node.recipient"]
GUARD = "if not self._extends_history(history_tree, next_tree):\n    continue"
EXTENDS_BODY = [
    "old = history_tree.protocol_msgs()",
    "new = candidate.protocol_msgs()",
    "return len(new) == len(old) + 1 and all((a.sender == b.sender and a.recipient == b.recipient and "
    "(a.msg == b.msg) for a, b in zip(old, new)))",
]
ADD_RECEIVE = [
    "for fragment_int in message:\n    self.receive.append((sender, receiver, bytes([fragment_int])))",
    "for fragment_str in message:\n    self.receive.append((sender, receiver, fragment_str))",
]


def _func(scope: Any, name: str) -> Optional[ast.FunctionDef]:
    for n in ast.walk(scope):
        if isinstance(n, ast.FunctionDef) and n.name == name:
            return n
    return None


def _strip_doc(fn: ast.FunctionDef) -> list[ast.stmt]:
    body = list(fn.body)
    if body and isinstance(body[0], ast.Expr) and isinstance(body[0].value, ast.Constant) \
            and isinstance(body[0].value.value, str):
        body = body[1:]
    return body


def read_source() -> dict:
    refusals: list[str] = []
    sites: dict[str, Any] = {}
    src = REPO_SRC / "fandango"

    def load(rel: str):
        try:
            return ast.parse((src / rel).read_text())
        except Exception as e:  # noqa
            refusals.append(f"{rel}: {e!r}")
            return None

    def pin(name: str, text: str, table: dict) -> Optional[bool]:
        if text in table:
            sites[name] = table[text]
            return table[text]
        refusals.append(f"{name}: shape not understood: {text[:160]!r}")
        sites[name] = None
        return None

    pp, io, alg = load("io/packetparser.py"), load("io/__init__.py"), load("evolution/algorithm.py")

    # ---- _find_next_fragment
    find_fn = _func(pp, "_find_next_fragment") if pp else None
    find_filter = None
    if find_fn is None:
        refusals.append("_find_next_fragment not found")
    else:
        ifs = [x for x in ast.walk(find_fn) if isinstance(x, ast.If)]
        fors = [x for x in ast.walk(find_fn) if isinstance(x, ast.For)]
        if len(ifs) != 1 or len(fors) != 1 or ast.unparse(fors[0].iter) != "range(start_idx, len(messages))" \
                or ast.unparse(fors[0].body[0]) != FIND_UNPACK or ast.unparse(ifs[0].body[0]) != "return (idx, msg_fragment)":
            refusals.append("_find_next_fragment: loop shape not understood")
        else:
            find_filter = pin("find.filter", ast.unparse(ifs[0].test), FIND_TEST)
            if find_filter:
                args = find_fn.args
                names = [a.arg for a in args.args]
                dflt = [ast.unparse(d) for d in args.defaults]
                if names != ["role_sender", "messages", "start_idx", "role_recipient"] or dflt != ["0", "None"]:
                    refusals.append(f"_find_next_fragment: parameters {names} defaults {dflt}")
                    find_filter = None

    # ---- parse_next_remote_packet
    parse_fn = _func(pp, "parse_next_remote_packet") if pp else None
    find_calls = clear_call = avail = select = None
    if parse_fn is None:
        refusals.append("parse_next_remote_packet not found")
    else:
        calls = [x for x in ast.walk(parse_fn) if isinstance(x, ast.Call) and isinstance(x.func, ast.Name)
                 and x.func.id == "_find_next_fragment"]
        vals = {pin("parse.find_call", ast.unparse(c), FIND_CALL) for c in calls}
        if not calls:
            refusals.append("parse_next_remote_packet: no call of _find_next_fragment")
        elif len(vals) != 1:
            refusals.append("parse_next_remote_packet: the calls of _find_next_fragment differ in their arguments")
        else:
            find_calls = vals.pop()
        cc = [x for x in ast.walk(parse_fn) if isinstance(x, ast.Call) and isinstance(x.func, ast.Attribute)
              and x.func.attr == "clear_by_party"]
        if len(cc) != 1:
            refusals.append(f"parse_next_remote_packet: {len(cc)} calls of clear_by_party")
        else:
            clear_call = pin("parse.clear_call", ast.unparse(cc[0]), CLEAR_CALL)
        av = [x for x in ast.walk(parse_fn) if isinstance(x, ast.Assign) and len(x.targets) == 1
              and isinstance(x.targets[0], ast.Name) and x.targets[0].id == "available_non_terminals"]
        if len(av) != 1:
            refusals.append(f"parse_next_remote_packet: {len(av)} assignments to available_non_terminals")
        else:
            avail = pin("parse.available", ast.unparse(av[0].value), AVAIL)
        loops = [x for x in ast.walk(parse_fn) if isinstance(x, ast.For) and "msg_sender" in ast.unparse(x.target)]
        if len(loops) != 1 or ast.unparse(loops[0].body[0]) != SELECT_BODY or len(loops[0].body) != 1:
            refusals.append("parse_next_remote_packet: party-selection loop not understood")
        else:
            select = pin("parse.select_loop", ast.unparse(loops[0].target) + " in " + ast.unparse(loops[0].iter),
                         {" in ".join(k): v for k, v in SELECT_LOOP.items()})
        text = {ast.unparse(x) for x in ast.walk(parse_fn) if isinstance(x, ast.Assign)}
        for lab in LABELS:
            if lab not in text:
                refusals.append(f"parse_next_remote_packet: `{lab}` not found")
        uses_rcp = any(isinstance(x, ast.Name) and x.id == "msg_recipient" and isinstance(x.ctx, ast.Load)
                       for x in ast.walk(parse_fn))
        if uses_rcp and select is False:
            refusals.append("parse_next_remote_packet reads msg_recipient but the selection loop does not bind it")

    # ---- FandangoIO.clear_by_party, add_receive
    clear_fn = _func(io, "clear_by_party") if io else None
    clear_filter = None
    if clear_fn is None:
        refusals.append("FandangoIO.clear_by_party not found")
    else:
        comps = [x for x in ast.walk(clear_fn) if isinstance(x, ast.ListComp)]
        asg = [x for x in ast.walk(clear_fn) if isinstance(x, ast.Assign)]
        if len(comps) != 1 or len(asg) != 1 or ast.unparse(asg[0].targets[0]) != "self.receive":
            refusals.append("clear_by_party: shape not understood")
        else:
            clear_filter = pin("clear.filter", ast.unparse(comps[0]), CLEAR_COMP)
            if clear_filter:
                names = [a.arg for a in clear_fn.args.args]
                dflt = [ast.unparse(d) for d in clear_fn.args.defaults]
                if names != ["self", "party_name", "to_idx", "recipient"] or dflt != ["None"]:
                    refusals.append(f"clear_by_party: parameters {names} defaults {dflt}")
                    clear_filter = None
    add_fn = _func(io, "add_receive") if io else None
    if add_fn is None:
        refusals.append("FandangoIO.add_receive not found")
    else:
        loops = [ast.unparse(x) for x in ast.walk(add_fn) if isinstance(x, ast.For)]
        if sorted(loops) != sorted(ADD_RECEIVE):
            refusals.append("add_receive: does not append one (sender, receiver, unit) entry per character / byte")

    # ---- _generate_io: the extends guard
    gen_fn = _func(alg, "_generate_io") if alg else None
    guard = None
    if gen_fn is None:
        refusals.append("Fandango._generate_io not found")
    else:
        # the block that transmits: statements in order
        block = None
        for x in ast.walk(gen_fn):
            for body in (getattr(x, "body", None), getattr(x, "orelse", None)):
                if isinstance(body, list) and any(isinstance(st, ast.Assign) and ast.unparse(st) == "history_tree = next_tree"
                                                  for st in body):
                    block = body
        if block is None:
            refusals.append("_generate_io: `history_tree = next_tree` not found")
        else:
            texts = [ast.unparse(st) for st in block]
            i_hist = texts.index("history_tree = next_tree")
            i_tx = next((i for i, st in enumerate(block) if any(
                isinstance(c, ast.Call) and isinstance(c.func, ast.Attribute) and c.func.attr == "transmit"
                for c in ast.walk(st))), None)
            i_new = next((i for i, t in enumerate(texts) if t == "new_packet = next_tree.protocol_msgs()[-1]"), None)
            if i_tx is None or i_new is None or not (i_new < i_tx < i_hist):
                refusals.append("_generate_io: transmit block not understood")
            else:
                mentions = [i for i, t in enumerate(texts) if "_extends_history" in t]
                if not mentions:
                    guard = False
                elif len(mentions) == 1 and texts[mentions[0]] == GUARD and mentions[0] < i_new:
                    ext_fn = _func(alg, "_extends_history")
                    if ext_fn is None or [ast.unparse(s) for s in _strip_doc(ext_fn)] != EXTENDS_BODY \
                            or [a.arg for a in ext_fn.args.args] != ["history_tree", "candidate"]:
                        refusals.append("_extends_history: body not understood")
                    else:
                        guard = True
                else:
                    refusals.append("_generate_io: use of _extends_history not understood")
        sites["generate_io.extends_guard"] = guard

    def both(a: Optional[bool], b: Optional[bool]) -> bool:
        return bool(a) and bool(b)

    flags = {
        "findByRecipient": both(find_filter, find_calls) and bool(select),
        "clearByRecipient": both(clear_filter, clear_call) and bool(select),
        "typesByRecipient": bool(avail) and bool(select),
        "extendsGuard": bool(guard),
    }
    # a call site that passes msg_recipient to a function that ignores it (or the reverse) is a shape of its own
    if find_filter is not None and find_calls is not None and find_filter != find_calls and find_calls:
        refusals.append("_find_next_fragment is given msg_recipient but does not compare it")
    if clear_filter is not None and clear_call is not None and clear_filter != clear_call and clear_call:
        refusals.append("clear_by_party is given msg_recipient but does not compare it")
    return {"flags": flags, "sites": {k: v for k, v in sites.items()}, "refusals": refusals}


def regenerate() -> dict:
    r = read_source()
    f = r["flags"]
    text = ("/- GENERATED by harness/translate_iorun.py from /repo's current source — do not edit -/\n"
            "import Model.IoRun\n"
            "namespace FV.Io.Generated\n"
            "/-- the rule the source has NOW at the places touched by 8c7aa85d / bd6395f0 -/\n"
            "def variant : FV.Io.Variant :=\n  { "
            + ", ".join(f"{n} := {'true' if f[n] else 'false'}" for n in FLAGS)
            + " }\n"
            "end FV.Io.Generated\n")
    if not OUT.exists() or OUT.read_text() != text:
        OUT.write_text(text)
    return r


if __name__ == "__main__":
    import json
    print(json.dumps(regenerate(), indent=1, default=str))
