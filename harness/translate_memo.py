"""Translator for C11: what the cache keys cover, read from /repo's *current* source (Python `ast`) and emitted
as `lean/Generated/MemoKey.lean`.  Props/C11.lean §5 is stated for these constants.

repKeyCoversTags     RepetitionBoundsConstraint.fitness: the key that is looked up in / written to `self.cache`
                     is computed from `self.get_hash(tree, scope, local_variables)` AND `tree.origin_signature()`
evalKeyCoversTags    Evaluator._cache_key (the key of `_fitness_cache` / `_solution_set`): extended by
                     `individual.get_root().origin_signature()` whenever repetition-bounds constraints exist
signatureCoversTags  DerivationTree.origin_signature: built from `self.origin_repetitions` and, recursively, from
                     `child.origin_signature()` of every child in `self._children`
Anything else (function missing, key built another way) is a refusal -> broken obligation.
"""
from __future__ import annotations

import ast

from harness.common import LEAN, REPO_SRC


def _func(tree: ast.AST, cls: str, name: str):
    for n in ast.walk(tree):
        if isinstance(n, ast.ClassDef) and n.name == cls:
            for m in n.body:
                if isinstance(m, ast.FunctionDef) and m.name == name:
                    return m
    return None


def _mentions(node: ast.AST, attr: str) -> bool:
    return any(isinstance(x, ast.Attribute) and x.attr == attr for x in ast.walk(node))


def regenerate() -> dict:
    refusals: list[str] = []
    flags: dict[str, bool] = {}
    src = REPO_SRC / "fandango"

    def load(rel: str):
        try:
            return ast.parse((src / rel).read_text())
        except Exception as e:  # noqa
            refusals.append(f"{rel}: {e!r}")
            return None

    rb, ev, tr = load("constraints/repetition_bounds.py"), load("evolution/evaluation.py"), load("language/tree.py")
    # ---- RepetitionBoundsConstraint.fitness
    f = _func(rb, "RepetitionBoundsConstraint", "fitness") if rb else None
    if f is None:
        refusals.append("RepetitionBoundsConstraint.fitness not found")
    else:
        keys = [s for s in ast.walk(f) if isinstance(s, ast.Assign) and len(s.targets) == 1
                and isinstance(s.targets[0], ast.Name) and s.targets[0].id == "tree_hash"]
        looked = [s for s in ast.walk(f) if isinstance(s, ast.Compare) and isinstance(s.left, ast.Name)
                  and s.left.id == "tree_hash" and ast.unparse(s.comparators[0]) == "self.cache"]
        stored = [s for s in ast.walk(f) if isinstance(s, ast.Subscript) and ast.unparse(s.value) == "self.cache"
                  and isinstance(s.ctx, ast.Store)]
        if len(keys) != 1 or not looked or any(ast.unparse(s.slice) != "tree_hash" for s in stored):
            refusals.append("RepetitionBoundsConstraint.fitness: the cache is no longer keyed by one local `tree_hash`")
        else:
            v = keys[0].value
            flags["repKeyCoversTags"] = _mentions(v, "get_hash") and any(
                isinstance(c, ast.Call) and isinstance(c.func, ast.Attribute) and c.func.attr == "origin_signature"
                and ast.unparse(c.func.value) == "tree" for c in ast.walk(v))
    # ---- Evaluator._cache_key
    f = _func(ev, "Evaluator", "_cache_key") if ev else None
    if f is None:
        # before a55700f5 the key was computed inline
        g = _func(ev, "Evaluator", "evaluate_individual") if ev else None
        if g is None:
            refusals.append("Evaluator.evaluate_individual not found")
        else:
            flags["evalKeyCoversTags"] = _mentions(g, "origin_signature")
    else:
        body = [ast.unparse(x) for x in f.body if not (isinstance(x, ast.Expr) and isinstance(x.value, ast.Constant))]
        flags["evalKeyCoversTags"] = body == [
            "key = hash((individual.get_root(), individual))",
            "if self._repetition_bounds_constraints:\n    key = hash((key, individual.get_root().origin_signature()))",
            "return key"]
        if not flags["evalKeyCoversTags"] and _mentions(f, "origin_signature"):
            refusals.append(f"Evaluator._cache_key mentions origin_signature in an unexpected shape: {body}")
    # ---- DerivationTree.origin_signature
    f = _func(tr, "DerivationTree", "origin_signature") if tr else None
    if f is None:
        flags["signatureCoversTags"] = False
    else:
        rets = [s for s in ast.walk(f) if isinstance(s, ast.Return)]
        flags["signatureCoversTags"] = len(rets) == 1 and rets[0].value is not None and ast.unparse(rets[0].value) == \
            "(tuple(self.origin_repetitions), tuple((child.origin_signature() for child in self._children)))"
        if not flags["signatureCoversTags"]:
            refusals.append("DerivationTree.origin_signature: unexpected shape "
                            + (ast.unparse(rets[0].value) if rets and rets[0].value is not None else "<none>"))
    names = ["repKeyCoversTags", "evalKeyCoversTags", "signatureCoversTags"]
    for n in names:
        if n not in flags and not refusals:
            refusals.append(f"{n}: could not be read from the source")
    out = LEAN / "Generated" / "MemoKey.lean"
    if refusals:
        text = ("/-\nGENERATED by harness/translate_memo.py — the translator REFUSED the current source:\n\n"
                + "\n".join(refusals) + "\n\nNo definitions are emitted, so Props/C11.lean fails to compile and the "
                "check reports the obligations as broken.\n-/\n")
    else:
        text = ("/-\nGENERATED by harness/translate_memo.py from /repo's current source — do not edit.\n"
                "What the cache keys of repetition-bounds evaluation cover (see the translator's docstring).\n-/\n"
                "namespace FV.Generated.MemoKey\n\n"
                + "".join(f"def {n} : Bool := {'true' if flags[n] else 'false'}\n" for n in names)
                + "\nend FV.Generated.MemoKey\n")
    if not out.exists() or out.read_text() != text:
        out.write_text(text)
    return {"flags": flags, "refusals": refusals}


if __name__ == "__main__":
    print(regenerate())
