"""T-print: regenerate `lean/Generated/Print.lean` from the *current* source of
`language/grammar/nodes/{repetition,alternative,concatenation,non_terminal}.py`.

Extracted (Python `ast`, nothing is executed):
  * which operand classes `Repetition._format_operand` parenthesises (no such method = none),
    and that `Repetition/Star/Plus/Option.format_as_spec` all print their operand the same way;
  * how `Repetition.format_as_spec` prints its bounds (`{min,}` for `_max is None`, `{min}`, `{min,max}`);
  * the operator character `Star/Plus/Option.format_as_spec` append;
  * that `Alternative.format_as_spec` is `"(" + " | ".join(…) + ")"`, `Concatenation.format_as_spec`
    `" ".join(…)`, and the three shapes of `NonTerminalNode.format_as_spec`;
  * `nodes.MAX_REPETITIONS`;
  * that the printer functions the hand-written parts of the model mirror (`Terminal.format_as_spec` /
    `_spell_regex`, every `format_as_spec` of `language/search.py`, `RepetitionBoundsConstraint._format_bound` /
    `format_bounds_as_spec`, `LiteralGenerator.format_as_spec`, `Grammar.__repr__` / `get_repr_for_rule`) still read as
    they did when the model was written (`MIRRORED`).
The result is `FV.Generated.printCfg : PrintCfg`; `Props/C15.lean` proves its theorems for *that*
value, so reverting ec9ecf03 (or any other change of these choices) breaks the proofs.  A shape the
translator does not understand is a refusal: the generated configuration is then the "nothing is
known" one (all flags off), which also breaks the proofs, and the refusal is reported.
"""
from __future__ import annotations

import ast
from typing import Any, Optional

from harness.common import LEAN, REPO_SRC
from harness.translate import Refusal, find_class, find_func, module_constant, strip_doc, write_if_changed

NODES = "language/grammar/nodes/"


def _parse(rel: str) -> ast.Module:
    return ast.parse((REPO_SRC / "fandango" / rel).read_text())


def _template(e: ast.expr) -> str:
    """an f-string / string concatenation as a template: constants verbatim, holes as ⟦expr⟧"""
    if isinstance(e, ast.JoinedStr):
        out = ""
        for v in e.values:
            if isinstance(v, ast.Constant):
                out += str(v.value)
            elif isinstance(v, ast.FormattedValue):
                if v.conversion != -1 or v.format_spec is not None:
                    raise Refusal("formatted value with conversion/format spec: " + ast.unparse(e))
                out += "⟦" + ast.unparse(v.value) + "⟧"
            else:
                raise Refusal("unknown f-string part")
        return out
    if isinstance(e, ast.Constant) and isinstance(e.value, str):
        return e.value
    if isinstance(e, ast.BinOp) and isinstance(e.op, ast.Add):
        return _template(e.left) + _template(e.right)
    return "⟦" + ast.unparse(e) + "⟧"


def _single_return(fn: ast.FunctionDef) -> ast.expr:
    body = strip_doc(fn)
    if len(body) != 1 or not isinstance(body[0], ast.Return) or body[0].value is None:
        raise Refusal(f"{fn.name}: expected a single return statement, found:\n" + "\n".join(ast.unparse(s) for s in body))
    return body[0].value


OPERAND_DIRECT = "self.node.format_as_spec()"
OPERAND_HELPER = "self._format_operand()"


def operand_classes(rep_cls: ast.ClassDef) -> Optional[set[str]]:
    """names in the isinstance test of `_format_operand`; None when the method does not exist"""
    try:
        fn = find_func(rep_cls, "_format_operand")
    except Refusal:
        return None
    body = strip_doc(fn)
    ok = (len(body) == 2 and isinstance(body[0], ast.If) and not body[0].orelse and len(body[0].body) == 1
          and isinstance(body[0].body[0], ast.Return) and isinstance(body[1], ast.Return))
    if not ok:
        raise Refusal("_format_operand has an unknown shape:\n" + ast.unparse(fn))
    test = body[0].test
    if not (isinstance(test, ast.Call) and isinstance(test.func, ast.Name) and test.func.id == "isinstance"
            and len(test.args) == 2 and ast.unparse(test.args[0]) == "self.node"):
        raise Refusal("_format_operand: test is not isinstance(self.node, …): " + ast.unparse(test))
    cl = test.args[1]
    names = [cl] if isinstance(cl, ast.Name) else list(cl.elts) if isinstance(cl, ast.Tuple) else None
    if names is None or not all(isinstance(n, ast.Name) for n in names):
        raise Refusal("_format_operand: class list not understood: " + ast.unparse(cl))
    if _template(body[0].body[0].value) != "(⟦" + OPERAND_DIRECT + "⟧)":
        raise Refusal("_format_operand: the parenthesised branch is not '(' operand ')': " + ast.unparse(body[0].body[0]))
    if ast.unparse(body[1].value) != OPERAND_DIRECT:
        raise Refusal("_format_operand: the bare branch is not the operand's format_as_spec()")
    return {n.id for n in names}  # type: ignore[attr-defined]


def repetition_shape(mod: ast.Module) -> dict[str, Any]:
    rep = find_class(mod, "Repetition")
    classes = operand_classes(rep)
    operand = OPERAND_DIRECT if classes is None else OPERAND_HELPER
    known = {"Concatenation", "Repetition", "Alternative"}
    if classes is not None and classes - known:
        # Star/Plus/Option listed separately, terminals, … : the model has no flag for that
        raise Refusal(f"_format_operand parenthesises classes the model does not know: {sorted(classes - known)}")
    classes = classes or set()
    out: dict[str, Any] = {"parenCat": "Concatenation" in classes, "parenRep": "Repetition" in classes,
                           "parenAlt": "Alternative" in classes}
    # postfix characters
    for cls, key in (("Star", "starTok"), ("Plus", "plusTok"), ("Option", "optTok")):
        c = find_class(mod, cls)
        if [ast.unparse(b) for b in c.bases] != ["Repetition"]:
            raise Refusal(f"{cls} is not a direct subclass of Repetition")
        t = _template(_single_return(find_func(c, "format_as_spec")))
        pre = "⟦" + operand + "⟧"
        if not t.startswith(pre):
            raise Refusal(f"{cls}.format_as_spec prints its operand as {t!r}, Repetition uses {operand}")
        ch = t[len(pre):]
        tok = {"*": ".star", "+": ".plus", "?": ".quest"}.get(ch)
        if tok is None:
            raise Refusal(f"{cls}.format_as_spec appends {ch!r}")
        out[key] = tok
    # bounds
    body = strip_doc(find_func(rep, "format_as_spec"))
    o = "⟦" + operand + "⟧"
    t_open, t_eq, t_rng = o + "{⟦self.min⟧,}", o + "{⟦self.min⟧}", o + "{⟦self.min⟧,⟦self.max⟧}"

    def if_return(s: ast.stmt, test: str, tmpl: str) -> bool:
        return (isinstance(s, ast.If) and not s.orelse and ast.unparse(s.test) == test and len(s.body) == 1
                and isinstance(s.body[0], ast.Return) and s.body[0].value is not None
                and _template(s.body[0].value) == tmpl)

    def last_return(s: ast.stmt, tmpl: str) -> bool:
        return isinstance(s, ast.Return) and s.value is not None and _template(s.value) == tmpl

    if body and isinstance(body[0], ast.If) and ast.unparse(body[0].test) == "self.bounds_constraint is not None" \
            and not body[0].orelse and len(body[0].body) == 1 and isinstance(body[0].body[0], ast.Return) \
            and _template(body[0].body[0].value).startswith(o):
        # computed bounds `{int(<n>)}` are printed from their expressions (`ENode.crep`, `printCB` of the model)
        if _template(body[0].body[0].value) != o + "⟦self.bounds_constraint.format_bounds_as_spec()⟧":
            raise Refusal("Repetition.format_as_spec prints computed bounds in an unknown way: " + ast.unparse(body[0]))
        body = body[1:]
        out["computedBoundsPrinted"] = True
    else:
        raise Refusal("Repetition.format_as_spec does not print computed bounds from the bounds constraint (16243b00)")
    if len(body) == 3 and if_return(body[0], "self._max is None", t_open) \
            and if_return(body[1], "self.min == self.max", t_eq) and last_return(body[2], t_rng):
        out["openBound"] = True
    elif len(body) == 2 and if_return(body[0], "self.min == self.max", t_eq) and last_return(body[1], t_rng):
        out["openBound"] = False
    else:
        raise Refusal("Repetition.format_as_spec has an unknown shape:\n" + "\n".join(ast.unparse(s) for s in body))
    # `max` property: cap for an open bound
    mx = "\n".join(ast.unparse(s) for s in strip_doc(find_func(rep, "max")))
    # open bound: the library default cap, or (since the per-grammar cap) the owning grammar's `open_max`,
    # which is None while the front end builds the node
    if mx not in ("if self._max is None:\n    return nodes.MAX_REPETITIONS\nreturn self._max",
                  "if self._max is None:\n    return nodes.MAX_REPETITIONS if self.open_max is None else self.open_max\n"
                  "return self._max"):
        raise Refusal("Repetition.max has an unknown shape:\n" + mx)
    return out


ALT_PAREN = "'(' + ' | '.join(map(lambda x: x.format_as_spec(), self.alternatives)) + ')'"
ALT_BARE = "' | '.join(map(lambda x: x.format_as_spec(), self.alternatives))"
CAT_BARE = "' '.join(map(lambda x: x.format_as_spec(), self.nodes))"
NT_SHAPE = ("if self.sender is not None:\n"
            "    if self.recipient is None:\n"
            "        return f'<{self.sender}:{self.symbol.format_as_spec()[1:-1]}>'\n"
            "    else:\n"
            "        return f'<{self.sender}:{self.recipient}:{self.symbol.format_as_spec()[1:-1]}>'\n"
            "else:\n"
            "    return self.symbol.format_as_spec()")


def other_shapes() -> dict[str, Any]:
    out: dict[str, Any] = {}
    alt = ast.unparse(_single_return(find_func(find_class(_parse(NODES + "alternative.py"), "Alternative"), "format_as_spec")))
    if alt == ALT_PAREN:
        out["altParens"] = True
    elif alt == ALT_BARE:
        out["altParens"] = False
    else:
        raise Refusal("Alternative.format_as_spec has an unknown shape: " + alt)
    cat = ast.unparse(_single_return(find_func(find_class(_parse(NODES + "concatenation.py"), "Concatenation"), "format_as_spec")))
    if cat != CAT_BARE:
        raise Refusal("Concatenation.format_as_spec has an unknown shape: " + cat)
    nt = "\n".join(ast.unparse(s) for s in strip_doc(
        find_func(find_class(_parse(NODES + "non_terminal.py"), "NonTerminalNode"), "format_as_spec")))
    if nt != NT_SHAPE:
        raise Refusal("NonTerminalNode.format_as_spec has an unknown shape:\n" + nt)
    tn = ast.unparse(_single_return(find_func(find_class(_parse(NODES + "terminal.py"), "TerminalNode"), "format_as_spec")))
    if tn != "self.symbol.format_as_spec()":
        raise Refusal("TerminalNode.format_as_spec has an unknown shape: " + tn)
    return out


# ------------------------------------------------------------------------------------------------
# printer functions that hand-written parts of the model mirror line by line (Model/PyLit.lean regex terminals,
# Model/PrintSearch.lean, computed bounds / generators / productions of Model/Print.lean): their normalised source
# (`ast.unparse`, docstrings stripped).  Any change is a refusal: the model has to be re-read against the code.
# ------------------------------------------------------------------------------------------------

MIRRORED: dict[tuple[str, str, str], str] = {('constraints/repetition_bounds.py', 'RepetitionBoundsConstraint', '_format_bound'): 'expr, _, searches = '
                                                                                      'expr_data\n'
                                                                                      'for identifier, search in '
                                                                                      'searches.items():\n'
                                                                                      '    expr = '
                                                                                      'expr.replace(identifier, '
                                                                                      'search.format_as_spec())\n'
                                                                                      'return expr',
 ('constraints/repetition_bounds.py', 'RepetitionBoundsConstraint', 'format_bounds_as_spec'): 'lower = '
                                                                                              'self._format_bound(self.expr_data_min)\n'
                                                                                              'if self.expr_data_max '
                                                                                              'is '
                                                                                              'self.expr_data_min:\n'
                                                                                              '    return '
                                                                                              "f'{{{lower}}}'\n"
                                                                                              'if '
                                                                                              'self.repetition_node.internal_max '
                                                                                              'is None and '
                                                                                              'self.expr_data_max[0].isdigit():\n'
                                                                                              '    return '
                                                                                              "f'{{{lower},}}'\n"
                                                                                              'return '
                                                                                              "f'{{{lower},{self._format_bound(self.expr_data_max)}}}'",
 ('language/grammar/grammar.py', 'Grammar', '__repr__'): "return '\\n'.join([f'{key.name()} ::= "
                                                         "{value.format_as_spec()}{(' := ' + "
                                                         'self.generators[key].format_as_spec() if key in '
                                                         "self.generators else '')}' for key, value in "
                                                         'self.rules.items()])',
 ('language/grammar/grammar.py', 'Grammar', 'get_repr_for_rule'): 'if isinstance(symbol, str):\n'
                                                                  '    symbol = NonTerminal(symbol)\n'
                                                                  "return f'{symbol.format_as_spec()} ::= "
                                                                  "{self.rules[symbol].format_as_spec()}{(' := ' + "
                                                                  'self.generators[symbol].format_as_spec() if '
                                                                  "symbol in self.generators else '')}'",
 ('language/grammar/literal_generator.py', 'LiteralGenerator', 'format_as_spec'): 'representation = str(self.call)\n'
                                                                                  'for identifier, nonterminal in '
                                                                                  'self.nonterminals.items():\n'
                                                                                  '    representation = '
                                                                                  'representation.replace(identifier, '
                                                                                  'nonterminal.format_as_spec())\n'
                                                                                  'return representation',
 ('language/search.py', 'AnnotatedSearch', 'format_as_spec'): 'return self._inner.format_as_spec()',
 ('language/search.py', 'AttributeSearch', 'format_as_spec'): 'return '
                                                              "f'{self.base.format_as_spec()}.{self.attribute.format_as_spec()}'",
 ('language/search.py', 'DescendantAttributeSearch', 'format_as_spec'): 'return '
                                                                        "f'{self.base.format_as_spec()}..{self.attribute.format_as_spec()}'",
 ('language/search.py', 'ItemSearch', 'format_as_spec'): 'slice_reprs = []\n'
                                                         'for slice_ in self.slices:\n'
                                                         '    if isinstance(slice_, slice):\n'
                                                         "        slice_repr = ''\n"
                                                         '        if slice_.start is not None:\n'
                                                         '            slice_repr += repr(slice_.start)\n'
                                                         "        slice_repr += ':'\n"
                                                         '        if slice_.stop is not None:\n'
                                                         '            slice_repr += repr(slice_.stop)\n'
                                                         '        if slice_.step is not None:\n'
                                                         "            slice_repr += ':' + repr(slice_.step)\n"
                                                         '        slice_reprs.append(slice_repr)\n'
                                                         '    else:\n'
                                                         '        slice_reprs.append(repr(slice_))\n'
                                                         "return f'{self.base.format_as_base()}[{', "
                                                         "'.join(slice_reprs)}]'",
 ('language/search.py', 'LengthSearch', 'format_as_spec'): 'if self.value.IS_STAR:\n'
                                                           "    return f'len({self.value.format_as_spec()})'\n"
                                                           "return f'|{self.value.format_as_spec()}|'",
 ('language/search.py', 'NonTerminalSearch', 'format_as_base'): 'inner: NonTerminalSearch = self\n'
                                                                'while isinstance(inner, AnnotatedSearch):\n'
                                                                '    inner = inner._inner\n'
                                                                'if isinstance(inner, RuleSearch):\n'
                                                                '    return self.format_as_spec()\n'
                                                                "return f'({self.format_as_spec()})'",
 ('language/search.py', 'RuleSearch', 'format_as_spec'): 'return self.symbol.format_as_spec()',
 ('language/search.py', 'SelectiveSearch', 'format_as_spec'): 'slice_reprs: list[str] = []\n'
                                                              'for (symbol, is_direct), items in zip(self.symbols, '
                                                              'self.slices):\n'
                                                              "    slice_repr = f'{('' if is_direct else "
                                                              "'*')}{symbol.format_as_spec()}'\n"
                                                              '    if items is not None:\n'
                                                              "        slice_repr += ': '\n"
                                                              '        if isinstance(items, slice):\n'
                                                              '            if items.start is not None:\n'
                                                              '                slice_repr += repr(items.start)\n'
                                                              "            slice_repr += ':'\n"
                                                              '            if items.stop is not None:\n'
                                                              '                slice_repr += repr(items.stop)\n'
                                                              '            if items.step is not None:\n'
                                                              "                slice_repr += ':' + repr(items.step)\n"
                                                              '        else:\n'
                                                              '            slice_repr += repr(items)\n'
                                                              '    slice_reprs.append(slice_repr)\n'
                                                              "return f'{self.base.format_as_base()}{{{', "
                                                              "'.join(slice_reprs)}}}'",
 ('language/search.py', 'StarSearch', 'format_as_spec'): "return f'*{self.base.format_as_spec()}'",
 ('language/symbols/terminal.py', 'Terminal', '_spell_regex'): 'def spell(char: str) -> str | None:\n'
                                                               "    if char == quote or char in '\\n\\r' or "
                                                               "(ascii_only and (not ' ' <= char <= '~')):\n"
                                                               "        return f'\\\\x{ord(char):02x}'\n"
                                                               '    return None\n'
                                                               'result = []\n'
                                                               'i = 0\n'
                                                               'while i < len(pattern):\n'
                                                               '    char = pattern[i]\n'
                                                               "    if char == '\\\\' and i + 1 < len(pattern):\n"
                                                               '        escaped = spell(pattern[i + 1])\n'
                                                               '        result.append(char + pattern[i + 1] if '
                                                               'escaped is None else escaped)\n'
                                                               '        i += 2\n'
                                                               '    else:\n'
                                                               '        spelled = spell(char)\n'
                                                               '        result.append(char if spelled is None else '
                                                               'spelled)\n'
                                                               '        i += 1\n'
                                                               "return ''.join(result)",
 ('language/symbols/terminal.py', 'Terminal', 'format_as_spec'): 'if self.is_regex:\n'
                                                                 '    if '
                                                                 'self.is_type(TreeValueType.TRAILING_BITS_ONLY):\n'
                                                                 '        return "r\'" + str(self._value) + "\'"\n'
                                                                 '    if self.is_type(TreeValueType.BYTES):\n'
                                                                 "        prefix = 'rb'\n"
                                                                 '        pattern = '
                                                                 "self._value.to_bytes().decode('latin-1')\n"
                                                                 '    else:\n'
                                                                 "        prefix = 'r'\n"
                                                                 '        pattern = str(self._value)\n'
                                                                 "    ascii_only = prefix == 'rb'\n"
                                                                 '    if "\'" not in pattern:\n'
                                                                 '        return '
                                                                 'f"{prefix}\'{Terminal._spell_regex(pattern, None, '
                                                                 'ascii_only)}\'"\n'
                                                                 '    if \'"\' not in pattern:\n'
                                                                 '        return '
                                                                 'f\'{prefix}"{Terminal._spell_regex(pattern, None, '
                                                                 'ascii_only)}"\'\n'
                                                                 '    return '
                                                                 'f"{prefix}\'{Terminal._spell_regex(pattern, '
                                                                 'chr(39), ascii_only)}\'"\n'
                                                                 'return repr(self._value)'}


def mirrored_sources() -> None:
    for (rel, cls, fn), want in MIRRORED.items():
        got = "\n".join(ast.unparse(s) for s in strip_doc(find_func(find_class(_parse(rel), cls), fn)))
        if got != want:
            raise Refusal(f"{rel}: {cls}.{fn} is no longer the function the model mirrors; it reads now:\n{got}")


UNKNOWN = {"altParens": False, "parenCat": False, "parenRep": False, "parenAlt": False, "openBound": False,
           "starTok": ".star", "plusTok": ".plus", "optTok": ".quest", "parenSelBase": False}

HEADER = """/-
GENERATED by harness/translate_print.py from /repo's current source — do not edit.
What `format_as_spec` of the grammar nodes parenthesises and how it prints repetition bounds.
`Props/C15.lean` proves its theorems for this value.
-/
import Model.Print
namespace FV.Generated

"""


def lean_bool(b: bool) -> str:
    return "true" if b else "false"


def regenerate() -> dict[str, Any]:
    refusals: list[str] = []
    vals: dict[str, Any] = {}
    cap = 20
    try:
        vals.update(repetition_shape(_parse(NODES + "repetition.py")))
        vals.update(other_shapes())
        mirrored_sources()
        # MIRRORED holds ItemSearch / SelectiveSearch.format_as_spec printing `self.base.format_as_base()` (9a10ad80)
        vals["parenSelBase"] = True
        cap = int(module_constant(_parse(NODES + "__init__.py"), "MAX_REPETITIONS"))
    except Refusal as e:
        refusals.append(str(e))
    except (OSError, SyntaxError, ValueError) as e:
        refusals.append(f"cannot read source: {e}")
    if refusals:
        vals = dict(UNKNOWN)
    vals["cap"] = cap
    vals.setdefault("computedBoundsPrinted", False)
    body = HEADER
    if refusals:
        body += "-- REFUSED: " + " | ".join(r.replace("\n", " ⏎ ") for r in refusals) + "\n"
    body += ("def printCfg : PrintCfg :=\n"
             f"  {{ altParens := {lean_bool(vals['altParens'])}, parenCat := {lean_bool(vals['parenCat'])}, "
             f"parenRep := {lean_bool(vals['parenRep'])},\n"
             f"    parenAlt := {lean_bool(vals['parenAlt'])}, openBound := {lean_bool(vals['openBound'])}, cap := {vals['cap']},\n"
             f"    starTok := {vals['starTok']}, plusTok := {vals['plusTok']}, optTok := {vals['optTok']},\n"
             f"    parenSelBase := {lean_bool(vals['parenSelBase'])} }}\n")
    body += "\nend FV.Generated\n"
    write_if_changed(LEAN / "Generated" / "Print.lean", body)
    return {"constants": vals, "refusals": refusals}


if __name__ == "__main__":
    import json
    print(json.dumps(regenerate(), indent=1))
