"""T-proto: read from /repo's *current* forecasting code the two code shapes that the model of the visitor
(lean/Model/Forecast.lean, C19) is written for, and write which variant the source has to
`lean/Generated/Proto.lean`:

* `openBoundCapped` — `ContinuingNodeVisitor.visitRepetitionType`: how `rep_max` is computed.
      current (07eb1fdf):  rep_max: int | float = node.max
                           if node.internal_max is None: rep_max = math.inf          -> false
      old:                 rep_max = node.max                                         -> true
  together with what is pinned in both variants: `rep_min = node.min`; a computed bound overrides both
  (`rep_min, _ = node.bounds_constraint.min(prefix_tree)`, `rep_max, _ = node.bounds_constraint.max(prefix_tree)`
  under `if node.bounds_constraint:`); the only readers are `if continue_exploring and tree_len < rep_max:` and
  `if tree_len >= rep_min:`.
* `reentryGuard`    — `PathFinder.onNonTerminalNodeVisit`: after the message branch (`if node.sender is not None:`)
      `if is_exploring and (node.symbol, True) in self.current_path[:-1]: return (False, False)` stands before the
      final `return (True, True)` (58f3e8e8) -> true; the final return follows the message branch directly -> false.

Everything is decided from the Python `ast`.  A shape the translator does not understand is a *refusal*:
`protoCfgRead := false` is emitted, which breaks `Props/C19.lean: C19_source_configuration`.
"""
from __future__ import annotations

import ast
from typing import Any

from harness.common import LEAN
from harness.translate import Refusal, find_class, find_func, parse_file, strip_doc, write_if_changed

VISITOR = "io/navigation/visitor/continuing_nodevisitor.py"
FORECASTER = "io/navigation/packetforecaster.py"


def _norm(node: ast.AST) -> str:
    return ast.unparse(node).replace(" ", "")


def _targets(stmt: ast.stmt) -> list[str]:
    """names a statement assigns (plain, annotated or tuple assignment)"""
    out: list[str] = []
    if isinstance(stmt, ast.Assign):
        for t in stmt.targets:
            for n in ast.walk(t):
                if isinstance(n, ast.Name):
                    out.append(n.id)
    elif isinstance(stmt, (ast.AnnAssign, ast.AugAssign)):
        for n in ast.walk(stmt.target):
            if isinstance(n, ast.Name):
                out.append(n.id)
    return out


def open_bound_capped(cls: ast.ClassDef) -> bool:
    """True: `rep_max` is `node.max` for an open bound too (the generator's cap); False: `math.inf`"""
    fn = find_func(cls, "visitRepetitionType")
    # every statement (at any depth) that assigns rep_max / rep_min, in source order, with the guards around it
    found: list[tuple[str, str, str]] = []          # (name, value, enclosing `if` tests joined by &&)

    def scan(stmts: list[ast.stmt], guards: tuple[str, ...]) -> None:
        for s in stmts:
            for name in _targets(s):
                if name in ("rep_max", "rep_min"):
                    if isinstance(s, ast.AugAssign):
                        raise Refusal(f"visitRepetitionType: `{ast.unparse(s)}` is not a modelled shape")
                    val = _norm(s.value) if getattr(s, "value", None) is not None else ""
                    tgt = _norm(s.targets[0]) if isinstance(s, ast.Assign) else _norm(s.target)
                    found.append((tgt, val, "&&".join(guards)))
                    break
            if isinstance(s, ast.If):
                scan(s.body, guards + (_norm(s.test),))
                scan(s.orelse, guards + ("not(" + _norm(s.test) + ")",))
            elif isinstance(s, (ast.For, ast.While)):
                scan(s.body, guards + ("loop",))
                scan(s.orelse, guards + ("loop-else",))
            elif isinstance(s, ast.Try):
                scan(s.body, guards + ("try",))
                for h in s.handlers:
                    scan(h.body, guards + ("except",))
                scan(s.finalbody, guards + ("finally",))
            elif isinstance(s, ast.With):
                scan(s.body, guards)

    scan(strip_doc(fn), ())
    common_tail = [("rep_min,_", "node.bounds_constraint.min(prefix_tree)", "node.bounds_constraint"),
                   ("rep_max,_", "node.bounds_constraint.max(prefix_tree)", "node.bounds_constraint")]
    current = [("rep_min", "node.min", ""), ("rep_max", "node.max", ""),
               ("rep_max", "math.inf", "node.internal_maxisNone")] + common_tail
    old = [("rep_min", "node.min", ""), ("rep_max", "node.max", "")] + common_tail
    found_n = [(t.replace("(", "").replace(")", ""), v, g) for t, v, g in found]
    if found_n == current:
        variant = False
    elif found_n == old:
        variant = True
    else:
        raise Refusal(f"visitRepetitionType: rep_min / rep_max are assigned {found_n}: not a modelled shape")
    # the readers of the two bounds
    reads = []
    for n in ast.walk(fn):
        if isinstance(n, ast.Compare) and any(isinstance(x, ast.Name) and x.id in ("rep_max", "rep_min")
                                              for x in ast.walk(n)):
            reads.append(_norm(n))
    if sorted(reads) != ["tree_len<rep_max", "tree_len>=rep_min"]:
        raise Refusal(f"visitRepetitionType: rep_min / rep_max are compared as {sorted(reads)}")
    tests = [_norm(n.test) for n in ast.walk(fn) if isinstance(n, ast.If)
             and any(isinstance(x, ast.Name) and x.id in ("rep_max", "rep_min") for x in ast.walk(n.test))]
    if sorted(tests) != ["continue_exploringandtree_len<rep_max", "tree_len>=rep_min"]:
        raise Refusal(f"visitRepetitionType: the tests on the bounds are {sorted(tests)}")
    other = [ast.unparse(n) for n in ast.walk(fn) if isinstance(n, ast.Name) and n.id in ("rep_max", "rep_min")
             and isinstance(n.ctx, ast.Load)]
    if len(other) != 2:
        raise Refusal(f"visitRepetitionType: rep_min / rep_max are read {len(other)} times, expected 2")
    if variant is False:
        mod = parse_file(VISITOR)
        if not any(isinstance(n, ast.Import) and any(a.name == "math" and a.asname is None for a in n.names)
                   for n in mod.body):
            raise Refusal("continuing_nodevisitor.py: `math.inf` is used but `import math` is not at module level")
    return variant


def reentry_guard(cls: ast.ClassDef) -> bool:
    """True: an exploring visit does not re-enter a nonterminal that is already being explored"""
    fn = find_func(cls, "onNonTerminalNodeVisit")
    body = strip_doc(fn)
    if [a.arg for a in fn.args.args] != ["self", "node", "is_exploring"]:
        raise Refusal("PathFinder.onNonTerminalNodeVisit: unexpected parameters")
    if len(body) not in (2, 3):
        raise Refusal(f"PathFinder.onNonTerminalNodeVisit: {len(body)} statements, expected 2 or 3")
    first, last = body[0], body[-1]
    msg_branch = ("ifnode.senderisnotNone:\n"
                  "ifis_exploring:\nself.add_option(node)\nreturn(False,False)\nelse:\nreturn(True,False)")
    if not isinstance(first, ast.If) or ast.unparse(first).replace(" ", "") != msg_branch:
        raise Refusal("PathFinder.onNonTerminalNodeVisit: the message branch is not the modelled shape: "
                      + ast.unparse(first)[:200])
    if not isinstance(last, ast.Return) or _norm(last) != "return(True,True)":
        raise Refusal(f"PathFinder.onNonTerminalNodeVisit: ends with `{ast.unparse(last)}`")
    if len(body) == 2:
        return False
    guard = body[1]
    want = "ifis_exploringand(node.symbol,True)inself.current_path[:-1]:\nreturn(False,False)"
    if not isinstance(guard, ast.If) or ast.unparse(guard).replace(" ", "") != want:
        raise Refusal("PathFinder.onNonTerminalNodeVisit: the statement between the message branch and the final "
                      "return is not the modelled re-entry guard: " + ast.unparse(guard)[:200])
    return True


def read_config() -> dict[str, Any]:
    vis = find_class(parse_file(VISITOR), "ContinuingNodeVisitor")
    pf = find_class(parse_file(FORECASTER), "PathFinder")
    return {"openBoundCapped": open_bound_capped(vis), "reentryGuard": reentry_guard(pf)}


HEADER = """/-
GENERATED by harness/translate_proto.py from /repo's current source — do not edit.
`protoCfg` is the variant of the forecasting code that the source implements today, read from the `ast`:
does `ContinuingNodeVisitor.visitRepetitionType` read an open repetition bound as the generator's cap
(`rep_max = node.max`, before 07eb1fdf) or as `math.inf`; does `PathFinder.onNonTerminalNodeVisit` refuse to
re-enter a nonterminal that is already being explored (58f3e8e8).  Model/Forecast.lean is written for
`CodeCfg.modelled`; Props/C19.lean states `C19_source_configuration` for this value.
-/
import Model.Forecast
namespace FV.Generated

"""


def _b(x: bool) -> str:
    return "true" if x else "false"


def regenerate() -> dict[str, Any]:
    refusals: list[str] = []
    cfg: dict[str, Any] = {}
    try:
        cfg = read_config()
    except Refusal as e:
        refusals.append(str(e))
    except (OSError, SyntaxError) as e:
        refusals.append(f"cannot read source: {e}")
    body = HEADER
    if cfg:
        body += "def protoCfgRead : Bool := true\n"
        body += f"def protoCfg : FV.Fc.CodeCfg := ⟨{_b(cfg['openBoundCapped'])}, {_b(cfg['reentryGuard'])}⟩\n"
    else:
        body += "/- the translator refused: " + "; ".join(refusals).replace("-/", "- /") + " -/\n"
        body += "def protoCfgRead : Bool := false\n"
        body += "def protoCfg : FV.Fc.CodeCfg := FV.Fc.CodeCfg.modelled\n"
    body += "\nend FV.Generated\n"
    write_if_changed(LEAN / "Generated" / "Proto.lean", body)
    return {"constants": cfg, "refusals": refusals}


if __name__ == "__main__":
    import json
    print(json.dumps(regenerate(), indent=1))
