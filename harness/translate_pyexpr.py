"""T-pyexpr (C08): regenerate `lean/Generated/PyExpr.lean` from the *current*
`src/fandango/language/parse/convert.py`.

Two kinds of facts are read out of `SearchProcessor`:

* **tables** — which `ast.*` class each visitor builds for which token / grammar rule, which element
  of `visitChildren`'s result becomes `left` / `right` / `operand`, and which sub-tree becomes
  `test` / `body` / `orelse` of `ast.IfExp`.  They become `FV.Generated.pyTables`, the parameter of the
  Lean model's `visit`; `Props/C08.lean` proves (by `decide`) that they are CPython's tables, so a
  swapped entry breaks a theorem.
* **pins** — for the visitors that are modelled by hand in `Model/PyExpr.lean` (primary / call /
  subscript / slices / atoms / comparison assembly …) the normalised source (an `ast.dump` without
  positions and docstrings) must be one of the variants the model was written against.  A changed
  visitor makes the translator *refuse*: `pyTables` is then not emitted, `Props/C08.lean` does not
  build, and the check reports the obligations as broken and searches for a failing input.

`_process_slices` has two known variants (as found / with the trailing-comma fix); which one is
present is itself a table entry (`slicesCommaAware`).
"""
from __future__ import annotations

import ast
import hashlib
from typing import Any, Optional

from harness.common import LEAN
from harness.translate import Refusal, find_class, find_func, parse_file, strip_doc, write_if_changed

CONVERT = "language/parse/convert.py"

BOOLOPS = {"And", "Or"}
UNOPS = {"Not", "UAdd", "USub", "Invert"}
BINOPS = {"Add", "Sub", "Mult", "Div", "FloorDiv", "Mod", "MatMult", "Pow", "LShift", "RShift", "BitOr",
          "BitXor", "BitAnd"}
CMPOPS = {"Eq", "NotEq", "Lt", "LtE", "Gt", "GtE", "Is", "IsNot", "In", "NotIn"}

# visitor method -> (Lean enum of the tokens it may test, next-level visitor it must fall through to)
LEVELS = {
    "visitShift_expr": ("ShiftTok", {"LEFT_SHIFT", "RIGHT_SHIFT"}, "visitSum", "sum_"),
    "visitSum": ("SumTok", {"ADD", "MINUS"}, "visitTerm", "term"),
    "visitTerm": ("TermTok", {"STAR", "DIV", "IDIV", "MOD", "AT"}, "visitFactor", "factor"),
    "visitFactor": ("FactorTok", {"ADD", "MINUS", "NOT_OP"}, "visitPower", "power"),
}
CMP_METHODS = {
    "visitEq_bitwise_or": "eq", "visitNoteq_bitwise_or": "noteq", "visitLte_bitwise_or": "lte",
    "visitLt_bitwise_or": "lt", "visitGte_bitwise_or": "gte", "visitGt_bitwise_or": "gt",
    "visitNotin_bitwise_or": "notin", "visitIn_bitwise_or": "in_", "visitIsnot_bitwise_or": "isnot",
    "visitIs_bitwise_or": "is_",
}

# hand-modelled visitors: method -> {sha1 of the normalised source: variant name}
PINS: dict[str, dict[str, str]] = {
    "defaultResult": {"5411f0b1": "as-found"},
    "aggregateResult": {"83623709": "as-found"},
    "visitComparison": {"ce3c0d74": "as-found"},
    "visitCompare_op_bitwise_or_pair": {"2e68944a": "as-found"},
    "visitAwait_primary": {"3bef54fa": "as-found"},
    "visitPrimary": {"27f264b8": "as-found"},
    "_process_slices": {"c0738f2e": "as-found", "d1724bef": "comma-aware",
                        "8b7e649b": "comma-aware"},   # /var/tmp/fixes/C08-one-element-tuple (starred slices are outside the model)
    "visitAtom": {"01dd32d8": "as-found"},
    "visitKwarg_or_starred": {"9e7127a5": "as-found"},
    "visitKwarg_or_double_starred": {"3b5df11e": "as-found"},
    "visitStarred_expression": {"c3c22d0e": "as-found"},
    "visitSlice": {"219151be": "as-found"},
    "visitString": {"d83cb89d": "as-found"},
    "visitTuple": {"a5f9b3ea": "as-found"},
    "visitList": {"1e76936f": "as-found"},
    "visitGroup": {"79f3ed33": "as-found"},
    "visitNamed_expression": {"25dd157d": "as-found"},
    "visitArguments": {"8ed600ac": "as-found"},
    "visitArgs": {"d3b01cc5": "as-found"},
    "visitArg": {"48f34a9b": "as-found"},
    "visitKwargs": {"b8a8f01f": "as-found"},
}


def norm_hash(fn: ast.FunctionDef) -> str:
    """hash of the function's body without docstring, positions, annotations of the signature"""
    body = strip_doc(fn)
    args = [a.arg for a in fn.args.args]
    text = repr(args) + "|" + "|".join(ast.dump(s, annotate_fields=True, include_attributes=False) for s in body)
    return hashlib.sha1(text.encode()).hexdigest()[:8]


# ------------------------------------------------------------------------------------------------
# small pattern helpers
# ------------------------------------------------------------------------------------------------

def _is_ctx_call(e: ast.expr, name: Optional[str] = None) -> Optional[str]:
    """`ctx.NAME()` -> NAME"""
    if isinstance(e, ast.Call) and not e.args and not e.keywords and isinstance(e.func, ast.Attribute) \
            and isinstance(e.func.value, ast.Name) and e.func.value.id == "ctx":
        if name is None or e.func.attr == name:
            return e.func.attr
    return None


def _ast_class(e: ast.expr) -> Optional[str]:
    """`ast.Name()` -> Name"""
    if isinstance(e, ast.Call) and not e.args and not e.keywords and isinstance(e.func, ast.Attribute) \
            and isinstance(e.func.value, ast.Name) and e.func.value.id == "ast":
        return e.func.attr
    return None


def _same_stmt(st: ast.stmt, text: str) -> bool:
    return ast.dump(st) == ast.dump(ast.parse(text).body[0])


def _single_return(body: list[ast.stmt], what: str) -> ast.expr:
    if len(body) != 1 or not isinstance(body[0], ast.Return) or body[0].value is None:
        raise Refusal(f"{what}: expected a single `return …`, found {[type(s).__name__ for s in body]}")
    return body[0].value


def _if_chain(fn: ast.FunctionDef) -> tuple[list[tuple[ast.expr, list[ast.stmt]]], list[ast.stmt]]:
    """body = `if t1: b1 elif t2: b2 … ` followed by the fall-through statements"""
    body = strip_doc(fn)
    if not body or not isinstance(body[0], ast.If):
        raise Refusal(f"{fn.name}: does not start with an if-chain")
    chain = []
    node: Any = body[0]
    while True:
        chain.append((node.test, node.body))
        if len(node.orelse) == 1 and isinstance(node.orelse[0], ast.If):
            node = node.orelse[0]
            continue
        rest = list(node.orelse) + body[1:]
        return chain, rest


def _delegate(stmts: list[ast.stmt], fn: str, visitor: str, accessor: str, index: Optional[int] = None) -> None:
    """`return self.<visitor>(ctx.<accessor>())` (or `ctx.<accessor>(<index>)`)"""
    e = _single_return(stmts, fn)
    ok = (isinstance(e, ast.Call) and isinstance(e.func, ast.Attribute) and isinstance(e.func.value, ast.Name)
          and e.func.value.id == "self" and e.func.attr == visitor and len(e.args) == 1 and not e.keywords)
    if ok:
        a = e.args[0]
        ok = (isinstance(a, ast.Call) and isinstance(a.func, ast.Attribute) and isinstance(a.func.value, ast.Name)
              and a.func.value.id == "ctx" and a.func.attr == accessor and not a.keywords)
        if ok:
            if index is None:
                ok = not a.args
            else:
                ok = len(a.args) == 1 and isinstance(a.args[0], ast.Constant) and a.args[0].value == index
    if not ok:
        raise Refusal(f"{fn}: fall-through is not `return self.{visitor}(ctx.{accessor}(…))`: {ast.unparse(e)}")


def _helper_call(e: ast.expr, helper: str, fn: str) -> str:
    """`self.<helper>(ctx, ast.C())` -> C"""
    if isinstance(e, ast.Call) and isinstance(e.func, ast.Attribute) and isinstance(e.func.value, ast.Name) \
            and e.func.value.id == "self" and e.func.attr == helper and len(e.args) == 2 and not e.keywords \
            and isinstance(e.args[0], ast.Name) and e.args[0].id == "ctx":
        c = _ast_class(e.args[1])
        if c:
            return c
    raise Refusal(f"{fn}: expected `self.{helper}(ctx, ast.<Op>())`, found {ast.unparse(e)}")


def _tuple3_first(e: ast.expr, fn: str) -> ast.expr:
    if isinstance(e, ast.Tuple) and len(e.elts) == 3:
        return e.elts[0]
    raise Refusal(f"{fn}: expected a `(tree, searches, search_map)` tuple, found {ast.unparse(e)}")


def _kw(call: ast.Call, name: str, fn: str) -> ast.expr:
    for k in call.keywords:
        if k.arg == name:
            return k.value
    raise Refusal(f"{fn}: {ast.unparse(call.func)}(...) has no `{name}=`")


def _subscript_index(e: ast.expr, base: str, fn: str) -> int:
    if isinstance(e, ast.Subscript) and isinstance(e.value, ast.Name) and e.value.id == base \
            and isinstance(e.slice, ast.Constant) and isinstance(e.slice.value, int):
        return e.slice.value
    raise Refusal(f"{fn}: expected `{base}[<int>]`, found {ast.unparse(e)}")


# ------------------------------------------------------------------------------------------------
# the tables
# ------------------------------------------------------------------------------------------------

def level_table(cls: ast.ClassDef, method: str) -> list[tuple[str, str]]:
    enum, allowed, nxt, acc = LEVELS[method]
    fn = find_func(cls, method)
    chain, rest = _if_chain(fn)
    helper = "_visit_unary_op" if method == "visitFactor" else "_visit_bin_op"
    universe = UNOPS if method == "visitFactor" else BINOPS
    out = []
    for test, body in chain:
        tok = _is_ctx_call(test)
        if tok is None or tok not in allowed:
            raise Refusal(f"{method}: test `{ast.unparse(test)}` is not one of ctx.{sorted(allowed)}()")
        c = _helper_call(_single_return(body, method), helper, method)
        if c not in universe:
            raise Refusal(f"{method}: ast.{c} is not an operator class of that kind")
        out.append((tok, c))
    _delegate(rest, method, nxt, acc)
    return out


def presence_op(cls: ast.ClassDef, method: str, accessor: str, nxt: str, nxt_acc: str) -> str:
    """`if ctx.<accessor>(): return self._visit_bin_op(ctx, ast.C())` + fall-through"""
    fn = find_func(cls, method)
    chain, rest = _if_chain(fn)
    if len(chain) != 1 or _is_ctx_call(chain[0][0]) != accessor:
        raise Refusal(f"{method}: expected a single `if ctx.{accessor}():`")
    c = _helper_call(_single_return(chain[0][1], method), "_visit_bin_op", method)
    if c not in BINOPS:
        raise Refusal(f"{method}: ast.{c} is not a binary operator class")
    _delegate(rest, method, nxt, nxt_acc)
    return c


def bool_op(cls: ast.ClassDef, method: str, tok: str, nxt: str, nxt_acc: str) -> str:
    fn = find_func(cls, method)
    chain, rest = _if_chain(fn)
    if len(chain) != 1 or _is_ctx_call(chain[0][0]) != tok:
        raise Refusal(f"{method}: expected a single `if ctx.{tok}():`")
    body = chain[0][1]
    if len(body) != 2 or not _same_stmt(body[0], "trees, searches, search_map = self.visitChildren(ctx)"):
        raise Refusal(f"{method}: branch does not start with `trees, searches, search_map = self.visitChildren(ctx)`")
    first = _tuple3_first(_single_return(body[1:], method), method)
    if not (isinstance(first, ast.Call) and ast.unparse(first.func) == "ast.BoolOp"):
        raise Refusal(f"{method}: does not build ast.BoolOp")
    if ast.unparse(_kw(first, "values", method)) != "trees":
        raise Refusal(f"{method}: BoolOp values are not `trees`")
    c = _ast_class(_kw(first, "op", method))
    if c not in BOOLOPS:
        raise Refusal(f"{method}: BoolOp op is {c}")
    _delegate(rest, method, nxt, nxt_acc, index=0)
    return c


def inversion_op(cls: ast.ClassDef) -> str:
    fn = find_func(cls, "visitInversion")
    chain, rest = _if_chain(fn)
    if len(chain) != 1 or _is_ctx_call(chain[0][0]) != "NOT":
        raise Refusal("visitInversion: expected a single `if ctx.NOT():`")
    c = _helper_call(_single_return(chain[0][1], "visitInversion"), "_visit_unary_op", "visitInversion")
    if c not in UNOPS:
        raise Refusal(f"visitInversion: ast.{c}")
    _delegate(rest, "visitInversion", "visitComparison", "comparison")
    return c


def power_op(cls: ast.ClassDef) -> str:
    return presence_op(cls, "visitPower", "factor", "visitAwait_primary", "await_primary")


def helper_indices(cls: ast.ClassDef) -> dict[str, int]:
    out = {}
    fn = find_func(cls, "_visit_bin_op")
    body = strip_doc(fn)
    if len(body) != 2 or not _same_stmt(body[0], "trees, searches, search_map = self.visitChildren(ctx)"):
        raise Refusal("_visit_bin_op: unknown shape")
    first = _tuple3_first(_single_return(body[1:], "_visit_bin_op"), "_visit_bin_op")
    if not (isinstance(first, ast.Call) and ast.unparse(first.func) == "ast.BinOp"):
        raise Refusal("_visit_bin_op: does not build ast.BinOp")
    if ast.unparse(_kw(first, "op", "_visit_bin_op")) != "op":
        raise Refusal("_visit_bin_op: op is not the parameter `op`")
    out["binLeft"] = _subscript_index(_kw(first, "left", "_visit_bin_op"), "trees", "_visit_bin_op")
    out["binRight"] = _subscript_index(_kw(first, "right", "_visit_bin_op"), "trees", "_visit_bin_op")
    fn = find_func(cls, "_visit_unary_op")
    body = strip_doc(fn)
    if len(body) != 2 or not _same_stmt(body[0], "trees, searches, search_map = self.visitChildren(ctx)"):
        raise Refusal("_visit_unary_op: unknown shape")
    first = _tuple3_first(_single_return(body[1:], "_visit_unary_op"), "_visit_unary_op")
    if not (isinstance(first, ast.Call) and ast.unparse(first.func) == "ast.UnaryOp"):
        raise Refusal("_visit_unary_op: does not build ast.UnaryOp")
    if ast.unparse(_kw(first, "op", "_visit_unary_op")) != "op":
        raise Refusal("_visit_unary_op: op is not the parameter `op`")
    out["unOperand"] = _subscript_index(_kw(first, "operand", "_visit_unary_op"), "trees", "_visit_unary_op")
    return out


def ifexp_slots(cls: ast.ClassDef) -> dict[str, str]:
    fn = find_func(cls, "visitExpression")
    chain, rest = _if_chain(fn)
    if not chain or _is_ctx_call(chain[0][0]) != "IF":
        raise Refusal("visitExpression: expected `if ctx.IF():` first")
    body = chain[0][1]
    if len(body) != 4:
        raise Refusal("visitExpression: ternary branch is not 3 assignments + return")
    names: dict[str, str] = {}
    want = [("visitDisjunction", "ctx.disjunction(0)", ".d0"), ("visitDisjunction", "ctx.disjunction(1)", ".d1"),
            ("visitExpression", "ctx.expression()", ".e")]
    seen = set()
    for st in body[:3]:
        if not (isinstance(st, ast.Assign) and len(st.targets) == 1 and isinstance(st.targets[0], ast.Tuple)
                and len(st.targets[0].elts) == 3 and isinstance(st.targets[0].elts[0], ast.Name)
                and isinstance(st.value, ast.Call) and len(st.value.args) == 1):
            raise Refusal("visitExpression: unknown assignment in the ternary branch: " + ast.unparse(st))
        callee = ast.unparse(st.value.func)
        arg = ast.unparse(st.value.args[0])
        for v, a, slot in want:
            if callee == f"self.{v}" and arg == a:
                names[st.targets[0].elts[0].id] = slot
                seen.add(slot)
                break
        else:
            raise Refusal("visitExpression: unknown sub-visit " + ast.unparse(st.value))
    if seen != {".d0", ".d1", ".e"}:
        raise Refusal("visitExpression: the three sub-trees are not disjunction(0), disjunction(1), expression()")
    first = _tuple3_first(_single_return(body[3:], "visitExpression"), "visitExpression")
    if not (isinstance(first, ast.Call) and ast.unparse(first.func) == "ast.IfExp"):
        raise Refusal("visitExpression: does not build ast.IfExp")
    out = {}
    for field, key in (("test", "ifTest"), ("body", "ifBody"), ("orelse", "ifOrelse")):
        v = _kw(first, field, "visitExpression")
        if not (isinstance(v, ast.Name) and v.id in names):
            raise Refusal(f"visitExpression: IfExp {field}= is {ast.unparse(v)}")
        out[key] = names[v.id]
    # the rest: `elif ctx.disjunction(): return self.visitDisjunction(ctx.disjunction(0))` else lambdef
    if len(chain) != 2 or _is_ctx_call(chain[1][0]) != "disjunction":
        raise Refusal("visitExpression: second branch is not `elif ctx.disjunction():`")
    _delegate(chain[1][1], "visitExpression", "visitDisjunction", "disjunction", index=0)
    return out


def cmp_table(cls: ast.ClassDef) -> list[tuple[str, str]]:
    out = []
    for m, rule in CMP_METHODS.items():
        try:
            fn = find_func(cls, m)
        except Refusal:
            continue        # a missing visitor = a missing table entry (the model then yields `invalid`)
        e = _single_return(strip_doc(fn), m)
        if not (isinstance(e, ast.Tuple) and len(e.elts) == 2):
            raise Refusal(f"{m}: expected `return ast.<Op>(), self.visitBitwise_or(ctx.bitwise_or())`")
        c = _ast_class(e.elts[0])
        if c not in CMPOPS:
            raise Refusal(f"{m}: first component is {ast.unparse(e.elts[0])}")
        if ast.unparse(e.elts[1]) != "self.visitBitwise_or(ctx.bitwise_or())":
            raise Refusal(f"{m}: operand is {ast.unparse(e.elts[1])}")
        out.append((rule, c))
    return out


def pins(cls: ast.ClassDef) -> tuple[dict[str, str], dict[str, str], list[str]]:
    """-> (method -> variant, method -> hash, refusals)"""
    variants, hashes, bad = {}, {}, []
    for m, known in PINS.items():
        try:
            fn = find_func(cls, m)
        except Refusal:
            bad.append(f"{m}: visitor missing")
            continue
        h = norm_hash(fn)
        hashes[m] = h
        if h in known:
            variants[m] = known[h]
        else:
            bad.append(f"{m}: source changed (hash {h}, modelled: {sorted(known)}) — the hand-written model of "
                       f"this visitor in lean/Model/PyExpr.lean is no longer known to match")
    return variants, hashes, bad


def extract() -> dict[str, Any]:
    mod = parse_file(CONVERT)
    cls = find_class(mod, "SearchProcessor")
    t: dict[str, Any] = {}
    t["disjOp"] = bool_op(cls, "visitDisjunction", "OR", "visitConjunction", "conjunction")
    t["conjOp"] = bool_op(cls, "visitConjunction", "AND", "visitInversion", "inversion")
    t["notOp"] = inversion_op(cls)
    t["cmp"] = cmp_table(cls)
    t["borOp"] = presence_op(cls, "visitBitwise_or", "bitwise_or", "visitBitwise_xor", "bitwise_xor")
    t["bxorOp"] = presence_op(cls, "visitBitwise_xor", "bitwise_xor", "visitBitwise_and", "bitwise_and")
    t["bandOp"] = presence_op(cls, "visitBitwise_and", "bitwise_and", "visitShift_expr", "shift_expr")
    t["shift"] = level_table(cls, "visitShift_expr")
    t["sum"] = level_table(cls, "visitSum")
    t["term"] = level_table(cls, "visitTerm")
    t["factor"] = level_table(cls, "visitFactor")
    t["powOp"] = power_op(cls)
    t.update(helper_indices(cls))
    t.update(ifexp_slots(cls))
    variants, hashes, bad = pins(cls)
    if bad:
        raise Refusal("; ".join(bad))
    t["slicesCommaAware"] = variants["_process_slices"] == "comma-aware"
    t["_pins"] = hashes
    t["_variants"] = variants
    return t


# ------------------------------------------------------------------------------------------------
# emission
# ------------------------------------------------------------------------------------------------

HEADER = """/-
GENERATED by harness/translate_pyexpr.py from /repo's current
src/fandango/language/parse/convert.py (class SearchProcessor) — do not edit.
`pyTables` = the operator tables / operand positions the expression visitors use *now*;
`Props/C08.lean` proves they are CPython's.  When the translator refuses (a visitor changed shape),
`pyTables` is not emitted and the C08 obligations do not build.
-/
import Model.PyExpr
namespace FV.Generated
open FV.Py

"""


def _pairs(enum: str, xs: list[tuple[str, str]]) -> str:
    return "[" + ", ".join(f"({enum}.{a}, .{b})" for a, b in xs) + "]"


def emit(t: dict[str, Any]) -> str:
    b = HEADER
    b += "def pyTables : Tables :=\n"
    b += f"  {{ disjOp := .{t['disjOp']}, conjOp := .{t['conjOp']}, notOp := .{t['notOp']},\n"
    b += f"    cmp := {_pairs('CmpRule', t['cmp'])},\n"
    b += f"    borOp := .{t['borOp']}, bxorOp := .{t['bxorOp']}, bandOp := .{t['bandOp']},\n"
    b += f"    shift := {_pairs('ShiftTok', t['shift'])},\n"
    b += f"    sum := {_pairs('SumTok', t['sum'])},\n"
    b += f"    term := {_pairs('TermTok', t['term'])},\n"
    b += f"    factor := {_pairs('FactorTok', t['factor'])},\n"
    b += f"    powOp := .{t['powOp']},\n"
    b += f"    binLeft := {t['binLeft']}, binRight := {t['binRight']}, unOperand := {t['unOperand']},\n"
    b += f"    ifTest := {t['ifTest']}, ifBody := {t['ifBody']}, ifOrelse := {t['ifOrelse']},\n"
    b += f"    slicesCommaAware := {'true' if t['slicesCommaAware'] else 'false'} }}\n\n"
    b += "/-- normalised-source hashes of the hand-modelled visitors (informational) -/\n"
    b += "def pyPins : List (String × String) :=\n  [" + ",\n   ".join(
        f'("{m}", "{h}")' for m, h in sorted(t["_pins"].items())) + "]\n"
    b += "\nend FV.Generated\n"
    return b


def regenerate() -> dict[str, Any]:
    """-> {'tables': {...} | None, 'refusals': [...]}"""
    refusals: list[str] = []
    t: Optional[dict[str, Any]] = None
    try:
        t = extract()
    except Refusal as e:
        refusals.append(str(e))
    except (OSError, SyntaxError) as e:
        refusals.append(f"cannot read {CONVERT}: {e}")
    if t is None:
        body = HEADER + "-- translator refused:\n" + "".join(f"--   {r}\n" for r in refusals) + "\nend FV.Generated\n"
    else:
        body = emit(t)
    write_if_changed(LEAN / "Generated" / "PyExpr.lean", body)
    return {"tables": t, "refusals": refusals}


if __name__ == "__main__":
    import json
    import sys
    if len(sys.argv) > 1 and sys.argv[1] == "--hashes":
        mod = parse_file(CONVERT)
        cls = find_class(mod, "SearchProcessor")
        for m in PINS:
            print(f'    "{m}": {{"{norm_hash(find_func(cls, m))}": "as-found"}},')
    else:
        print(json.dumps(regenerate(), indent=1, default=str))
