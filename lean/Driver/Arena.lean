/-
Driver for E1/arena (C10).  One request = one whole history:
  {"ops":[OP,…]}  →  {"steps":[{"res":R,"state":[HANDLE-STATE,…],"inv":bool},…]}
("inv" = the verified checker `invB` on the whole store after the op: `Proofs/ArenaCheck.lean: invB_sound`)
Operands are *handles* (positions in the list of node references handed out so far); every
operation that returns a node pushes a new handle (also `parent`, when it is not None).
OP:  {"op":"mk","sym":SYM,"sender":s|null,"recipient":s|null,"kids":[h…],"ro":bool}
     {"op":"addChild","p":h,"c":h} {"op":"setChildren","p":h,"cs":[h…]}
     {"op":"setSym","i":h,"sym":SYM} {"op":"setSender","i":h,"s":s|null} {"op":"setRecipient",…}
     {"op":"hash","i":h} {"op":"eq","i":h,"j":h} {"op":"classes"}
     {"op":"deepcopy","i":h,"cc":bool,"cp":bool} {"op":"getItem","i":h,"k":int}
     {"op":"getSlice","i":h,"a":int|null,"b":int|null} {"op":"splitEnd","i":h,"copy":bool}
     {"op":"prefix","i":h,"copy":bool} {"op":"replace","i":h,"reps":[[h,h]…]}
     {"op":"append","i":h,"path":[[name,bool]…],"t":h}
     {"op":"size"|"parent"|"getPath"|"flatten"|"choicesPath"|"value","i":h}
     {"op":"findAll"|"findDirect","i":h,"name":s}
SYM: ["n",name] | ["t",[cps]] | ["b",[bytes]] | ["i",0|1] | ["s"]
T: [SYM, sender|null, recipient|null, [T…]]
HANDLE-STATE: {"size":n,"tree":T|"cycle","parent":null|[h…] (handles naming the parent; [] = a node
     without handle),"cached":bool,"ro":bool,"same":[h…]}
The hash values of the model are canonical strings (an injective `Hc`), so `eq`/`classes` are exact
structural comparisons of what the caches currently hold.
-/
import Driver.Common
import Model.ArenaCheck
open Lean FV FV.Drv

abbrev HV := String

def symStr : Sym → String
  | .nt n => "N" ++ toString n.length ++ ":" ++ n
  | .term (.text s) => "T" ++ toString s
  | .term (.bytes b) => "B" ++ toString (b.map (·.val))
  | .term (.bit b) => if b then "I1" else "I0"
  | .slice => "S"

def optS : Option String → String
  | none => "-"
  | some s => "+" ++ toString s.length ++ ":" ++ s

/-- injective combiner (length-prefixed fields) -/
def HcS (s : Sym) (a r : Option String) (hs : List HV) : HV :=
  "(" ++ symStr s ++ "|" ++ optS a ++ "|" ++ optS r ++ "|" ++ toString hs.length ++ "[" ++ String.join hs ++ "])"

def symOfJson (j : Json) : Except String Sym := do
  let a ← j.getArr?
  let tag ← (a[0]?.getD Json.null).getStr?
  match tag with
  | "n" => return .nt (← (a[1]?.getD Json.null).getStr?)
  | "s" => return .slice
  | _ => return .term (← leafOf tag (a[1]?.getD Json.null))

structure DState where
  σ : Store HV
  hs : Array Nat

def fuelOf (σ : Store HV) : Nat := 2 * σ.length + 8

def hGet (d : DState) (j : Json) (k : String) : Except String Nat := do
  let h ← j.getObjValAs? Nat k
  match d.hs[h]? with
  | some n => return n
  | none => throw s!"unknown handle {h}"

def hList (d : DState) (j : Json) : Except String (List Nat) := do
  let a ← j.getArr?
  a.toList.mapM (fun x => do
    let h ← x.getNat?
    match d.hs[h]? with
    | some n => pure n
    | none => throw s!"unknown handle {h}")

def optInt (j : Json) (k : String) : Except String (Option Int) :=
  match j.getObjVal? k with
  | .error _ => throw s!"missing {k}"
  | .ok Json.null => return none
  | .ok v => return some (← v.getInt?)

def optStrField (j : Json) (k : String) : Except String (Option String) :=
  match j.getObjVal? k with
  | .error _ => throw s!"missing {k}"
  | .ok Json.null => return none
  | .ok v => return some (← v.getStr?)

def opOfJson (d : DState) (j : Json) : Except String Op := do
  let op ← j.getObjValAs? String "op"
  match op with
  | "mk" =>
    return .mk (← symOfJson (← j.getObjVal? "sym")) (← optStrField j "sender") (← optStrField j "recipient")
      (← hList d (← j.getObjVal? "kids")) (← j.getObjValAs? Bool "ro")
  | "addChild" => return .addChild (← hGet d j "p") (← hGet d j "c")
  | "setChildren" => return .setChildren (← hGet d j "p") (← hList d (← j.getObjVal? "cs"))
  | "setSym" => return .setSym (← hGet d j "i") (← symOfJson (← j.getObjVal? "sym"))
  | "setSender" => return .setSender (← hGet d j "i") (← optStrField j "s")
  | "setRecipient" => return .setRecipient (← hGet d j "i") (← optStrField j "s")
  | "hash" => return .hash (← hGet d j "i")
  | "eq" => return .eq (← hGet d j "i") (← hGet d j "j")
  | "deepcopy" => return .deepcopy (← hGet d j "i") (← j.getObjValAs? Bool "cc") (← j.getObjValAs? Bool "cp")
  | "getItem" => return .getItem (← hGet d j "i") (← (← j.getObjVal? "k").getInt?)
  | "getSlice" => return .getSlice (← hGet d j "i") (← optInt j "a") (← optInt j "b")
  | "splitEnd" => return .splitEnd (← hGet d j "i") (← j.getObjValAs? Bool "copy")
  | "prefix" => return .prefix (← hGet d j "i") (← j.getObjValAs? Bool "copy")
  | "replace" =>
    let a ← (← j.getObjVal? "reps").getArr?
    let reps ← a.toList.mapM (fun x => do
      let l ← hList d x
      match l with
      | [u, v] => pure (u, v)
      | _ => throw "bad replacement pair")
    return .replace (← hGet d j "i") reps
  | "append" =>
    let a ← (← j.getObjVal? "path").getArr?
    let path ← a.toList.mapM (fun x => do
      let p ← x.getArr?
      let n ← (p[0]?.getD Json.null).getStr?
      let b ← (p[1]?.getD Json.null).getBool?
      pure (n, b))
    return .append (← hGet d j "i") path (← hGet d j "t")
  | "size" => return .size (← hGet d j "i")
  | "parent" => return .parent (← hGet d j "i")
  | "getPath" => return .getPath (← hGet d j "i")
  | "flatten" => return .flatten (← hGet d j "i")
  | "choicesPath" => return .choicesPath (← hGet d j "i")
  | "value" => return .value (← hGet d j "i")
  | "findAll" => return .findAll (← hGet d j "i") (← j.getObjValAs? String "name")
  | "findDirect" => return .findDirect (← hGet d j "i") (← j.getObjValAs? String "name")
  | _ => throw s!"unknown op {op}"

def jAErr : AErr → Json
  | .index => "IndexError" | .value => "ValueError" | .step => "StepException"
  | .assertion => "AssertionError" | .recursion => "RecursionError" | .dangling => "dangling"

def handlesOf (d : DState) (n : Nat) : Json :=
  jNats ((List.range d.hs.size).filter (fun h => d.hs[h]? == some n))

def jSym : Sym → Json
  | .nt n => Json.arr #["n", Json.str n]
  | .term (.text s) => Json.arr #["t", jNats s]
  | .term (.bytes b) => Json.arr #["b", jBytes b]
  | .term (.bit b) => Json.arr #["i", Json.num (if b then 1 else 0)]
  | .slice => Json.arr #["s"]

/-- full structure (children of terminal / slice nodes and their parties included) -/
partial def jTreeA : Tree → Json
  | .mk s a r ks => Json.arr #[jSym s, jOptStr a, jOptStr r, Json.arr (ks.map jTreeA).toArray]

def jAbs (σ : Store HV) (n : Nat) : Json :=
  match absF (fuelOf σ) σ n with
  | some t => jTreeA t
  | none => "cycle"

def jNode (d : DState) (n : Nat) : Json := Json.arr #[jAbs d.σ n, handlesOf d n]

def jState (d : DState) : Json :=
  Json.arr ((List.range d.hs.size).map (fun h =>
    match d.hs[h]? with
    | none => Json.null
    | some n =>
      match d.σ[n]? with
      | none => Json.null
      | some r =>
        Json.mkObj [("size", Json.num r.sizeC), ("tree", jAbs d.σ n),
          ("parent", match r.parent with | none => Json.null | some p => handlesOf d p),
          ("cached", Json.bool r.hashC.isSome), ("ro", Json.bool r.readOnly),
          ("same", handlesOf d n)])).toArray

def jRes (d : DState) : Res HV → Json
  | .unit => Json.null
  | .node n => Json.mkObj [("node", handlesOf d n)]
  | .optNode none => Json.mkObj [("node", Json.null)]
  | .optNode (some n) => Json.mkObj [("node", handlesOf d n)]
  | .nodes l => Json.mkObj [("nodes", Json.arr (l.map (jNode d)).toArray)]
  | .nat n => Json.mkObj [("nat", Json.num n)]
  | .hashv _ => Json.mkObj [("hash", true)]
  | .bool b => Json.mkObj [("bool", b)]
  | .path p => Json.mkObj [("path", jNats p)]
  | .val none => Json.mkObj [("value", "cycle")]
  | .val (some (.ok _)) => Json.mkObj [("value", "ok")]
  | .val (some (.error e)) => Json.mkObj [("value", jErr e)]
  | .err e => Json.mkObj [("raises", jAErr e)]

/-- `classes`: hash every handle in order (fills the caches), group by hash value -/
def classes (d : DState) : Except String (DState × Json) := do
  let mut σ := d.σ
  let mut vals : Array HV := #[]
  for n in d.hs do
    match hashNode HcS (fuelOf σ) σ n with
    | .error e => throw s!"classes: {(jAErr e).compress}"
    | .ok (σ', h) =>
      σ := σ'
      vals := vals.push h
  let cls := (List.range vals.size).map (fun i =>
    ((List.range vals.size).find? (fun k => vals[k]? == vals[i]?)).getD i)
  return ({ d with σ := σ }, Json.mkObj [("classes", jNats cls)])

def doOp (d : DState) (j : Json) : Except String (DState × Json) := do
  let name ← j.getObjValAs? String "op"
  if name == "classes" then
    let (d', r) ← classes d
    return (d', Json.mkObj [("res", r), ("state", jState d'), ("inv", Json.bool (invB HcS (fuelOf d'.σ) d'.σ))])
  let op ← opOfJson d j
  let (σ', res) := step HcS (fuelOf d.σ) d.σ op
  let hs' := match res with
    | .node n => d.hs.push n
    | .optNode (some n) => d.hs.push n
    | _ => d.hs
  let d' : DState := { σ := σ', hs := hs' }
  return (d', Json.mkObj [("res", jRes d' res), ("state", jState d'),
    ("inv", Json.bool (invB HcS (fuelOf σ') σ'))])

def handle (j : Json) : Except String Json := do
  let ops ← (← j.getObjVal? "ops").getArr?
  let mut d : DState := { σ := [], hs := #[] }
  let mut out : Array Json := #[]
  for o in ops do
    let (d', r) ← doOp d o
    d := d'
    out := out.push r
  return Json.mkObj [("steps", Json.arr out), ("nodes", Json.num d.σ.length)]

def main : IO Unit := run handle
