/-
Driver for E3/ParseCache (C12): replays a request history on the state machine of
`Model/ParseCache.lean` over symbolic trees and prints what every op yields and what a probe set is
answered afterwards.

request  {"op":"replay","config":"generated"|{…},"complete":[[core,[ids]]…],"partial":[[core,[ids]]…],
          "history":[op…],"probe":[req…]}
  core = [word,sbit,start,hook]   req = [word,sbit,start,hook,mode(0|1),cf(0|1)]
  op   = ["start",req] | ["pull",g] | ["drop",g] | ["mutate",o,"node"|"list",fn]
answer   {"trace":[null|term…],"tainted":bool,"answers":[[term…]…]}
  term = n (fresh parser-side tree number n) | ["e",fn,term] (edit fn applied) | ["v",term] (collapsed)
request  {"op":"config"} → the generated configuration
-/
import Driver.Common
import Model.ParseCache
import Generated.Cache
open Lean FV FV.Drv FV.PC

inductive STerm where
  | base (n : Nat)
  | edit (e : Nat) (t : STerm)
  | view (t : STerm)
  deriving DecidableEq, Repr

partial def jTerm : STerm → Json
  | .base n => Json.num (JsonNumber.fromNat n)
  | .edit e t => Json.arr #["e", Json.num (JsonNumber.fromNat e), jTerm t]
  | .view t => Json.arr #["v", jTerm t]

def natAt (a : Array Json) (i : Nat) : Except String Nat := (a[i]?.getD Json.null).getNat?

def coreOf (j : Json) : Except String Core := do
  let a ← j.getArr?
  if a.size < 4 then throw "core needs 4 numbers"
  return ⟨← natAt a 0, ← natAt a 1, ← natAt a 2, ← natAt a 3⟩

def reqOfJson (j : Json) : Except String Req := do
  let a ← j.getArr?
  if a.size != 6 then throw "req needs 6 numbers"
  let m ← natAt a 4
  let cf ← natAt a 5
  if m > 1 || cf > 1 then throw "mode / cf must be 0 or 1"
  return ⟨← coreOf j, if m == 1 then .incomplete else .complete, cf == 1⟩

def opOf (j : Json) : Except String Op := do
  let a ← j.getArr?
  let tag ← (a[0]?.getD Json.null).getStr?
  match tag with
  | "start" => return .start (← reqOfJson (a[1]?.getD Json.null))
  | "pull" => return .pull (← natAt a 1)
  | "drop" => return .drop (← natAt a 1)
  | "mutate" =>
    let k ← (a[2]?.getD Json.null).getStr?
    let kind ← match k with
      | "node" => pure EditKind.node
      | "list" => pure EditKind.list
      | _ => throw s!"edit kind {k}"
    return .mutate (← natAt a 1) kind (← natAt a 3)
  | _ => throw s!"unknown history op {tag}"

def tableOf (j : Json) : Except String (List (Core × List Nat)) := do
  let a ← j.getArr?
  a.toList.mapM (fun e => do
    let p ← e.getArr?
    let c ← coreOf (p[0]?.getD Json.null)
    let ids ← natArr (p[1]?.getD Json.null)
    return (c, ids))

def lookupT (tab : List (Core × List Nat)) (c : Core) : List STerm :=
  match tab.find? (fun p => p.1 == c) with
  | some p => p.2.map STerm.base
  | none => []

def oracleOfTables (comp part : List (Core × List Nat)) : Oracle STerm :=
  { complete := lookupT comp, partialRaw := lookupT part,
    view := fun cf t => if cf then t else .view t, apply := fun e t => .edit e t }

def shareOf (s : String) : Except String Share :=
  match s with
  | "none" => pure .none | "lists" => pure .lists | "whole" => pure .whole
  | _ => throw s!"share {s}"

def configOf (j : Json) : Except String Config := do
  match j with
  | .str "generated" => return Generated.cacheConfig
  | .str "afterFix" => return Config.afterFix
  | .str "preFix" => return Config.preFix
  | .str "isolated" => return Config.isolated
  | _ =>
    let pol ← j.getObjValAs? String "policy"
    let policy ← match pol with
      | "storeWhenExhausted" => pure Policy.storeWhenExhausted
      | "appendWhileYielding" => pure Policy.appendWhileYielding
      | _ => throw s!"policy {pol}"
    return { policy := policy
             hitCopies := ← j.getObjValAs? Bool "hitCopies"
             hitYieldsCf := ← j.getObjValAs? Bool "hitYieldsCf"
             missShare := ← shareOf (← j.getObjValAs? String "missShare")
             missShareCf := ← shareOf (← j.getObjValAs? String "missShareCf")
             keySbit := ← j.getObjValAs? Bool "keySbit"
             keyStart := ← j.getObjValAs? Bool "keyStart"
             keyHook := ← j.getObjValAs? Bool "keyHook"
             keyMode := ← j.getObjValAs? Bool "keyMode"
             sharedRegs := ← j.getObjValAs? Bool "sharedRegs" }

def jShare : Share → Json
  | .none => "none" | .lists => "lists" | .whole => "whole"

def jConfig (c : Config) : Json :=
  Json.mkObj [("policy", match c.policy with
                 | .storeWhenExhausted => "storeWhenExhausted"
                 | .appendWhileYielding => "appendWhileYielding"),
              ("hitCopies", c.hitCopies), ("hitYieldsCf", c.hitYieldsCf), ("missShare", jShare c.missShare),
              ("missShareCf", jShare c.missShareCf), ("keySbit", c.keySbit), ("keyStart", c.keyStart),
              ("keyHook", c.keyHook), ("keyMode", c.keyMode), ("sharedRegs", c.sharedRegs)]

def jOptTerm : Option STerm → Json
  | some t => jTerm t
  | none => Json.null

def handle (j : Json) : Except String Json := do
  let op ← j.getObjValAs? String "op"
  match op with
  | "config" => return jConfig Generated.cacheConfig
  | "replay" =>
    let cfg ← configOf (← j.getObjVal? "config")
    let comp ← tableOf (← j.getObjVal? "complete")
    let part ← tableOf (← j.getObjVal? "partial")
    let O := oracleOfTables comp part
    let hist ← (← (← j.getObjVal? "history").getArr?).toList.mapM opOf
    let probe ← (← (← j.getObjVal? "probe").getArr?).toList.mapM reqOfJson
    let trace := traceFrom cfg O (State.init : State STerm) hist
    let s := replay cfg O hist
    return Json.mkObj [
      ("trace", Json.arr (trace.map jOptTerm).toArray),
      ("tainted", s.tainted),
      ("answers", Json.arr (probe.map (fun r => Json.arr ((answer cfg O s r).map jTerm).toArray)).toArray)]
  | _ => throw s!"unknown op {op}"

def main : IO Unit := run handle
