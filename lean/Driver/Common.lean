/-
Shared helpers for the line-protocol drivers: one JSON value per input line, one JSON value per
output line.  Only the drivers import `Lean.Data.Json`; the models stay import-free.
-/
import Lean.Data.Json
import Model.Tree
open Lean

namespace FV.Drv

def natArr (j : Json) : Except String (List Nat) := do
  let a ← j.getArr?
  a.toList.mapM (fun x => x.getNat?)

def toBytes (ns : List Nat) : Bytes := ns.map mkByte

def jNats (ns : List Nat) : Json := Json.arr (ns.map (fun (n : Nat) => Json.num (JsonNumber.fromNat n))).toArray
def jBytes (b : Bytes) : Json := jNats (b.map (·.val))
def jBits (b : Bits) : Json := Json.str (String.ofList (b.map (fun x => if x then '1' else '0')))

def jErr : Err → Json
  | .conv => Json.mkObj [("err", "conv")]
  | .value => Json.mkObj [("err", "value")]
  | .pyValue => Json.mkObj [("err", "pyValue")]

def optStr (j : Json) : Option String :=
  match j with
  | .str s => some s
  | _ => none

/-- leaf encodings: ["t",[cps]] | ["b",[bytes]] | ["i",0|1] -/
def leafOf (tag : String) (payload : Json) : Except String Leaf := do
  match tag with
  | "t" => return .text (← natArr payload)
  | "b" => return .bytes (toBytes (← natArr payload))
  | "i" => return .bit ((← payload.getNat?) == 1)
  | _ => throw s!"bad leaf tag {tag}"

/-- tree encodings: a leaf, or ["n", name, sender|null, recipient|null, [kids]] or ["s", [kids]] -/
partial def treeOf (j : Json) : Except String Tree := do
  let a ← j.getArr?
  let tag ← (a[0]?.getD Json.null).getStr?
  match tag with
  | "n" =>
    let name ← (a[1]?.getD Json.null).getStr?
    let kids ← (a[4]?.getD (Json.arr #[])).getArr?
    let ks ← kids.toList.mapM treeOf
    return .mk (.nt name) (optStr (a[2]?.getD Json.null)) (optStr (a[3]?.getD Json.null)) ks
  | "s" =>
    let kids ← (a[1]?.getD (Json.arr #[])).getArr?
    let ks ← kids.toList.mapM treeOf
    return .mk .slice none none ks
  | _ =>
    let l ← leafOf tag (a[1]?.getD Json.null)
    return .mk (.term l) (optStr (a[2]?.getD Json.null)) (optStr (a[3]?.getD Json.null)) []

def jOptStr : Option String → Json
  | some s => Json.str s
  | none => Json.null

partial def jTree : Tree → Json
  | .mk (.term (.text s)) a r _ => Json.arr #["t", jNats s, jOptStr a, jOptStr r]
  | .mk (.term (.bytes b)) a r _ => Json.arr #["b", jBytes b, jOptStr a, jOptStr r]
  | .mk (.term (.bit b)) a r _ => Json.arr #["i", Json.num (if b then 1 else 0), jOptStr a, jOptStr r]
  | .mk (.nt n) a r ks => Json.arr #["n", Json.str n, jOptStr a, jOptStr r, Json.arr (ks.map jTree).toArray]
  | .mk .slice _ _ ks => Json.arr #["s", Json.arr (ks.map jTree).toArray]

/-- generic stdin→stdout loop -/
partial def loop (h : IO.FS.Stream) (out : IO.FS.Stream) (f : Json → Except String Json) : IO Unit := do
  let line ← h.getLine
  if line.isEmpty then return ()
  let t := line.trimAscii.toString
  if t.isEmpty then
    loop h out f
  else
    let res := match Json.parse t with
      | .error e => Json.mkObj [("driver_error", Json.str s!"json: {e}")]
      | .ok j => match f j with
        | .error e => Json.mkObj [("driver_error", Json.str e)]
        | .ok r => r
    out.putStrLn res.compress
    loop h out f

def run (f : Json → Except String Json) : IO Unit := do
  let i ← IO.getStdin
  let o ← IO.getStdout
  loop i o f
  o.flush

end FV.Drv
