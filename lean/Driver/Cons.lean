/-
Driver for E4/constraints (C07, C02, C11).

{"op":"eval","tree":T,"cons":C,"scope":[[name,path]],"locals":[[x,path]],"cfg":{"binding":"copy"|"shared","skip":bool}?}
   → {"typed":b,"fit":{"ok":{solved,total,success,num,den}}|{"err":k},"denote":b}
{"op":"find","tree":T,"search":S,"direct":b,"scope":[[name,path]]}
   → {"ok":[["tree",path]|["slice",[paths]]|["list",[items]]|["len",[items]]]}|{"err":k}
{"op":"quantify",…} likewise → {"ok":[items]}

Paths are child-index strings ("" = root, "0.2" = third child of the first child).  The driver labels
every node of the tree with its path (in the `sender` field, which no modelled function reads), so the
pure model reports *which* nodes it found.  `cfg` defaults to what the translator read from the source
(`Generated.consCfg`).
-/
import Driver.Common
import Model.Constraint
import Model.EmitExact
import Generated.Cons
open Lean FV FV.Drv

def arrOf (j : Json) : Except String (Array Json) := j.getArr?

def tagOf (a : Array Json) : Except String String := (a[0]?.getD Json.null).getStr?

def strCps (j : Json) : Except String Str := natArr j

def optInt (j : Json) : Except String (Option Int) :=
  match j with
  | .null => pure none
  | _ => do return some (← j.getInt?)

def optNat (j : Json) : Except String (Option Nat) :=
  match j with
  | .null => pure none
  | _ => do return some (← j.getNat?)

def slcOf (j : Json) : Except String Slc := do
  let a ← arrOf j
  match ← tagOf a with
  | "idx" => return .idx (← (a[1]?.getD Json.null).getInt?)
  | "slice" => return .slice (← optInt (a[1]?.getD Json.null)) (← optInt (a[2]?.getD Json.null))
                             (← optNat (a[3]?.getD Json.null))
  | t => throw s!"bad slice tag {t}"

def selPairOf (j : Json) : Except String SelPair := do
  let a ← arrOf j
  let sym ← (a[0]?.getD Json.null).getStr?
  let direct ← (a[1]?.getD Json.null).getBool?
  let items ← (match a[2]?.getD Json.null with
    | .null => pure none
    | x => do return some (← slcOf x))
  return ⟨sym, direct, items⟩

partial def searchOf (j : Json) : Except String Search := do
  let a ← arrOf j
  match ← tagOf a with
  | "rule" => return .rule (← (a[1]?.getD Json.null).getStr?)
  | "attr" => return .attr (← searchOf (a[1]?.getD Json.null)) (← searchOf (a[2]?.getD Json.null))
  | "desc" => return .desc (← searchOf (a[1]?.getD Json.null)) (← searchOf (a[2]?.getD Json.null))
  | "item" =>
    let sl ← (← arrOf (a[2]?.getD Json.null)).toList.mapM slcOf
    return .item (← searchOf (a[1]?.getD Json.null)) sl
  | "star" => return .star (← searchOf (a[1]?.getD Json.null))
  | "len" => return .len (← searchOf (a[1]?.getD Json.null))
  | "sel" =>
    let ps ← (← arrOf (a[2]?.getD Json.null)).toList.mapM selPairOf
    return .sel (← searchOf (a[1]?.getD Json.null)) ps
  | t => throw s!"bad search tag {t}"

def refOf (j : Json) : Except String Ref := do
  let a ← arrOf j
  match ← tagOf a with
  | "ph" => return .ph (← (a[1]?.getD Json.null).getNat?)
  | "var" => return .var (← (a[1]?.getD Json.null).getStr?)
  | t => throw s!"bad ref tag {t}"

def stermOf (j : Json) : Except String STerm := do
  let a ← arrOf j
  match ← tagOf a with
  | "lit" => return .lit (← strCps (a[1]?.getD Json.null))
  | "str" => return .strOf (← refOf (a[1]?.getD Json.null))
  | t => throw s!"bad sterm tag {t}"

def itermOf (j : Json) : Except String ITerm := do
  let a ← arrOf j
  match ← tagOf a with
  | "lit" => return .lit (← (a[1]?.getD Json.null).getInt?)
  | "int" => return .intOf (← refOf (a[1]?.getD Json.null))
  | "len" => return .lenOf (← refOf (a[1]?.getD Json.null))
  | t => throw s!"bad iterm tag {t}"

def opOf (j : Json) : Except String CmpOp := do
  match ← j.getStr? with
  | "==" => return .eq | "!=" => return .ne | "<" => return .lt
  | "<=" => return .le | ">" => return .gt | ">=" => return .ge
  | t => throw s!"bad operator {t}"

def cmpOf (j : Json) : Except String Cmp := do
  let a ← arrOf j
  match ← tagOf a with
  | "s" => return .s (← opOf (a[1]?.getD Json.null)) (← stermOf (a[2]?.getD Json.null)) (← stermOf (a[3]?.getD Json.null))
  | "i" => return .i (← opOf (a[1]?.getD Json.null)) (← itermOf (a[2]?.getD Json.null)) (← itermOf (a[3]?.getD Json.null))
  | t => throw s!"bad cmp tag {t}"

partial def bexprOf (j : Json) : Except String BExpr := do
  let a ← arrOf j
  match ← tagOf a with
  | "tt" => return .tt
  | "ff" => return .ff
  | "cmp" => return .cmp (← cmpOf (a[1]?.getD Json.null))
  | "sw" => return .startsWith (← stermOf (a[1]?.getD Json.null)) (← strCps (a[2]?.getD Json.null))
  | "in" => return .inStar (← strCps (a[1]?.getD Json.null)) (← refOf (a[2]?.getD Json.null))
  | "not" => return .not (← bexprOf (a[1]?.getD Json.null))
  | "and" => return .and (← bexprOf (a[1]?.getD Json.null)) (← bexprOf (a[2]?.getD Json.null))
  | "or" => return .or (← bexprOf (a[1]?.getD Json.null)) (← bexprOf (a[2]?.getD Json.null))
  | t => throw s!"bad bexpr tag {t}"

def boundOf (j : Json) : Except String Bound := do
  let a ← arrOf j
  match ← tagOf a with
  | "nt" => return .nt (← (a[1]?.getD Json.null).getStr?)
  | "var" => return .var (← (a[1]?.getD Json.null).getStr?)
  | t => throw s!"bad bound tag {t}"

def consLOfList : List Cons → ConsL
  | [] => .nil
  | c :: cs => .cons c (consLOfList cs)

partial def consOf (j : Json) : Except String Cons := do
  let a ← arrOf j
  match ← tagOf a with
  | "expr" =>
    let ss ← (← arrOf (a[2]?.getD Json.null)).toList.mapM searchOf
    return .expr (← bexprOf (a[1]?.getD Json.null)) ss
  | "cmp" =>
    let ss ← (← arrOf (a[2]?.getD Json.null)).toList.mapM searchOf
    return .cmp (← cmpOf (a[1]?.getD Json.null)) ss
  | "conj" =>
    let cs ← (← arrOf (a[2]?.getD Json.null)).toList.mapM consOf
    return .conj (← (a[1]?.getD Json.null).getBool?) (consLOfList cs)
  | "disj" =>
    let cs ← (← arrOf (a[2]?.getD Json.null)).toList.mapM consOf
    return .disj (← (a[1]?.getD Json.null).getBool?) (consLOfList cs)
  | "impl" => return .impl (← consOf (a[1]?.getD Json.null)) (← consOf (a[2]?.getD Json.null))
  | "all" =>
    return .all (← (a[1]?.getD Json.null).getBool?) (← boundOf (a[2]?.getD Json.null))
      (← searchOf (a[3]?.getD Json.null)) (← consOf (a[4]?.getD Json.null))
  | "any" =>
    return .any (← (a[1]?.getD Json.null).getBool?) (← boundOf (a[2]?.getD Json.null))
      (← searchOf (a[3]?.getD Json.null)) (← consOf (a[4]?.getD Json.null))
  | t => throw s!"bad constraint tag {t}"

/-! ### path labels -/

def joinPath (p : String) (i : Nat) : String := if p.isEmpty then toString i else p ++ "." ++ toString i

partial def label (p : String) : Tree → Tree
  | .mk s _ r ks => .mk s (some p) r ((ks.zipIdx).map (fun (k, i) => label (joinPath p i) k))

def parsePath (s : String) : Except String (List Nat) :=
  if s.isEmpty then pure []
  else (s.splitOn ".").mapM (fun x => match x.toNat? with
    | some n => pure n
    | none => throw s!"bad path {s}")

def subtree (t : Tree) : List Nat → Except String Tree
  | [] => pure t
  | i :: is => match t.kids[i]? with
    | some k => subtree k is
    | none => throw "path does not exist in the tree"

def jItem : Tree → Json
  | .mk .slice _ _ ks => Json.arr #["slice", Json.arr (ks.map (fun k => jOptStr k.sender)).toArray]
  | t => Json.arr #["tree", jOptStr t.sender]

def jCont : Cont → Json
  | .tree t => jItem t
  | .list ts => Json.arr #["list", Json.arr (ts.map jItem).toArray]
  | .len ts => Json.arr #["len", Json.arr (ts.map jItem).toArray]

def jSErr : SErr → Json
  | .index => Json.mkObj [("err", "index")]
  | .type => Json.mkObj [("err", "type")]
  | .value => Json.mkObj [("err", "value")]

partial def asciiText : Tree → Bool
  | .mk (.term (.text s)) _ _ _ => s.all (· < 128)
  | .mk (.term _) _ _ _ => false
  | .mk _ _ _ ks => ks.all asciiText

def dictOf (t : Tree) (j : Option Json) : Except String (List (String × Tree)) :=
  match j with
  | none => pure []
  | some j => do
    let a ← arrOf j
    a.toList.mapM (fun e => do
      let p ← arrOf e
      let k ← (p[0]?.getD Json.null).getStr?
      let path ← parsePath (← (p[1]?.getD Json.null).getStr?)
      return (k, ← subtree t path))

def cfgOf (j : Json) : Except String OpCfg :=
  match (j.getObjVal? "cfg").toOption with
  | none => pure Generated.consCfg
  | some .null => pure Generated.consCfg
  | some c => do
    let b ← c.getObjValAs? String "binding"
    let skip ← c.getObjValAs? Bool "skip"
    let m ← (match b with
      | "copy" => pure Binding.copy
      | "shared" => pure Binding.shared
      | x => throw s!"bad binding {x}")
    return ⟨m, skip⟩

def jFit (f : Fit) : Json :=
  let (num, den) := match f.dist with
    | some vs => if vs.isEmpty then (0, 1) else (vs.countP id, vs.length)
    | none => if f.total = 0 then (0, 1) else (f.solved, f.total)
  Json.mkObj [("solved", Json.num f.solved), ("total", Json.num f.total), ("success", Json.bool f.success),
              ("num", Json.num num), ("den", Json.num den), ("dist", Json.bool f.dist.isSome)]

/-- a stub outcome: null (the call raised) | {"solved","total","success"} | {"values":[bool…],"success"} -/
def outcomeOf (j : Json) : Except String (Option Fit) :=
  match j with
  | .null => pure none
  | _ => do
    let success ← j.getObjValAs? Bool "success"
    match (j.getObjVal? "values").toOption with
    | some vs =>
      let bs ← (← vs.getArr?).toList.mapM (fun b => b.getBool?)
      return some ⟨bs.countP id, bs.length, success, some bs⟩
    | none =>
      return some ⟨← j.getObjValAs? Nat "solved", ← j.getObjValAs? Nat "total", success, none⟩

def jRat (q : Rat) : Json :=
  Json.mkObj [("num", Json.str (toString q.num)), ("den", Json.str (toString q.den))]

def handleEmit (j : Json) : Except String Json := do
  let hard ← (← (← j.getObjVal? "hard").getArr?).toList.mapM outcomeOf
  let rep ← (← (← j.getObjVal? "rep").getArr?).toList.mapM outcomeOf
  let seen := (j.getObjValAs? Bool "seen").toOption.getD false
  return Json.mkObj [("emit", Json.bool (emitsQ 1 hard rep seen)), ("fitness", jRat (fitnessQ hard rep))]

def handle (j : Json) : Except String Json := do
  let op ← j.getObjValAs? String "op"
  if op == "emit" then return ← handleEmit j
  let t0 ← treeOf (← j.getObjVal? "tree")
  if !asciiText t0 then throw "tree has a leaf that is not ASCII text (not modelled)"
  let t := label "" t0
  let σ ← dictOf t (j.getObjVal? "scope").toOption
  match op with
  | "eval" =>
    let c ← consOf (← j.getObjVal? "cons")
    let ρ ← dictOf t (j.getObjVal? "locals").toOption
    let cfg ← cfgOf j
    let typed := c.typed (ρ.map (·.1))
    if !typed then throw "ill-typed constraint program"
    let fit := match opFit cfg c t σ ρ with
      | .error e => Json.mkObj [("err", (jSErr e).getObjValD "err")]
      | .ok (f, _, _) => Json.mkObj [("ok", jFit f)]
    return Json.mkObj [("fit", fit), ("denote", Json.bool (denote c t σ ρ))]
  | "find" =>
    let s ← searchOf (← j.getObjVal? "search")
    let direct := (j.getObjValAs? Bool "direct").toOption.getD false
    match Search.findG direct s t σ with
    | .error e => return jSErr e
    | .ok cs => return Json.mkObj [("ok", Json.arr (cs.map jCont).toArray)]
  | "quantify" =>
    let s ← searchOf (← j.getObjVal? "search")
    match s.quantify t σ with
    | .error e => return jSErr e
    | .ok ts => return Json.mkObj [("ok", Json.arr (ts.map jItem).toArray)]
  | _ => throw s!"unknown op {op}"

def main : IO Unit := run handle
