/-
Driver for E3 (Earley model).

  variant V := {"policy":"core"|"impl"|"acyclic","cap":null|n,"predDone":b,"aligned":b,"wideGuard":b,"emptyRegex":b}
  {"op":"compile","grammar":G,"cap":null|n}
      → {"rules":[[lhs,[[sym…]…]]…],"epscycle":bool}
  {"op":"parse","grammar":G,"variant":V,"start":s,"fuel":n,
   "input":{"bytes":bool,"cells":[n…],"rlen":[[regexId,cell,len]…]},
   "pred":[[column,ntName,[[sym…]…]]…]}
      → {"status":"done"|"raised"|"fuel","steps":n,"cols":[[[lhs,[sym…],dot,origin,nkids]…]…],
         "forest":[tree…],"epscycle":bool,"bound":n}

sym := ["lit",leaf] | ["re",id] | ["nt",name,sender|null,recipient|null]
-/
import Driver.IRJson
import Model.Earley
open Lean FV FV.Drv FV.Earley

def jSym : ESym → Json
  | .t (.lit l) => Json.arr #["lit", jLeaf l]
  | .t (.regex i) => Json.arr #["re", Json.num (JsonNumber.fromNat i)]
  | .n x a r => Json.arr #["nt", Json.str (ntName x), jOptStr a, jOptStr r]

def jRhs (rhs : List ESym) : Json := Json.arr (rhs.map jSym).toArray

def nameTable (G : Grammar) (cap : Option Nat) : List (String × NT) :=
  ("<*start*>", NT.start) :: (allNTs G cap).map (fun x => (ntName x, x))

def ntOfName (tbl : List (String × NT)) (s : String) : Except String NT :=
  match tbl.find? (fun p => p.1 == s) with
  | some p => pure p.2
  | none => pure (.user s)      -- a nonterminal the grammar never defines

def symOfJson (tbl : List (String × NT)) (j : Json) : Except String ESym := do
  let a ← j.getArr?
  let tag ← (a[0]?.getD Json.null).getStr?
  match tag with
  | "lit" => return .t (.lit (← leafOfJson (a[1]?.getD Json.null)))
  | "re" => return .t (.regex (← (a[1]?.getD Json.null).getNat?))
  | "nt" =>
    let x ← ntOfName tbl (← (a[1]?.getD Json.null).getStr?)
    return .n x (optStr (a[2]?.getD Json.null)) (optStr (a[3]?.getD Json.null))
  | _ => throw s!"bad symbol tag {tag}"

def policyOf (s : String) : Except String Policy :=
  match s with
  | "core" => pure .core
  | "impl" => pure .impl
  | "acyclic" => pure .acyclic
  | _ => throw s!"bad policy {s}"

def capOf (j : Json) : Except String (Option Nat) :=
  if j.isNull then pure none else do return some (← j.getNat?)

def variantOf (j : Json) : Except String Variant := do
  let pol ← policyOf (← j.getObjValAs? String "policy")
  let cap ← capOf (← j.getObjVal? "cap")
  return { policy := pol, cap := cap,
           predDone := (← (← j.getObjVal? "predDone").getBool?),
           aligned := (← (← j.getObjVal? "aligned").getBool?),
           wideGuard := (← (← j.getObjVal? "wideGuard").getBool?),
           emptyRegex := (← (← j.getObjVal? "emptyRegex").getBool?) }

def inputOf (j : Json) : Except String Input := do
  let isB ← (← j.getObjVal? "bytes").getBool?
  let cells ← natArr (← j.getObjVal? "cells")
  let rl ← (← j.getObjVal? "rlen").getArr?
  let tbl ← rl.toList.mapM (fun e => do
    let a ← natArr e
    match a with
    | [i, w, l] => pure (i, w, l)
    | _ => throw "bad rlen entry")
  return { isBytes := isB, cells := cells,
           rlen := fun i w => (tbl.find? (fun e => e.1 == i && e.2.1 == w)).map (·.2.2) }

def jItem (s : St) : Json :=
  Json.arr #[Json.str (ntName s.item.lhs), jRhs s.item.rhs, Json.num (JsonNumber.fromNat s.item.dot),
             Json.num (JsonNumber.fromNat s.item.origin), Json.num (JsonNumber.fromNat s.kids.length)]

/-- the model's `run`, counting steps -/
def runCount (c : Cfg) : Nat → M → Nat → Res × Nat
  | 0, m, n => (.next m, n)
  | fuel + 1, m, n =>
    match step c m with
    | .next m' => runCount c fuel m' (n + 1)
    | r => (r, n + 1)

/-- the size of the core item space, summed over the columns, times the frame factor: the step bound
    of `Props/C06.lean` (kept in sync with `FV.Earley.stepBound`) -/
def handle (j : Json) : Except String Json := do
  let op ← j.getObjValAs? String "op"
  let G ← grammarOf (← j.getObjVal? "grammar")
  match op with
  | "compile" =>
    let cap ← capOf (← j.getObjVal? "cap")
    let rs := (allNTs G cap).map (fun x =>
      Json.arr #[Json.str (ntName x), Json.arr ((rulesOf G cap x).map jRhs).toArray])
    return Json.mkObj [("rules", Json.arr rs.toArray), ("epscycle", Json.bool (hasEpsCycle (compile G cap))),
      ("leftcycle", Json.bool (hasLeftCycle (compile G cap)))]
  | "parse" =>
    let start ← j.getObjValAs? String "start"
    let v ← variantOf (← j.getObjVal? "variant")
    let cap := v.cap
    let fuel ← (← j.getObjVal? "fuel").getNat?
    let inp ← inputOf (← j.getObjVal? "input")
    let tbl := nameTable G cap
    let predJ ← (← j.getObjVal? "pred").getArr?
    let predTbl ← predJ.toList.mapM (fun e => do
      let a ← e.getArr?
      let k ← (a[0]?.getD Json.null).getNat?
      let x ← ntOfName tbl (← (a[1]?.getD Json.null).getStr?)
      let alts ← (← (a[2]?.getD Json.null).getArr?).toList.mapM (fun r => do
        (← r.getArr?).toList.mapM (symOfJson tbl))
      for rhs in alts do
        if !(rulesOf G cap x).contains rhs then
          throw s!"pred: {ntName x} has no alternative {(jRhs rhs).compress} in the model"
      pure (k, x, alts))
    let pred : Nat → NT → List (List ESym) := fun k x =>
      match predTbl.find? (fun e => e.1 == k && decide (e.2.1 = x)) with
      | some e => e.2.2
      | none => rulesOf G cap x
    let c := mkCfg G v inp start pred
    let (res, steps) := runCount c fuel (M.init c) 0
    let (status, m) := match res with
      | .done m => ("done", m)
      | .raised m => ("raised", m)
      | .next m => ("fuel", m)
    let cols := m.cols.map (fun col => Json.arr (col.states.map jItem).toArray)
    let forest := (m.out.flatMap collapse).map jTree
    return Json.mkObj [("status", Json.str status), ("steps", Json.num (JsonNumber.fromNat steps)),
      ("cols", Json.arr cols.toArray), ("forest", Json.arr forest.toArray),
      ("epscycle", Json.bool (hasEpsCycle c.rules)), ("leftcycle", Json.bool (hasLeftCycle c.rules)),
      ("nrules", Json.num (JsonNumber.fromNat c.rules.length))]
  | _ => throw s!"unknown op {op}"

def main : IO Unit := run handle
