/-
Driver for E3 (Earley model).

  variant V := {"policy":"core"|"impl"|"acyclic","cap":null|n,"predDone":b,"aligned":b,"wideGuard":b,"emptyRegex":b}
  {"op":"compile","grammar":G,"cap":null|n}
      → {"rules":[[lhs,[[sym…]…]]…],"epscycle":bool}
  {"op":"parse","grammar":G,"variant":V,"start":s,"fuel":n,
   "input":{"bytes":bool,"cells":[n…],"rlen":[[regexId,cell,len]…]},
   "pred":[[column,ntName,[[sym…]…]]…]}
      → {"status":"done"|"raised"|"fuel","steps":n,"cols":[[[lhs,[sym…],dot,origin,nkids]…]…],
         "forest":[tree…],"epscycle":bool,"bound":n}

  {"op":"prefix", … as "parse" …, "input":{…,"rinc":[[regexId,cell]…]}}      (INCOMPLETE mode, Model/EarleyPrefix.lean)
     the variant V carries one more key, REQUIRED here: "cutShort":b (the source has `ParseState.cut_short`)
     optional "stop_trees":n (stop, status "stopped", as soon as n trees have been yielded), "max_trees":n (forest cut)
      → {"status":"done"|"raised"|"fuel"|"stopped","steps":n,"phaseA":n (steps before the end-of-input phase),
         "cols":[…; the LAST column: [lhs,[sym…],dot,origin,nkids,incomplete?]…],"forest":[tree…] (yield order),
         "lastB":null (the end-of-input phase has not begun) | [[lhs,[sym…],dot,origin,nkids,incomplete?,cut_short?]…]
                 (the last column of the end-of-input phase in admission order, BEFORE the final repetition shortcut),
         "skipped":n (iterations of `complete` that hit `if s.cut_short: continue`),
         "nforest":n,"epscycle":bool,"leftcycle":bool}

sym := ["lit",leaf] | ["re",id] | ["nt",name,sender|null,recipient|null]
-/
import Driver.IRJson
import Model.Earley
import Model.EarleyPrefix
open Lean FV FV.Drv FV.Earley

def jSym : ESym → Json
  | .t (.lit l) => Json.arr #["lit", jLeaf l]
  | .t (.regex i) => Json.arr #["re", Json.num (JsonNumber.fromNat i)]
  | .n x a r => Json.arr #["nt", Json.str (ntName x), jOptStr a, jOptStr r]

def jRhs (rhs : List ESym) : Json := Json.arr (rhs.map jSym).toArray

def nameTable (G : Grammar) (cap : Option Nat) : List (String × NT) :=
  ("<*start*>", NT.start) :: (allNTs G cap).map (fun x => (ntName x, x))

def ntOfName (tbl : List (String × NT)) (s : String) : Except String NT :=
  match tbl.find? (fun p => p.1 == s) with
  | some p => pure p.2
  | none => pure (.user s)      -- a nonterminal the grammar never defines

def symOfJson (tbl : List (String × NT)) (j : Json) : Except String ESym := do
  let a ← j.getArr?
  let tag ← (a[0]?.getD Json.null).getStr?
  match tag with
  | "lit" => return .t (.lit (← leafOfJson (a[1]?.getD Json.null)))
  | "re" => return .t (.regex (← (a[1]?.getD Json.null).getNat?))
  | "nt" =>
    let x ← ntOfName tbl (← (a[1]?.getD Json.null).getStr?)
    return .n x (optStr (a[2]?.getD Json.null)) (optStr (a[3]?.getD Json.null))
  | _ => throw s!"bad symbol tag {tag}"

def policyOf (s : String) : Except String Policy :=
  match s with
  | "core" => pure .core
  | "impl" => pure .impl
  | "acyclic" => pure .acyclic
  | _ => throw s!"bad policy {s}"

def capOf (j : Json) : Except String (Option Nat) :=
  if j.isNull then pure none else do return some (← j.getNat?)

def variantOf (j : Json) : Except String Variant := do
  let pol ← policyOf (← j.getObjValAs? String "policy")
  let cap ← capOf (← j.getObjVal? "cap")
  return { policy := pol, cap := cap,
           predDone := (← (← j.getObjVal? "predDone").getBool?),
           aligned := (← (← j.getObjVal? "aligned").getBool?),
           wideGuard := (← (← j.getObjVal? "wideGuard").getBool?),
           emptyRegex := (← (← j.getObjVal? "emptyRegex").getBool?) }

def inputOf (j : Json) : Except String Input := do
  let isB ← (← j.getObjVal? "bytes").getBool?
  let cells ← natArr (← j.getObjVal? "cells")
  let rl ← (← j.getObjVal? "rlen").getArr?
  let tbl ← rl.toList.mapM (fun e => do
    let a ← natArr e
    match a with
    | [i, w, l] => pure (i, w, l)
    | _ => throw "bad rlen entry")
  return { isBytes := isB, cells := cells,
           rlen := fun i w => (tbl.find? (fun e => e.1 == i && e.2.1 == w)).map (·.2.2) }

def jItem (s : St) : Json :=
  Json.arr #[Json.str (ntName s.item.lhs), jRhs s.item.rhs, Json.num (JsonNumber.fromNat s.item.dot),
             Json.num (JsonNumber.fromNat s.item.origin), Json.num (JsonNumber.fromNat s.kids.length)]

/-- the model's `run`, counting steps -/
def runCount (c : Cfg) : Nat → M → Nat → Res × Nat
  | 0, m, n => (.next m, n)
  | fuel + 1, m, n =>
    match step c m with
    | .next m' => runCount c fuel m' (n + 1)
    | r => (r, n + 1)

/-- the prefix-mode machine, counting steps (and the steps of phase A) -/
def runPCount (pc : PCfg) (stop : Nat) : Nat → PM → Nat → Nat → Nat → PRes × Nat × Nat × Bool × Nat
  | 0, pm, n, a, sk => (.next pm, n, a, false, sk)
  | fuel + 1, pm, n, a, sk =>
    match stepP pc pm with
    | .next pm' =>
      -- an iteration of `complete` that admitted nothing and tried nothing: `if s.cut_short: continue`
      let sk' := match pm.frame with
        | some (t, j) =>
          (match (listOf pm (pc.c.ncols - 1) t)[j]? with
           | some s => if pm.phaseB && pc.cutShort && s.cut then sk + 1 else sk
           | none => sk)
        | none => sk
      -- `stop` trees have been yielded: the caller of the real generator stops consuming it here (`max_trees`)
      if stop ≠ 0 && stop ≤ pm'.m.out.length + pm'.out.length then (.next pm', n + 1, a, true, sk')
      else runPCount pc stop fuel pm' (n + 1) (if pm'.phaseB then a else a + 1) sk'
    | r => (r, n + 1, a, false, sk)

def jItemB (s : PSt) : Json :=
  Json.arr #[Json.str (ntName s.item.lhs), jRhs s.item.rhs, Json.num (JsonNumber.fromNat s.item.dot),
             Json.num (JsonNumber.fromNat s.item.origin), Json.num (JsonNumber.fromNat s.kids.length),
             Json.bool s.inc, Json.bool s.cut]

def jItemInc (s : St) (inc : Bool) : Json :=
  Json.arr #[Json.str (ntName s.item.lhs), jRhs s.item.rhs, Json.num (JsonNumber.fromNat s.item.dot),
             Json.num (JsonNumber.fromNat s.item.origin), Json.num (JsonNumber.fromNat s.kids.length), Json.bool inc]

/-- the size of the core item space, summed over the columns, times the frame factor: the step bound
    of `Props/C06.lean` (kept in sync with `FV.Earley.stepBound`) -/
def handle (j : Json) : Except String Json := do
  let op ← j.getObjValAs? String "op"
  let G ← grammarOf (← j.getObjVal? "grammar")
  match op with
  | "compile" =>
    let cap ← capOf (← j.getObjVal? "cap")
    let rs := (allNTs G cap).map (fun x =>
      Json.arr #[Json.str (ntName x), Json.arr ((rulesOf G cap x).map jRhs).toArray])
    return Json.mkObj [("rules", Json.arr rs.toArray), ("epscycle", Json.bool (hasEpsCycle (compile G cap))),
      ("leftcycle", Json.bool (hasLeftCycle (compile G cap)))]
  | "parse" =>
    let start ← j.getObjValAs? String "start"
    let v ← variantOf (← j.getObjVal? "variant")
    let cap := v.cap
    let fuel ← (← j.getObjVal? "fuel").getNat?
    let inp ← inputOf (← j.getObjVal? "input")
    let tbl := nameTable G cap
    let predJ ← (← j.getObjVal? "pred").getArr?
    let predTbl ← predJ.toList.mapM (fun e => do
      let a ← e.getArr?
      let k ← (a[0]?.getD Json.null).getNat?
      let x ← ntOfName tbl (← (a[1]?.getD Json.null).getStr?)
      let alts ← (← (a[2]?.getD Json.null).getArr?).toList.mapM (fun r => do
        (← r.getArr?).toList.mapM (symOfJson tbl))
      for rhs in alts do
        if !(rulesOf G cap x).contains rhs then
          throw s!"pred: {ntName x} has no alternative {(jRhs rhs).compress} in the model"
      pure (k, x, alts))
    let pred : Nat → NT → List (List ESym) := fun k x =>
      match predTbl.find? (fun e => e.1 == k && decide (e.2.1 = x)) with
      | some e => e.2.2
      | none => rulesOf G cap x
    let c := mkCfg G v inp start pred
    let (res, steps) := runCount c fuel (M.init c) 0
    let (status, m) := match res with
      | .done m => ("done", m)
      | .raised m => ("raised", m)
      | .next m => ("fuel", m)
    let cols := m.cols.map (fun col => Json.arr (col.states.map jItem).toArray)
    let forest := (m.out.flatMap collapse).map jTree
    return Json.mkObj [("status", Json.str status), ("steps", Json.num (JsonNumber.fromNat steps)),
      ("cols", Json.arr cols.toArray), ("forest", Json.arr forest.toArray),
      ("epscycle", Json.bool (hasEpsCycle c.rules)), ("leftcycle", Json.bool (hasLeftCycle c.rules)),
      ("nrules", Json.num (JsonNumber.fromNat c.rules.length))]
  | "prefix" =>
    let start ← j.getObjValAs? String "start"
    let v ← variantOf (← j.getObjVal? "variant")
    let cap := v.cap
    let fuel ← (← j.getObjVal? "fuel").getNat?
    let inpJ ← j.getObjVal? "input"
    let inp ← inputOf inpJ
    let ri ← (← inpJ.getObjVal? "rinc").getArr?
    let riTbl ← ri.toList.mapM (fun e => do
      let a ← natArr e
      match a with
      | [i, w] => pure (i, w)
      | _ => throw "bad rinc entry")
    let pinp : PInput := { inp := inp, rinc := fun i w => riTbl.any (fun e => e.1 == i && e.2 == w) }
    let maxTrees := (j.getObjValAs? Nat "max_trees").toOption.getD 1000000
    let tbl := nameTable G cap
    let predJ ← (← j.getObjVal? "pred").getArr?
    let predTbl ← predJ.toList.mapM (fun e => do
      let a ← e.getArr?
      let k ← (a[0]?.getD Json.null).getNat?
      let x ← ntOfName tbl (← (a[1]?.getD Json.null).getStr?)
      let alts ← (← (a[2]?.getD Json.null).getArr?).toList.mapM (fun r => do
        (← r.getArr?).toList.mapM (symOfJson tbl))
      for rhs in alts do
        if !(rulesOf G cap x).contains rhs then
          throw s!"pred: {ntName x} has no alternative {(jRhs rhs).compress} in the model"
      pure (k, x, alts))
    let pred : Nat → NT → List (List ESym) := fun k x =>
      match predTbl.find? (fun e => e.1 == k && decide (e.2.1 = x)) with
      | some e => e.2.2
      | none => rulesOf G cap x
    -- the prefix-mode parameter travels with the variant; it is required (never defaulted)
    let cs ← (← (← j.getObjVal? "variant").getObjVal? "cutShort").getBool?
    let pc := mkPCfg G v cs pinp start pred
    let stop := (j.getObjValAs? Nat "stop_trees").toOption.getD 0
    let (res, steps, stepsA, stopped, skipped) := runPCount pc stop fuel (PM.init pc) 0 0 0
    let (status, pm) := match res with
      | .done pm => ("done", pm)
      | .raised pm => ("raised", pm)
      | .next pm => (if stopped then "stopped" else "fuel", pm)
    let L := pc.c.ncols - 1
    -- the last column: after `done` the chart holds it (shortcut applied; positions as in `pm.last`); in phase B
    -- before that `pm.last`; in phase A the ordinary states and the incomplete ones at their positions
    let lastSts : List (St × Bool) :=
      if status == "done" then (colAt pm.m.cols L).states.zip (pm.last.map (·.inc))
      else if pm.phaseB then pm.last.map (fun s => (s.toSt, s.inc))
      else (mergeInc L 0 (colAt pm.m.cols L).states pm.incs).map (fun s => (s.toSt, s.inc))
    let cols := (List.range pm.m.cols.length).map (fun i =>
      if i == L then Json.arr (lastSts.map (fun p => jItemInc p.1 p.2)).toArray
      else Json.arr ((colAt pm.m.cols i).states.map jItem).toArray)
    let outs := pm.m.out ++ pm.out
    let forest := ((outs.flatMap collapse).take maxTrees).map jTree
    return Json.mkObj [("status", Json.str status), ("steps", Json.num (JsonNumber.fromNat steps)),
      ("phaseA", Json.num (JsonNumber.fromNat stepsA)),
      ("cols", Json.arr cols.toArray), ("forest", Json.arr forest.toArray),
      ("nforest", Json.num (JsonNumber.fromNat outs.length)),
      ("lastB", if pm.phaseB then Json.arr (pm.last.map jItemB).toArray else Json.null),
      ("skipped", Json.num (JsonNumber.fromNat skipped)),
      ("epscycle", Json.bool (hasEpsCycle pc.c.rules)), ("leftcycle", Json.bool (hasLeftCycle pc.c.rules))]
  | _ => throw s!"unknown op {op}"

def main : IO Unit := run handle
