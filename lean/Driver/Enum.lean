/-
Driver for the language enumerator (`Model/Enum.lean`) and the parser-language model (`Model/Scan.lean`), exe
`drv_enum`.

  {"op":"enum","grammar":G,"inst":[[regexId,[leaf…]]…],"start":"<start>","depth":d,"cap":c,"lim":n,"rot":r}
      → {"trees":[{"tree":T,"tags":[regexId|null…],"valid":bool}…]}
     `valid` is the verified checker `validB` on the enumerated tree with the oracle "leaf ∈ inst id"
     (it is `true` by `C05_enum_checked`; the driver refuses to answer otherwise)
  {"op":"judge","grammar":G,"start":s,"word":[units],"rlen":[[regexId,w,m]…],"binary":bool,
   "leaves":[leaf…],"tags":[regexId|null…]|null,"full":[[regexId,leaf]…],"nregex":n,"depth":d,"cap":c
   [,"walk_only":true]}
      → {"accepts":bool|null,"fail":[i,isRegex]|null,"len_ok":bool,"in_class":bool}
     `accepts` = `Scan.accepts` (the parser-language model, `C05_parser_language_iff`) with the greedy-length
     table `rlen` (absent triple = no match); `fail` = `Scan.firstFail` on the tagged witness, or
     `Scan.firstFailU` (tags = null: `full` = the `re.fullmatch` table, regex ids `0 … n-1`;
     `C05_untagged_in_class`); `in_class` = no `fail` and the serialised leaves cover the word (`Scan.inClass`)
  {"op":"capvalid","grammar":G,"oracle":O,"tree":T,"cap":c,"sel":"braces"|"all"|"none"}
      → {"valid":bool}        the verified checker on the grammar whose open-ended repetitions of the selected
                              kinds are capped at c (`RepCap.capGrammar`; `C05_capValid_iff`)
-/
import Driver.IRJson
import Model.Enum
import Model.Scan
import Model.RepCap
import Model.IRFast
open Lean FV FV.Drv FV.Enum

def instOf (j : Json) : Except String (List (Nat × List Leaf)) := do
  let rows ← j.getArr?
  rows.toList.mapM (fun r => do
    let a ← r.getArr?
    let id ← (a[0]?.getD Json.null).getNat?
    let ls ← (← (a[1]?.getD Json.null).getArr?).toList.mapM leafOfJson
    pure (id, ls))

def instFn (tbl : List (Nat × List Leaf)) : Inst := fun id =>
  match tbl.find? (fun p => p.1 == id) with
  | some p => p.2
  | none => []

def jTag : Option Nat → Json
  | some r => Json.num (JsonNumber.fromNat r)
  | none => Json.null

def tagOf (j : Json) : Except String (Option Nat) :=
  match j with
  | Json.null => pure none
  | x => do pure (some (← x.getNat?))

def rlenTable (j : Json) : Except String (Nat → Nat → Option Nat) := do
  let rows ← j.getArr?
  let tbl ← rows.toList.mapM (fun r => do
    let a ← r.getArr?
    if a.size != 3 then throw "rlen row: [regexId, w, m] expected"
    let id ← (a[0]?.getD Json.null).getNat?
    let w ← (a[1]?.getD Json.null).getNat?
    let m ← (a[2]?.getD Json.null).getNat?
    pure (id, w, m))
  return fun r w =>
    match tbl.find? (fun p => p.1 == r && p.2.1 == w) with
    | some p => some p.2.2
    | none => none

def jFail : Option (Nat × Bool) → Json
  | none => Json.null
  | some (i, b) => Json.arr #[Json.num (JsonNumber.fromNat i), Json.bool b]

def handle (j : Json) : Except String Json := do
  let op ← j.getObjValAs? String "op"
  match op with
  | "enum" =>
    let G ← grammarOf (← j.getObjVal? "grammar")
    let tbl ← instOf (← j.getObjVal? "inst")
    let inst := instFn tbl
    let R : RegexOracle := fun id l => (inst id).any (fun l' => decide (l' = l))
    let start ← j.getObjValAs? String "start"
    let d ← (← j.getObjVal? "depth").getNat?
    let c ← (← j.getObjVal? "cap").getNat?
    let lim ← (← j.getObjVal? "lim").getNat?
    let rot ← (← j.getObjVal? "rot").getNat?
    let ts := enumTrees G inst c (some lim) rot d start
    let out ← ts.mapM (fun (p : Tree × List (Option Nat)) => do
      let ok := validB G R p.1
      if !ok then throw "enumerated tree rejected by the verified checker (contradicts C05_enum_checked)"
      pure (Json.mkObj [("tree", jTree p.1), ("tags", Json.arr (p.2.map jTag).toArray),
        ("valid", Json.bool ok)]))
    return Json.mkObj [("trees", Json.arr out.toArray)]
  | "judge" =>
    let G ← grammarOf (← j.getObjVal? "grammar")
    let start ← j.getObjValAs? String "start"
    let word ← natArr (← j.getObjVal? "word")
    let rlen ← rlenTable (← j.getObjVal? "rlen")
    let binary ← (← j.getObjVal? "binary").getBool?
    let leaves ← (← (← j.getObjVal? "leaves").getArr?).toList.mapM leafOfJson
    let d ← (← j.getObjVal? "depth").getNat?
    let c ← (← j.getObjVal? "cap").getNat?
    let inp : Scan.Inp := ⟨word, rlen⟩
    let lenOk := Scan.lenSum binary leaves == some inp.ncols
    let (fail, inClass) ← match (← j.getObjVal? "tags") with
      | Json.null => do
        let full ← oracleOf (← j.getObjVal? "full")
        let n ← (← j.getObjVal? "nregex").getNat?
        let f := Scan.firstFailU inp binary full (List.range n) leaves 0 0
        pure (f, f.isNone && lenOk)
      | tj => do
        let tags ← (← tj.getArr?).toList.mapM tagOf
        if tags.length != leaves.length then throw "judge: tags and leaves differ in length"
        pure (Scan.firstFail inp binary leaves tags 0 0, Scan.inClass inp binary leaves tags)
    -- "walk_only": the recogniser is not run (`accepts` = null); the walk over the leaves is linear
    let walkOnly := match j.getObjVal? "walk_only" with
      | .ok (Json.bool b) => b
      | _ => false
    let acc := if walkOnly then Json.null else Json.bool (Scan.accepts G inp c d start)
    return Json.mkObj [("accepts", acc), ("fail", jFail fail),
      ("len_ok", Json.bool lenOk), ("in_class", Json.bool inClass)]
  | "capvalid" =>
    let G ← grammarOf (← j.getObjVal? "grammar")
    let R ← oracleOf (← j.getObjVal? "oracle")
    let t ← treeOf (← j.getObjVal? "tree")
    let c ← (← j.getObjVal? "cap").getNat?
    let sel ← match (← j.getObjValAs? String "sel") with
      | "braces" => pure RepCap.selBraces
      | "all" => pure RepCap.selAll
      | "none" => pure RepCap.selNone
      | s => throw s!"unknown sel {s}"
    return Json.mkObj [("valid", Json.bool (validFast (RepCap.capGrammar sel c G) R t))]
  | _ => throw s!"unknown op {op}"

def main : IO Unit := run handle
