/-
Driver for the language enumerator (`Model/Enum.lean`), exe `drv_enum`.

  {"op":"enum","grammar":G,"inst":[[regexId,[leaf…]]…],"start":"<start>","depth":d,"cap":c,"lim":n,"rot":r}
      → {"trees":[{"tree":T,"tags":[regexId|null…],"valid":bool}…]}
     `valid` is the verified checker `validB` on the enumerated tree with the oracle "leaf ∈ inst id"
     (it is `true` by `C05_enum_checked`; the driver refuses to answer otherwise)
  {"op":"greedy","binary":bool,"word":[units],"leaves":[leaf…],"tags":[regexId|null…],
   "oracle":[[regexId,[units],m]…]}
      → {"greedy":bool}       `regexGreedy` with the greedy-length table (absent pair = no match)
  {"op":"capvalid","grammar":G,"oracle":O,"tree":T,"cap":c,"sel":"braces"|"all"|"none"}
      → {"valid":bool}        the verified checker on the grammar whose open-ended repetitions of the selected
                              kinds are capped at c (`RepCap.capGrammar`; `C05_capValid_iff`)
-/
import Driver.IRJson
import Model.Enum
import Model.RepCap
import Model.IRFast
open Lean FV FV.Drv FV.Enum

def instOf (j : Json) : Except String (List (Nat × List Leaf)) := do
  let rows ← j.getArr?
  rows.toList.mapM (fun r => do
    let a ← r.getArr?
    let id ← (a[0]?.getD Json.null).getNat?
    let ls ← (← (a[1]?.getD Json.null).getArr?).toList.mapM leafOfJson
    pure (id, ls))

def instFn (tbl : List (Nat × List Leaf)) : Inst := fun id =>
  match tbl.find? (fun p => p.1 == id) with
  | some p => p.2
  | none => []

def jTag : Option Nat → Json
  | some r => Json.num (JsonNumber.fromNat r)
  | none => Json.null

def tagOf (j : Json) : Except String (Option Nat) :=
  match j with
  | Json.null => pure none
  | x => do pure (some (← x.getNat?))

def greedyTable (j : Json) : Except String (Nat → List Nat → Option Nat) := do
  let rows ← j.getArr?
  let tbl ← rows.toList.mapM (fun r => do
    let a ← r.getArr?
    let id ← (a[0]?.getD Json.null).getNat?
    let us ← natArr (a[1]?.getD Json.null)
    let m ← (a[2]?.getD Json.null).getNat?
    pure (id, us, m))
  return fun r z =>
    match tbl.find? (fun p => p.1 == r && p.2.1 == z) with
    | some p => some p.2.2
    | none => none

def handle (j : Json) : Except String Json := do
  let op ← j.getObjValAs? String "op"
  match op with
  | "enum" =>
    let G ← grammarOf (← j.getObjVal? "grammar")
    let tbl ← instOf (← j.getObjVal? "inst")
    let inst := instFn tbl
    let R : RegexOracle := fun id l => (inst id).any (fun l' => decide (l' = l))
    let start ← j.getObjValAs? String "start"
    let d ← (← j.getObjVal? "depth").getNat?
    let c ← (← j.getObjVal? "cap").getNat?
    let lim ← (← j.getObjVal? "lim").getNat?
    let rot ← (← j.getObjVal? "rot").getNat?
    let ts := enumTrees G inst c (some lim) rot d start
    let out ← ts.mapM (fun (p : Tree × List (Option Nat)) => do
      let ok := validB G R p.1
      if !ok then throw "enumerated tree rejected by the verified checker (contradicts C05_enum_checked)"
      pure (Json.mkObj [("tree", jTree p.1), ("tags", Json.arr (p.2.map jTag).toArray),
        ("valid", Json.bool ok)]))
    return Json.mkObj [("trees", Json.arr out.toArray)]
  | "greedy" =>
    let binary ← (← j.getObjVal? "binary").getBool?
    let word ← natArr (← j.getObjVal? "word")
    let leaves ← (← (← j.getObjVal? "leaves").getArr?).toList.mapM leafOfJson
    let tags ← (← (← j.getObjVal? "tags").getArr?).toList.mapM tagOf
    let Rg ← greedyTable (← j.getObjVal? "oracle")
    return Json.mkObj [("greedy", Json.bool (regexGreedy Rg binary word leaves tags 0))]
  | "capvalid" =>
    let G ← grammarOf (← j.getObjVal? "grammar")
    let R ← oracleOf (← j.getObjVal? "oracle")
    let t ← treeOf (← j.getObjVal? "tree")
    let c ← (← j.getObjVal? "cap").getNat?
    let sel ← match (← j.getObjValAs? String "sel") with
      | "braces" => pure RepCap.selBraces
      | "all" => pure RepCap.selAll
      | "none" => pure RepCap.selNone
      | s => throw s!"unknown sel {s}"
    return Json.mkObj [("valid", Json.bool (validFast (RepCap.capGrammar sel c G) R t))]
  | _ => throw s!"unknown op {op}"

def main : IO Unit := run handle
