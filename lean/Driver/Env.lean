/-
Driver for E7/environment (C18).  One JSON object per line:

  {"op":"fl","kind":"mul"|"div"|"sub"|"avg"|"ceil", "a":[n,e], "b":[n,e] | "xs":[[n,e],..]}  → {"v":[n,e]} | {"n":k}
  {"op":"update","t":TUNER,"prev":[n,e],"cur":[n,e],"divs":[[n,e],..]}  → {"t":TUNER,"avg":[n,e],"stagnating":b}
  {"op":"traj","c0":n,"rate":[n,e],"cap1":n|null,"cap2":n,"k":n}          → {"traj":[..]}
  {"op":"world","loc":"global"|"perGrammar"|"source","ops":[[inst,ACT],..]} → {"outs":[[inst,OUT],..],"gcap":n}
  {"op":"pattern","tags":[..]}                                               → {"pattern":[..]}

TUNER = {"mut":[n,e],"cross":[n,e],"curRep":n,"curNodes":n,"initMut":..,"initCross":..,"initRep":n,
         "initNodes":n,"maxReps":n|null,"repRate":[n,e],"maxNodes":n,"nodesRate":[n,e]}
ACT = ["new"] | ["init",SETTINGS|null] | ["gen",prev,cur,avgDiv] | ["reset"] | ["fuzz"] | ["build"] | ["parse",n] | ["cap"]
The constants are the generated ones (`Generated/Env.lean`).
-/
import Driver.Common
import Generated.Env
open Lean FV FV.Drv FV.Env

def dyOf (j : Json) : Except String Dy := do
  let a ← j.getArr?
  if a.size != 2 then throw "dyadic must be [num, exp]"
  return ⟨← a[0]!.getNat?, ← a[1]!.getNat?⟩

def jNat (n : Nat) : Json := Json.num (JsonNumber.fromNat n)
def jDy (d : Dy) : Json := let d := d.norm; Json.arr #[jNat d.num, jNat d.exp]

def optNat (j : Json) : Except String (Option Nat) :=
  match j with
  | .null => pure none
  | _ => do return some (← j.getNat?)

def jOptNat : Option Nat → Json
  | some n => jNat n
  | none => Json.null

def tunerOf (j : Json) : Except String Tuner := do
  return { mutR := ← dyOf (← j.getObjVal? "mut"), crossR := ← dyOf (← j.getObjVal? "cross"),
           curRep := ← j.getObjValAs? Nat "curRep", curNodes := ← j.getObjValAs? Nat "curNodes",
           initMut := ← dyOf (← j.getObjVal? "initMut"), initCross := ← dyOf (← j.getObjVal? "initCross"),
           initRep := ← j.getObjValAs? Nat "initRep", initNodes := ← j.getObjValAs? Nat "initNodes",
           maxReps := ← optNat (← j.getObjVal? "maxReps"), repRate := ← dyOf (← j.getObjVal? "repRate"),
           maxNodes := ← j.getObjValAs? Nat "maxNodes", nodesRate := ← dyOf (← j.getObjVal? "nodesRate") }

def jTuner (t : Tuner) : Json :=
  Json.mkObj [("mut", jDy t.mutR), ("cross", jDy t.crossR), ("curRep", jNat t.curRep),
    ("curNodes", jNat t.curNodes), ("initMut", jDy t.initMut), ("initCross", jDy t.initCross),
    ("initRep", jNat t.initRep), ("initNodes", jNat t.initNodes), ("maxReps", jOptNat t.maxReps),
    ("repRate", jDy t.repRate), ("maxNodes", jNat t.maxNodes), ("nodesRate", jDy t.nodesRate)]

def settingsOf (j : Json) : Except String Settings :=
  match j with
  | .null => pure Generated.defaultSettings
  | _ => do
    return { mutR := ← dyOf (← j.getObjVal? "mut"), crossR := ← dyOf (← j.getObjVal? "cross"),
             maxReps := ← optNat (← j.getObjVal? "maxReps"), repRate := ← dyOf (← j.getObjVal? "repRate"),
             maxNodes := ← j.getObjValAs? Nat "maxNodes", nodesRate := ← dyOf (← j.getObjVal? "nodesRate") }

def actOf (a : Array Json) : Except String Act := do
  let tag ← (a[1]?.getD Json.null).getStr?
  match tag with
  | "new" => return .newInstance
  | "init" => return .initPopulation (← settingsOf (a[2]?.getD Json.null))
  | "gen" =>
    let p ← dyOf (a[2]?.getD Json.null)
    let c ← dyOf (a[3]?.getD Json.null)
    let d ← dyOf (a[4]?.getD Json.null)
    return .generation p c d
  | "reset" => return .resetTuner
  | "fuzz" => return .fuzzOne
  | "build" => return .buildParser
  | "parse" => return .parse (← (a[2]?.getD Json.null).getNat?)
  | "cap" => return .getCap
  | _ => throw s!"unknown act {tag}"

def opOf (j : Json) : Except String Op := do
  let a ← j.getArr?
  return { inst := ← (a[0]?.getD Json.null).getNat?, act := ← actOf a }

def jOut : Out → Json
  | .fuzz hi tag => Json.arr #["fuzz", jNat hi, jNat tag]
  | .parse b => Json.arr #["parse", Json.bool b]
  | .cap c => Json.arr #["cap", jNat c]

def handle (j : Json) : Except String Json := do
  let op ← j.getObjValAs? String "op"
  match op with
  | "fl" =>
    let kind ← j.getObjValAs? String "kind"
    match kind with
    | "avg" =>
      let xs ← (← j.getObjValAs? (Array Json) "xs").toList.mapM dyOf
      return Json.mkObj [("v", jDy (Dy.avg xs))]
    | "ceil" => return Json.mkObj [("n", jNat (Dy.ceil (← dyOf (← j.getObjVal? "a"))))]
    | _ =>
      let a ← dyOf (← j.getObjVal? "a")
      let b ← dyOf (← j.getObjVal? "b")
      match kind with
      | "mul" => return Json.mkObj [("v", jDy (Dy.mul a b))]
      | "div" => if b.num = 0 then throw "division by zero" else return Json.mkObj [("v", jDy (Dy.div a b))]
      | "sub" => if Dy.lt a b then throw "negative difference" else return Json.mkObj [("v", jDy (Dy.sub a b))]
      | _ => throw s!"unknown kind {kind}"
  | "update" =>
    let t ← tunerOf (← j.getObjVal? "t")
    let prev ← dyOf (← j.getObjVal? "prev")
    let cur ← dyOf (← j.getObjVal? "cur")
    let divs ← (← j.getObjValAs? (Array Json) "divs").toList.mapM dyOf
    let avg := Dy.avg divs
    return Json.mkObj [("t", jTuner (t.update Generated.tunerCfg prev cur avg)), ("avg", jDy avg),
      ("stagnating", Json.bool (stagnating Generated.tunerCfg prev cur avg))]
  | "traj" =>
    let c0 ← j.getObjValAs? Nat "c0"
    let rate ← dyOf (← j.getObjVal? "rate")
    let cap1 ← optNat (← j.getObjVal? "cap1")
    let cap2 ← j.getObjValAs? Nat "cap2"
    let k ← j.getObjValAs? Nat "k"
    if k > 100000 then throw "k too large"
    return Json.mkObj [("traj", jNats ((List.range (k + 1)).map
      (trajectory Generated.tunerCfg.minInc rate cap1 cap2 c0)))]
  | "world" =>
    let locS ← j.getObjValAs? String "loc"
    let loc ← match locS with
      | "global" => pure CapLoc.moduleGlobal
      | "perGrammar" => pure CapLoc.perGrammar
      | "source" => pure Generated.capLocation
      | _ => throw s!"unknown loc {locS}"
    let ops ← (← j.getObjValAs? (Array Json) "ops").toList.mapM opOf
    let d := Generated.defaultMaxRepetitions
    let r := run loc Generated.tunerCfg d Generated.defaultSettings (World.fresh d) ops
    return Json.mkObj [("outs", Json.arr (r.2.map (fun p => Json.arr #[jNat p.1, jOut p.2])).toArray),
      ("gcap", jNat r.1.gcap)]
  | "pattern" =>
    let tags ← natArr (← j.getObjVal? "tags")
    return Json.mkObj [("pattern", jNats (tagPattern tags))]
  | _ => throw s!"unknown op {op}"

def main : IO Unit := run handle
