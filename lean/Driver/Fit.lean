/-
Driver for E4 / Float53 + Emit (C03).  One JSON object per line.  Numbers that may exceed 2^53 are
decimal STRINGS; a double is the exact ratio `[num, den]` (Python `float.as_integer_ratio()`), and the
driver REJECTS a ratio that is not a representable double of the model (never rounds an operand).

  {"op":"arith","f":"add|sub|mul|div","a":[n,d],"b":[n,d]}          -> {"r":[n,d]}
  {"op":"arith_batch","f":…,"pairs":[[an,ad,bn,bd],…]}              -> {"rs":[[n,d],…]}
  {"op":"ofnat","n":"…"}                                             -> {"r":[n,d]}
  {"op":"sum","vals":[[n,d],…]}                                      -> {"r":[n,d]}     (CPython sum)
  {"op":"formula","hardMean":[n,d],"repMean":[n,d],"softMean":[n,d],"h":…,"r":…,"s":…,"expected":[n,d]}
                                                                     -> {"fitness":[n,d],"accept":bool}
  {"op":"eval","expected":[n,d],"detail":bool?,"seq":[{"key":k,"hard":[C…],"rep":[C…],"s":n,"softMean":[n,d]},…]}
     C = ["cf",solved,total] | ["da",[[n,d],…]] | ["val",[n,d]] | ["raise"] | ["rep",count,C] (run-length)
                                                                     -> {"steps":[{"emitted":bool,"fitness":[n,d],
                                                                          "hardMean":[n,d],"repMean":[n,d]},…]}
-/
import Driver.Common
import Model.Emit
open Lean FV FV.F FV.Generated FV.Drv

def intOf (j : Json) : Except String Int :=
  match j with
  | .str s => match s.toInt? with
    | some i => pure i
    | none => throw s!"not an integer: {s}"
  | .num n => if n.exponent == 0 then pure n.mantissa else throw "non-integer number"
  | _ => throw "integer expected"

def natOf (j : Json) : Except String Nat := do
  let i ← intOf j
  if i < 0 then throw "negative" else pure i.toNat

def ratOf (num den : Int) : Except String Rat :=
  if den ≤ 0 then throw "denominator must be positive" else pure (mkRat num den.toNat)

/-- an operand: must be exactly representable in the model, and in its modelled range -/
def fOfRat (q : Rat) : Except String F :=
  let f := rnd q
  if f.toRat == q && inRange q then pure f else throw s!"not a (normal) double: {q}"

def fOf (j : Json) : Except String F := do
  let a ← j.getArr?
  if a.size != 2 then throw "ratio [num, den] expected"
  fOfRat (← ratOf (← intOf a[0]!) (← intOf a[1]!))

def jRat (q : Rat) : Json := Json.arr #[Json.str (toString q.num), Json.str (toString q.den)]
def jF (f : F) : Json := jRat f.toRat

def arith (f : String) (a b : F) : Except String F :=
  match f with
  | "add" => pure (fadd a b)
  | "sub" => pure (fsub a b)
  | "mul" => pure (fmul a b)
  | "div" => if b.m == 0 then throw "division by zero" else pure (fdiv a b)
  | _ => throw s!"unknown arithmetic op {f}"

/-- results outside the normal range are not modelled: say so instead of answering -/
def checked (f : F) (exact : Rat) : Json :=
  if inRange exact then jF f else Json.mkObj [("out_of_range", true)]

def exactOf (f : String) (a b : F) : Rat :=
  match f with
  | "add" => a.toRat + b.toRat
  | "sub" => a.toRat - b.toRat
  | "mul" => a.toRat * b.toRat
  | _ => a.toRat / b.toRat

partial def constraintsOf (j : Json) : Except String (List (Option F)) := do
  let a ← j.getArr?
  let tag ← (a[0]?.getD Json.null).getStr?
  match tag with
  | "cf" => return [some (cfFitness (← natOf (a[1]?.getD Json.null)) (← natOf (a[2]?.getD Json.null)))]
  | "da" =>
    let vs ← (a[1]?.getD Json.null).getArr?
    return [some (daFitness (← vs.toList.mapM fOf))]
  | "val" => return [some (← fOf (a[1]?.getD Json.null))]
  | "raise" => return [none]
  | "rep" =>          -- run-length: ["rep", n, C]
    let n ← natOf (a[1]?.getD Json.null)
    let c ← constraintsOf (a[2]?.getD Json.null)
    match c with
    | [x] => return List.replicate n x
    | _ => throw "nested run-length group"
  | _ => throw s!"unknown constraint result {tag}"

def constraintList (j : Json) : Except String (List (Option F)) := do
  let xs ← (← j.getArr?).toList.mapM constraintsOf
  return xs.flatten

def individualOf (j : Json) : Except String Individual := do
  let key ← intOf (← j.getObjVal? "key")
  let hard ← constraintList (← j.getObjVal? "hard")
  let rep ← constraintList (← j.getObjVal? "rep")
  let s ← natOf (← j.getObjVal? "s")
  let sm ← fOf (← j.getObjVal? "softMean")
  return ⟨key, hard, rep, s, sm⟩

def evalSeq (expected : F) (detail : Bool) : EvalState → List Individual → List Json
  | _, [] => []
  | st, ind :: rest =>
    let r := evaluateIndividual expected st ind
    let base := [("emitted", Json.bool (!r.emitted.isEmpty)), ("fitness", jF r.fitness)]
    let more := if detail then
        [("hardMean", jF (classMean ind.hard)), ("repMean", jF (classMean ind.rep)),
         ("results", Json.arr ((ind.hard ++ ind.rep).map (fun o => match o with
            | some f => jF f
            | none => Json.null)).toArray)]
      else []
    Json.mkObj (base ++ more) :: evalSeq expected detail r.state rest

def handle (j : Json) : Except String Json := do
  let op ← j.getObjValAs? String "op"
  match op with
  | "arith" =>
    let f ← j.getObjValAs? String "f"
    let a ← fOf (← j.getObjVal? "a")
    let b ← fOf (← j.getObjVal? "b")
    let r ← arith f a b
    return Json.mkObj [("r", checked r (exactOf f a b))]
  | "arith_batch" =>
    let f ← j.getObjValAs? String "f"
    let ps ← (← j.getObjVal? "pairs").getArr?
    let rs ← ps.toList.mapM fun p => do
      let q ← p.getArr?
      if q.size != 4 then throw "[an, ad, bn, bd] expected"
      let a ← fOfRat (← ratOf (← intOf q[0]!) (← intOf q[1]!))
      let b ← fOfRat (← ratOf (← intOf q[2]!) (← intOf q[3]!))
      let r ← arith f a b
      pure (checked r (exactOf f a b))
    return Json.mkObj [("rs", Json.arr rs.toArray)]
  | "ofnat" =>
    let n ← natOf (← j.getObjVal? "n")
    return Json.mkObj [("r", jF (ofNat n))]
  | "sum" =>
    let vs ← (← (← j.getObjVal? "vals").getArr?).toList.mapM fOf
    return Json.mkObj [("r", jF (pySum vs))]
  | "formula" =>
    let hm ← fOf (← j.getObjVal? "hardMean")
    let rm ← fOf (← j.getObjVal? "repMean")
    let sm ← fOf (← j.getObjVal? "softMean")
    let h ← natOf (← j.getObjVal? "h")
    let r ← natOf (← j.getObjVal? "r")
    let s ← natOf (← j.getObjVal? "s")
    let e ← fOf (← j.getObjVal? "expected")
    let f := fitnessFormula hm rm sm h r s
    return Json.mkObj [("fitness", jF f), ("accept", Json.bool (acceptCmp f e))]
  | "eval" =>
    let e ← fOf (← j.getObjVal? "expected")
    let inds ← (← (← j.getObjVal? "seq").getArr?).toList.mapM individualOf
    let detail := (j.getObjValAs? Bool "detail").toOption.getD false
    return Json.mkObj [("steps", Json.arr (evalSeq e detail EvalState.empty inds).toArray)]
  | _ => throw s!"unknown op {op}"

def main : IO Unit := run handle
