/-
Driver for the budgeted expansion and the tree-editing operators of `Model/Fuzz.lean`.

fnode   := ["lit", leaf, d, key] | ["re", id, d, key] | ["nt", name, sender|null, recipient|null, d]
         | ["alt", id, d, [fnode…]] | ["cat", id, d, [fnode…]]
         | ["rep", id, kind, d, fnode, min, max|null]
fgrammar:= {"rules": [[name, fnode]…], "gens": [[name, [dep…]]…], "cap": n}
choice  := ["alt", k] | ["rep", k] | ["re", id, leaf] | ["gen", tree]
atree   := ["n", name, sender, recipient, ro, [[id, iter, rep]…], [atree…]]
         | ["t"|"b"|"i", payload, sender, recipient, ro, [[id, iter, rep]…]]

  {"op":"expand","grammar":G,"start":s,"path":[…],"budget":b,"tape":[…],"fuel":n}
        → {"tree": tree|null, "rest": n}
  {"op":"insert","grammar":G,"rep":fnode,"path":[…],"start_rep":k,"nr":k,"tape":[…],"fuel":n,
   "tree":atree (the parent),"index":i (of the ending tree),"id":s,"iter":k}
        → {"tree": tree|null (the copy of the parent, structure only), "rest": n}
  {"op":"replace","tree":atree,"repl":[[path, atree]…],"cur":[…],"fuel":n} → {"tree": atree|null}
  {"op":"delete","tree":atree,"id":s,"iter":k,"nr":k} → {"tree": atree}
  {"op":"split_end"|"prefix","tree":atree,"path":[…]} → {"tree": atree}
  {"op":"collapse","tree":tree} → {"trees":[tree…]}
  {"op":"prime","grammar":G(IR json of Driver/IRJson),"init":null|[[d|null…]…]}
        → {"status":"done"|"raised"|"fuel","dist":[[d|null…]…],"bound":n}
        (`Grammar.prime()` of Model/Prime.lean from the constructor state (`init` null) or from the given state;
         one list per rule, nodes in pre-order, null = inf; iteration bound `primeBound |worklist|`)
  {"op":"primed","grammar":G} → {"primed":bool}   (`primedB`: the annotations are what prime() computes)
  {"op":"expand_bound", …as "expand" without "fuel"…} → {"status":"ok"|"stuck"|"fuel","tree":tree|null,"rest":n,"fuel":n}
        (`fuzzStartF` with the recursion bound `G.fuelFor tape` of C01_expand_terminates_partial)
  {"op":"crossover","p1":atree,"p2":atree,"sym":s,"k1":n,"k2":n,"fuel":n}
        → {"status":"nothing"|"stuck"|"ok","c1":atree|null,"c2":atree|null}          (Model/Evo.lean `crossover`)
  {"op":"mutate","grammar":G,"tree":atree,"failing":[path…],"max_nodes":n,"i":n,"j":n,"tape":[…],"fuel":n}
        → {"status":"same"|"stuck"|"ok","tree":tree|null,"rest":n,"point":path|null,"fuzz_args":[start,[path…],budget]|null}
  {"op":"fix","grammar":G,"tree":atree,"sugg":sugg|null,"tape":[…],"fuel":n}
        → {"status":"ok"|"stuck","tree":tree|null,"fixes":n,"rest":n,"paths":[path…]}
        sugg := ["nop"] | ["given",[[path,atree]…]] | ["all",[sugg…]] | ["first",[sugg…]]
              | ["rep",ending,startVal,endVal,boundLen,goalLen,iter,id,allowFull,fnode]
  {"op":"valid","grammar":G(IR json of Driver/IRJson),"oracle":O,"tree":tree} → {"valid":bool,"bad":path|null}
        (the normalising checker `validFast`, proved ↔ `Valid` in Proofs/IRFast.lean)
-/
import Driver.IRJson
import Model.Fuzz
import Model.IRFast
import Model.FuzzT
import Model.Evo
open Lean FV FV.Drv

namespace FV.Drv

def intOf (j : Json) : Except String Int := j.getInt?

def optNat (j : Json) : Except String (Option Nat) :=
  match j with
  | Json.null => pure none
  | m => do pure (some (← m.getNat?))

partial def fnodeOf (j : Json) : Except String FNode := do
  let a ← j.getArr?
  let tag ← (a[0]?.getD Json.null).getStr?
  let el (i : Nat) : Json := a[i]?.getD Json.null
  match tag with
  | "lit" => return .term (.lit (← leafOfJson (el 1))) (← (el 2).getNat?) (← (el 3).getNat?)
  | "re" => return .term (.regex (← (el 1).getNat?)) (← (el 2).getNat?) (← (el 3).getNat?)
  | "nt" => return .nt (← (el 1).getStr?) (optStr (el 2)) (optStr (el 3)) (← (el 4).getNat?)
  | "alt" =>
    let ns ← (← (el 3).getArr?).toList.mapM fnodeOf
    return .alt (← (el 1).getStr?) (← (el 2).getNat?) ns
  | "cat" =>
    let ns ← (← (el 3).getArr?).toList.mapM fnodeOf
    return .cat (← (el 1).getStr?) (← (el 2).getNat?) ns
  | "rep" =>
    let n ← fnodeOf (el 4)
    return .rep (← (el 1).getStr?) (← kindOf (← (el 2).getStr?)) (← (el 3).getNat?) n
      (← (el 5).getNat?) (← optNat (el 6))
  | _ => throw s!"bad fnode tag {tag}"

def strList (j : Json) : Except String (List String) := do
  (← j.getArr?).toList.mapM (fun x => x.getStr?)

def fgrammarOf (j : Json) : Except String FGrammar := do
  let rs ← (← j.getObjVal? "rules").getArr?
  let rules ← rs.toList.mapM (fun r => do
    let a ← r.getArr?
    pure ((← (a[0]?.getD Json.null).getStr?), (← fnodeOf (a[1]?.getD Json.null))))
  let gs ← (← j.getObjVal? "gens").getArr?
  let gens ← gs.toList.mapM (fun r => do
    let a ← r.getArr?
    pure ((← (a[0]?.getD Json.null).getStr?), (← strList (a[1]?.getD Json.null))))
  return { rules := rules, gens := gens, cap := (← (← j.getObjVal? "cap").getNat?) }

def choiceOf (j : Json) : Except String Choice := do
  let a ← j.getArr?
  let tag ← (a[0]?.getD Json.null).getStr?
  let el (i : Nat) : Json := a[i]?.getD Json.null
  match tag with
  | "alt" => return .alt (← (el 1).getNat?)
  | "rep" => return .rep (← (el 1).getNat?)
  | "re" => return .regex (← (el 1).getNat?) (← leafOfJson (el 2))
  | "gen" => return .gen (← treeOf (el 1))
  | _ => throw s!"bad choice tag {tag}"

def tagOf (j : Json) : Except String Tag := do
  let a ← j.getArr?
  pure ((← (a[0]?.getD Json.null).getStr?), (← (a[1]?.getD Json.null).getNat?), (← (a[2]?.getD Json.null).getNat?))

def boolOf (j : Json) : Except String Bool :=
  match j with
  | Json.bool b => pure b
  | _ => throw "expected a boolean"

partial def atreeOf (j : Json) : Except String ATree := do
  let a ← j.getArr?
  let tag ← (a[0]?.getD Json.null).getStr?
  let el (i : Nat) : Json := a[i]?.getD Json.null
  match tag with
  | "n" =>
    let ks ← (← (el 6).getArr?).toList.mapM atreeOf
    let o ← (← (el 5).getArr?).toList.mapM tagOf
    return .mk (.nt (← (el 1).getStr?)) (optStr (el 2)) (optStr (el 3)) (← boolOf (el 4)) o ks
  | "s" => throw "slice trees are not part of this model"
  | _ =>
    let l ← leafOf tag (el 1)
    let o ← (← (el 5).getArr?).toList.mapM tagOf
    return .mk (.term l) (optStr (el 2)) (optStr (el 3)) (← boolOf (el 4)) o []

def jTag (t : Tag) : Json :=
  Json.arr #[Json.str t.1, Json.num (JsonNumber.fromNat t.2.1), Json.num (JsonNumber.fromNat t.2.2)]

partial def jATree : ATree → Json
  | .mk (.nt n) a r ro o ks =>
    Json.arr #["n", Json.str n, jOptStr a, jOptStr r, Json.bool ro, Json.arr (o.map jTag).toArray,
      Json.arr (ks.map jATree).toArray]
  | .mk (.term l) a r ro o _ =>
    match jLeaf l with
    | Json.arr x => Json.arr #[x[0]?.getD Json.null, x[1]?.getD Json.null, jOptStr a, jOptStr r, Json.bool ro,
        Json.arr (o.map jTag).toArray]
    | other => other
  | .mk .slice _ _ _ _ ks => Json.arr #["s", Json.arr (ks.map jATree).toArray]

partial def suggOf (j : Json) : Except String Sugg := do
  let a ← j.getArr?
  let tag ← (a[0]?.getD Json.null).getStr?
  let el (i : Nat) : Json := a[i]?.getD Json.null
  match tag with
  | "nop" => return .nop
  | "given" =>
    let repl ← (← (el 1).getArr?).toList.mapM (fun e => do
      let x ← e.getArr?
      pure ((← natArr (x[0]?.getD Json.null)), (← atreeOf (x[1]?.getD Json.null))))
    return .given repl
  | "all" => return .all (← (← (el 1).getArr?).toList.mapM suggOf)
  | "first" => return .first (← (← (el 1).getArr?).toList.mapM suggOf)
  | "rep" =>
    return .rep (← natArr (el 1)) (← natArr (el 2)) (← natArr (el 3)) (← (el 4).getNat?) (← (el 5).getNat?)
      (← (el 6).getNat?) (← (el 7).getStr?) (← boolOf (el 8)) (← fnodeOf (el 9))
  | _ => throw s!"bad suggestion tag {tag}"

mutual
/-- all positions of a rule in pre-order (terminals included) -/
def prePos : Node → List Nat → List (List Nat)
  | .term _, p => [p]
  | .nt _ _ _, p => [p]
  | .alt _ ns, p => p :: prePosL ns p 0
  | .cat _ ns, p => p :: prePosL ns p 0
  | .rep _ _ n _ _, p => p :: prePos n (p ++ [0])
def prePosL : List Node → List Nat → Nat → List (List Nat)
  | [], _, _ => []
  | n :: ns, p, i => prePos n (p ++ [i]) ++ prePosL ns p (i + 1)
end

def allPos (G : Grammar) : List (List Pos) :=
  (G.rules.zipIdx).map (fun rk => (prePos rk.1.2 []).map (fun p => (rk.2, p)))

def jDist : Dist → Json
  | none => Json.null
  | some d => Json.num (JsonNumber.fromNat d)

def distOf (j : Json) : Except String Dist :=
  match j with
  | Json.null => pure none
  | m => do pure (some (← m.getNat?))

end FV.Drv

def handle (j : Json) : Except String Json := do
  let op ← j.getObjValAs? String "op"
  match op with
  | "expand" =>
    let G ← fgrammarOf (← j.getObjVal? "grammar")
    let start ← j.getObjValAs? String "start"
    let path ← strList (← j.getObjVal? "path")
    let b ← intOf (← j.getObjVal? "budget")
    let tape ← (← (← j.getObjVal? "tape").getArr?).toList.mapM choiceOf
    let fuel ← (← j.getObjVal? "fuel").getNat?
    match fuzzStart G fuel start path b tape with
    | some (t, rest) => return Json.mkObj [("tree", jTree t), ("rest", Json.num (JsonNumber.fromNat rest.length))]
    | none => return Json.mkObj [("tree", Json.null), ("rest", Json.num 0)]
  | "insert" =>
    let G ← fgrammarOf (← j.getObjVal? "grammar")
    let rep ← fnodeOf (← j.getObjVal? "rep")
    let path ← strList (← j.getObjVal? "path")
    let startRep ← (← j.getObjVal? "start_rep").getNat?
    let nr ← (← j.getObjVal? "nr").getNat?
    let tape ← (← (← j.getObjVal? "tape").getArr?).toList.mapM choiceOf
    let fuel ← (← j.getObjVal? "fuel").getNat?
    let parent ← atreeOf (← j.getObjVal? "tree")
    let idx ← (← j.getObjVal? "index").getNat?
    let id ← j.getObjValAs? String "id"
    let iter ← (← j.getObjVal? "iter").getNat?
    match rep with
    | .rep _ _ d n mn _ =>
      match insertFuzz G fuel n mn d path startRep nr tape with
      | some (f, rest) =>
        let t' := insertKids id iter idx (ATree.ofTreeL f) parent
        return Json.mkObj [("tree", jTree t'.erase), ("rest", Json.num (JsonNumber.fromNat rest.length))]
      | none => return Json.mkObj [("tree", Json.null), ("rest", Json.num 0)]
    | _ => throw "insert: not a repetition node"
  | "replace" =>
    let t ← atreeOf (← j.getObjVal? "tree")
    let repl ← (← (← j.getObjVal? "repl").getArr?).toList.mapM (fun e => do
      let a ← e.getArr?
      pure ((← natArr (a[0]?.getD Json.null)), (← atreeOf (a[1]?.getD Json.null))))
    let cur ← natArr (← j.getObjVal? "cur")
    let fuel ← (← j.getObjVal? "fuel").getNat?
    match replM repl fuel cur t with
    | some t' => return Json.mkObj [("tree", jATree t')]
    | none => return Json.mkObj [("tree", Json.null)]
  | "delete" =>
    let t ← atreeOf (← j.getObjVal? "tree")
    let id ← j.getObjValAs? String "id"
    let iter ← (← j.getObjVal? "iter").getNat?
    let nr ← (← j.getObjVal? "nr").getNat?
    return Json.mkObj [("tree", jATree (deleteReps id iter nr t))]
  | "split_end" =>
    let t ← atreeOf (← j.getObjVal? "tree")
    let p ← natArr (← j.getObjVal? "path")
    return Json.mkObj [("tree", jATree (splitEnd t p))]
  | "prefix" =>
    let t ← atreeOf (← j.getObjVal? "tree")
    let p ← natArr (← j.getObjVal? "path")
    return Json.mkObj [("tree", jATree (prefixOf t p))]
  | "valid" =>
    let G ← grammarOf (← j.getObjVal? "grammar")
    let R ← oracleOf (← j.getObjVal? "oracle")
    let t ← treeOf (← j.getObjVal? "tree")
    let bad := match firstBadFast G R t with
      | none => Json.null
      | some p => jNats p
    return Json.mkObj [("valid", Json.bool (validFast G R t)), ("bad", bad)]
  | "prime" =>
    let G ← grammarOf (← j.getObjVal? "grammar")
    let pos := allPos G
    let s0 : Pos → Dist ← match (← j.getObjVal? "init") with
      | Json.null => pure (initAt G)
      | ij => do
        let rows ← (← ij.getArr?).toList.mapM (fun r => do (← r.getArr?).toList.mapM distOf)
        if rows.length != pos.length || (rows.zip pos).any (fun rp => rp.1.length != rp.2.length) then
          throw "prime: init does not have the shape of the grammar"
        let tbl : List (Pos × Dist) := (pos.zip rows).flatMap (fun pr => pr.1.zip pr.2)
        pure (fun p => match tbl.find? (fun e => e.1 == p) with
          | some e => e.2
          | none => some 1)
    let wl := worklist G
    let bound := primeBound wl.length
    let out := fun (st : String) (s : Pos → Dist) =>
      Json.mkObj [("status", Json.str st),
        ("dist", Json.arr (pos.map (fun row => Json.arr (row.map (fun p => jDist (s p))).toArray)).toArray),
        ("bound", Json.num (JsonNumber.fromNat bound))]
    match primeLoop (kindAt G) bound s0 wl with
    | .done s => return out "done" s
    | .raised => return out "raised" s0
    | .fuel => return out "fuel" s0
  | "primed" =>
    let G ← fgrammarOf (← j.getObjVal? "grammar")
    return Json.mkObj [("primed", Json.bool (primedB G))]
  | "expand_bound" =>
    let G ← fgrammarOf (← j.getObjVal? "grammar")
    let start ← j.getObjValAs? String "start"
    let path ← strList (← j.getObjVal? "path")
    let b ← intOf (← j.getObjVal? "budget")
    let tape ← (← (← j.getObjVal? "tape").getArr?).toList.mapM choiceOf
    let fuel := G.fuelFor tape
    let jf := Json.num (JsonNumber.fromNat fuel)
    match fuzzStartF G fuel start path b tape with
    | .ok (t, rest) => return Json.mkObj [("status", "ok"), ("tree", jTree t),
        ("rest", Json.num (JsonNumber.fromNat rest.length)), ("fuel", jf)]
    | .stuck => return Json.mkObj [("status", "stuck"), ("tree", Json.null), ("rest", Json.num 0), ("fuel", jf)]
    | .fuel => return Json.mkObj [("status", "fuel"), ("tree", Json.null), ("rest", Json.num 0), ("fuel", jf)]
  | "crossover" =>
    let p1 ← atreeOf (← j.getObjVal? "p1")
    let p2 ← atreeOf (← j.getObjVal? "p2")
    let sym ← j.getObjValAs? String "sym"
    let k1 ← (← j.getObjVal? "k1").getNat?
    let k2 ← (← j.getObjVal? "k2").getNat?
    let fuel ← (← j.getObjVal? "fuel").getNat?
    match crossover fuel p1 p2 sym k1 k2 with
    | .nothing => return Json.mkObj [("status", "nothing"), ("c1", Json.null), ("c2", Json.null)]
    | .stuck => return Json.mkObj [("status", "stuck"), ("c1", Json.null), ("c2", Json.null)]
    | .ok c1 c2 => return Json.mkObj [("status", "ok"), ("c1", jATree c1), ("c2", jATree c2)]
  | "mutate" =>
    let G ← fgrammarOf (← j.getObjVal? "grammar")
    let ind ← atreeOf (← j.getObjVal? "tree")
    let failing ← (← (← j.getObjVal? "failing").getArr?).toList.mapM natArr
    let maxNodes ← intOf (← j.getObjVal? "max_nodes")
    let i ← (← j.getObjVal? "i").getNat?
    let jj ← (← j.getObjVal? "j").getNat?
    let tape ← (← (← j.getObjVal? "tape").getArr?).toList.mapM choiceOf
    let fuel ← (← j.getObjVal? "fuel").getNat?
    let point := mutPoint ind failing i jj
    let args := match point with
      | some q => match ind.subAt q with
        | some node =>
          let a := mutFuzzArgs ind q node maxNodes
          Json.arr #[Json.str a.1, Json.arr (a.2.1.map Json.str).toArray, Json.num (JsonNumber.fromInt a.2.2)]
        | none => Json.null
      | none => Json.null
    let jp := match point with
      | some q => jNats q
      | none => Json.null
    match mutate G fuel fuel ind failing maxNodes i jj tape with
    | .same => return Json.mkObj [("status", "same"), ("tree", Json.null), ("rest", Json.num 0), ("point", Json.null),
        ("fuzz_args", Json.null)]
    | .stuck => return Json.mkObj [("status", "stuck"), ("tree", Json.null), ("rest", Json.num 0), ("point", jp),
        ("fuzz_args", args)]
    | .ok m rest => return Json.mkObj [("status", "ok"), ("tree", jTree m.erase),
        ("rest", Json.num (JsonNumber.fromNat rest.length)), ("point", jp), ("fuzz_args", args)]
  | "fix" =>
    let G ← fgrammarOf (← j.getObjVal? "grammar")
    let ind ← atreeOf (← j.getObjVal? "tree")
    let sugg ← match (← j.getObjVal? "sugg") with
      | Json.null => pure none
      | sj => do pure (some (← suggOf sj))
    let tape ← (← (← j.getObjVal? "tape").getArr?).toList.mapM choiceOf
    let fuel ← (← j.getObjVal? "fuel").getNat?
    let paths := match sugg with
      | some s => match getRepl G fuel ind s tape with
        | some (repl, _) => Json.arr (repl.map (fun e => jNats e.1)).toArray
        | none => Json.null
      | none => Json.arr #[]
    match fixIndividual G fuel ind sugg tape with
    | some ((ind', n), rest) => return Json.mkObj [("status", "ok"), ("tree", jTree ind'.erase),
        ("fixes", Json.num (JsonNumber.fromNat n)), ("rest", Json.num (JsonNumber.fromNat rest.length)), ("paths", paths)]
    | none => return Json.mkObj [("status", "stuck"), ("tree", Json.null), ("fixes", Json.num 0), ("rest", Json.num 0),
        ("paths", paths)]
  | "collapse" =>
    let t ← treeOf (← j.getObjVal? "tree")
    return Json.mkObj [("trees", Json.arr ((collapse t).map jTree).toArray)]
  | _ => throw s!"unknown op {op}"

def main : IO Unit := run handle
