/-
Driver for the budgeted expansion and the tree-editing operators of `Model/Fuzz.lean`.

fnode   := ["lit", leaf, d, key] | ["re", id, d, key] | ["nt", name, sender|null, recipient|null, d]
         | ["alt", id, d, [fnode…]] | ["cat", id, d, [fnode…]]
         | ["rep", id, kind, d, fnode, min, max|null]
fgrammar:= {"rules": [[name, fnode]…], "gens": [[name, [dep…]]…], "cap": n}
choice  := ["alt", k] | ["rep", k] | ["re", id, leaf] | ["gen", tree]
atree   := ["n", name, sender, recipient, ro, [[id, iter, rep]…], [atree…]]
         | ["t"|"b"|"i", payload, sender, recipient, ro, [[id, iter, rep]…]]

  {"op":"expand","grammar":G,"start":s,"path":[…],"budget":b,"tape":[…],"fuel":n}
        → {"tree": tree|null, "rest": n}
  {"op":"insert","grammar":G,"rep":fnode,"path":[…],"start_rep":k,"nr":k,"tape":[…],"fuel":n,
   "tree":atree (the parent),"index":i (of the ending tree),"id":s,"iter":k}
        → {"tree": tree|null (the copy of the parent, structure only), "rest": n}
  {"op":"replace","tree":atree,"repl":[[path, atree]…],"cur":[…],"fuel":n} → {"tree": atree|null}
  {"op":"delete","tree":atree,"id":s,"iter":k,"nr":k} → {"tree": atree}
  {"op":"split_end"|"prefix","tree":atree,"path":[…]} → {"tree": atree}
  {"op":"collapse","tree":tree} → {"trees":[tree…]}
  {"op":"valid","grammar":G(IR json of Driver/IRJson),"oracle":O,"tree":tree} → {"valid":bool,"bad":path|null}
        (the normalising checker `validFast`, proved ↔ `Valid` in Proofs/IRFast.lean)
-/
import Driver.IRJson
import Model.Fuzz
import Model.IRFast
open Lean FV FV.Drv

namespace FV.Drv

def intOf (j : Json) : Except String Int := j.getInt?

def optNat (j : Json) : Except String (Option Nat) :=
  match j with
  | Json.null => pure none
  | m => do pure (some (← m.getNat?))

partial def fnodeOf (j : Json) : Except String FNode := do
  let a ← j.getArr?
  let tag ← (a[0]?.getD Json.null).getStr?
  let el (i : Nat) : Json := a[i]?.getD Json.null
  match tag with
  | "lit" => return .term (.lit (← leafOfJson (el 1))) (← (el 2).getNat?) (← (el 3).getNat?)
  | "re" => return .term (.regex (← (el 1).getNat?)) (← (el 2).getNat?) (← (el 3).getNat?)
  | "nt" => return .nt (← (el 1).getStr?) (optStr (el 2)) (optStr (el 3)) (← (el 4).getNat?)
  | "alt" =>
    let ns ← (← (el 3).getArr?).toList.mapM fnodeOf
    return .alt (← (el 1).getStr?) (← (el 2).getNat?) ns
  | "cat" =>
    let ns ← (← (el 3).getArr?).toList.mapM fnodeOf
    return .cat (← (el 1).getStr?) (← (el 2).getNat?) ns
  | "rep" =>
    let n ← fnodeOf (el 4)
    return .rep (← (el 1).getStr?) (← kindOf (← (el 2).getStr?)) (← (el 3).getNat?) n
      (← (el 5).getNat?) (← optNat (el 6))
  | _ => throw s!"bad fnode tag {tag}"

def strList (j : Json) : Except String (List String) := do
  (← j.getArr?).toList.mapM (fun x => x.getStr?)

def fgrammarOf (j : Json) : Except String FGrammar := do
  let rs ← (← j.getObjVal? "rules").getArr?
  let rules ← rs.toList.mapM (fun r => do
    let a ← r.getArr?
    pure ((← (a[0]?.getD Json.null).getStr?), (← fnodeOf (a[1]?.getD Json.null))))
  let gs ← (← j.getObjVal? "gens").getArr?
  let gens ← gs.toList.mapM (fun r => do
    let a ← r.getArr?
    pure ((← (a[0]?.getD Json.null).getStr?), (← strList (a[1]?.getD Json.null))))
  return { rules := rules, gens := gens, cap := (← (← j.getObjVal? "cap").getNat?) }

def choiceOf (j : Json) : Except String Choice := do
  let a ← j.getArr?
  let tag ← (a[0]?.getD Json.null).getStr?
  let el (i : Nat) : Json := a[i]?.getD Json.null
  match tag with
  | "alt" => return .alt (← (el 1).getNat?)
  | "rep" => return .rep (← (el 1).getNat?)
  | "re" => return .regex (← (el 1).getNat?) (← leafOfJson (el 2))
  | "gen" => return .gen (← treeOf (el 1))
  | _ => throw s!"bad choice tag {tag}"

def tagOf (j : Json) : Except String Tag := do
  let a ← j.getArr?
  pure ((← (a[0]?.getD Json.null).getStr?), (← (a[1]?.getD Json.null).getNat?), (← (a[2]?.getD Json.null).getNat?))

def boolOf (j : Json) : Except String Bool :=
  match j with
  | Json.bool b => pure b
  | _ => throw "expected a boolean"

partial def atreeOf (j : Json) : Except String ATree := do
  let a ← j.getArr?
  let tag ← (a[0]?.getD Json.null).getStr?
  let el (i : Nat) : Json := a[i]?.getD Json.null
  match tag with
  | "n" =>
    let ks ← (← (el 6).getArr?).toList.mapM atreeOf
    let o ← (← (el 5).getArr?).toList.mapM tagOf
    return .mk (.nt (← (el 1).getStr?)) (optStr (el 2)) (optStr (el 3)) (← boolOf (el 4)) o ks
  | "s" => throw "slice trees are not part of this model"
  | _ =>
    let l ← leafOf tag (el 1)
    let o ← (← (el 5).getArr?).toList.mapM tagOf
    return .mk (.term l) (optStr (el 2)) (optStr (el 3)) (← boolOf (el 4)) o []

def jTag (t : Tag) : Json :=
  Json.arr #[Json.str t.1, Json.num (JsonNumber.fromNat t.2.1), Json.num (JsonNumber.fromNat t.2.2)]

partial def jATree : ATree → Json
  | .mk (.nt n) a r ro o ks =>
    Json.arr #["n", Json.str n, jOptStr a, jOptStr r, Json.bool ro, Json.arr (o.map jTag).toArray,
      Json.arr (ks.map jATree).toArray]
  | .mk (.term l) a r ro o _ =>
    match jLeaf l with
    | Json.arr x => Json.arr #[x[0]?.getD Json.null, x[1]?.getD Json.null, jOptStr a, jOptStr r, Json.bool ro,
        Json.arr (o.map jTag).toArray]
    | other => other
  | .mk .slice _ _ _ _ ks => Json.arr #["s", Json.arr (ks.map jATree).toArray]

end FV.Drv

def handle (j : Json) : Except String Json := do
  let op ← j.getObjValAs? String "op"
  match op with
  | "expand" =>
    let G ← fgrammarOf (← j.getObjVal? "grammar")
    let start ← j.getObjValAs? String "start"
    let path ← strList (← j.getObjVal? "path")
    let b ← intOf (← j.getObjVal? "budget")
    let tape ← (← (← j.getObjVal? "tape").getArr?).toList.mapM choiceOf
    let fuel ← (← j.getObjVal? "fuel").getNat?
    match fuzzStart G fuel start path b tape with
    | some (t, rest) => return Json.mkObj [("tree", jTree t), ("rest", Json.num (JsonNumber.fromNat rest.length))]
    | none => return Json.mkObj [("tree", Json.null), ("rest", Json.num 0)]
  | "insert" =>
    let G ← fgrammarOf (← j.getObjVal? "grammar")
    let rep ← fnodeOf (← j.getObjVal? "rep")
    let path ← strList (← j.getObjVal? "path")
    let startRep ← (← j.getObjVal? "start_rep").getNat?
    let nr ← (← j.getObjVal? "nr").getNat?
    let tape ← (← (← j.getObjVal? "tape").getArr?).toList.mapM choiceOf
    let fuel ← (← j.getObjVal? "fuel").getNat?
    let parent ← atreeOf (← j.getObjVal? "tree")
    let idx ← (← j.getObjVal? "index").getNat?
    let id ← j.getObjValAs? String "id"
    let iter ← (← j.getObjVal? "iter").getNat?
    match rep with
    | .rep _ _ d n mn _ =>
      match insertFuzz G fuel n mn d path startRep nr tape with
      | some (f, rest) =>
        let t' := insertKids id iter idx (ATree.ofTreeL f) parent
        return Json.mkObj [("tree", jTree t'.erase), ("rest", Json.num (JsonNumber.fromNat rest.length))]
      | none => return Json.mkObj [("tree", Json.null), ("rest", Json.num 0)]
    | _ => throw "insert: not a repetition node"
  | "replace" =>
    let t ← atreeOf (← j.getObjVal? "tree")
    let repl ← (← (← j.getObjVal? "repl").getArr?).toList.mapM (fun e => do
      let a ← e.getArr?
      pure ((← natArr (a[0]?.getD Json.null)), (← atreeOf (a[1]?.getD Json.null))))
    let cur ← natArr (← j.getObjVal? "cur")
    let fuel ← (← j.getObjVal? "fuel").getNat?
    match replM repl fuel cur t with
    | some t' => return Json.mkObj [("tree", jATree t')]
    | none => return Json.mkObj [("tree", Json.null)]
  | "delete" =>
    let t ← atreeOf (← j.getObjVal? "tree")
    let id ← j.getObjValAs? String "id"
    let iter ← (← j.getObjVal? "iter").getNat?
    let nr ← (← j.getObjVal? "nr").getNat?
    return Json.mkObj [("tree", jATree (deleteReps id iter nr t))]
  | "split_end" =>
    let t ← atreeOf (← j.getObjVal? "tree")
    let p ← natArr (← j.getObjVal? "path")
    return Json.mkObj [("tree", jATree (splitEnd t p))]
  | "prefix" =>
    let t ← atreeOf (← j.getObjVal? "tree")
    let p ← natArr (← j.getObjVal? "path")
    return Json.mkObj [("tree", jATree (prefixOf t p))]
  | "valid" =>
    let G ← grammarOf (← j.getObjVal? "grammar")
    let R ← oracleOf (← j.getObjVal? "oracle")
    let t ← treeOf (← j.getObjVal? "tree")
    let bad := match firstBadFast G R t with
      | none => Json.null
      | some p => jNats p
    return Json.mkObj [("valid", Json.bool (validFast G R t)), ("bad", bad)]
  | "collapse" =>
    let t ← treeOf (← j.getObjVal? "tree")
    return Json.mkObj [("trees", Json.arr ((collapse t).map jTree).toArray)]
  | _ => throw s!"unknown op {op}"

def main : IO Unit := run handle
