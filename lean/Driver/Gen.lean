/-
Driver for the generator model (`Model/Gen.lean`).

gtree := ["l", [code units], ro] | ["n", sym, ro, [gtree…], [gtree… (sources)]]
spec  := {"gens": [[sym, [param…]]…]}
log   := [[sym, [[units]…], [units]]…]

  {"op":"inv","spec":S,"log":L,"path":[…],"tree":T} → {"ok":bool,"bad":[[steps…], verdict]|null,"srcok":bool}
        steps: 2*i = child i, 2*i+1 = source i; verdict 1 = text not a logged return value for the recorded
        arguments, 2 = generated children writable, 3 = argument missing
  {"op":"generate","spec":S,"sym":s,"srcs":[T…],"value":[units],"parsed":[T…]|null}
        → {"tree":T,"entry":[sym,args,value]} | {"err":"noGenerator"|"missingParam"|"parseError"}
  {"op":"fuzzgen", …same…}    the generator branch of NonTerminalNode.fuzz
  {"op":"regen", …same…, "ro":bool}   regen_children branch, marking as the CURRENT source does
        (Generated.regenMarksReadOnly)
  {"op":"replace","tree":T,"path":[…],"repl":T} → {"tree":T}
  {"op":"replace_multiple","spec":S+{"deps":[[sym,[dep…]]…],"rules":[sym…]},"tree":T,"repl":[[[steps…],T]…],
   "log":L (calls before, oldest first),"values":[[units]|null…] (what the generator expression returned at the
   k-th call of this operation; null = it raised),"parses":[[sym,[units],[T…]|null]…] (the real parser's answers),
   "fuel":n}
        → {"tree":T,"log":L' (oldest first, the calls of this operation only),"installs":[[path syms, T]…],
           "inv0":bool,"srcok0":bool (the input tree, with the calls before),
           "inv":bool,"srcok":bool (the result, with all calls),"installs_ok":bool}
        | {"err":kind}
        the whole of DerivationTree.replace_multiple (Model/GenReplace.lean `replaceTop`)
  {"op":"srcok","spec":S,"path":[…],"tree":T} → {"ok":bool}
-/
import Driver.Common
import Model.GenReplace
import Generated.GenFlags
open Lean FV FV.Drv FV.Gen

namespace FV.Drv

def boolOfJ (j : Json) : Except String Bool :=
  match j with
  | Json.bool b => pure b
  | _ => throw "expected a boolean"

partial def gtreeOf (j : Json) : Except String GTree := do
  let a ← j.getArr?
  let tag ← (a[0]?.getD Json.null).getStr?
  let el (i : Nat) : Json := a[i]?.getD Json.null
  match tag with
  | "l" => return .leaf (← natArr (el 1)) (← boolOfJ (el 2))
  | "n" =>
    let ks ← (← (el 3).getArr?).toList.mapM gtreeOf
    let ss ← (← (el 4).getArr?).toList.mapM gtreeOf
    return .node (← (el 1).getStr?) (← boolOfJ (el 2)) ks ss
  | _ => throw s!"bad gtree tag {tag}"

partial def jGTree : GTree → Json
  | .leaf v r => Json.arr #["l", jNats v, Json.bool r]
  | .node s r ks ss => Json.arr #["n", Json.str s, Json.bool r, Json.arr (ks.map jGTree).toArray,
      Json.arr (ss.map jGTree).toArray]

def specOf (j : Json) : Except String Spec := do
  let gs ← (← j.getObjVal? "gens").getArr?
  let gens ← gs.toList.mapM (fun r => do
    let a ← r.getArr?
    let ps ← (← (a[1]?.getD Json.null).getArr?).toList.mapM (fun x => x.getStr?)
    pure ((← (a[0]?.getD Json.null).getStr?), ps))
  let pairs (key : String) : Except String (List (String × List String)) :=
    match j.getObjVal? key with
    | .error _ => pure []
    | .ok v => do
      (← v.getArr?).toList.mapM (fun r => do
        let a ← r.getArr?
        let ps ← (← (a[1]?.getD Json.null).getArr?).toList.mapM (fun x => x.getStr?)
        pure ((← (a[0]?.getD Json.null).getStr?), ps))
  let rules ← match j.getObjVal? "rules" with
    | .error _ => pure []
    | .ok v => do (← v.getArr?).toList.mapM (fun x => x.getStr?)
  return { gens := gens, deps := ← pairs "deps", rules := rules }

def entryOf (j : Json) : Except String LogEntry := do
  let a ← j.getArr?
  let args ← (← (a[1]?.getD Json.null).getArr?).toList.mapM natArr
  return ⟨← (a[0]?.getD Json.null).getStr?, args, ← natArr (a[2]?.getD Json.null)⟩

def jEntry (e : LogEntry) : Json :=
  Json.arr #[Json.str e.sym, Json.arr (e.args.map jNats).toArray, jNats e.value]

def jErr' : FV.Gen.Err → Json
  | .noGenerator => Json.mkObj [("err", "noGenerator")]
  | .missingParam => Json.mkObj [("err", "missingParam")]
  | .parseError => Json.mkObj [("err", "parseError")]
  | .genRaised => Json.mkObj [("err", "genRaised")]
  | .missingConverter => Json.mkObj [("err", "missingConverter")]
  | .undefinedSymbol => Json.mkObj [("err", "undefinedSymbol")]
  | .topoError => Json.mkObj [("err", "topoError")]
  | .notNonterminal => Json.mkObj [("err", "notNonterminal")]
  | .fuel => Json.mkObj [("err", "fuel")]

end FV.Drv

def handle (j : Json) : Except String Json := do
  let op ← j.getObjValAs? String "op"
  match op with
  | "inv" =>
    let S ← specOf (← j.getObjVal? "spec")
    let log ← (← (← j.getObjVal? "log").getArr?).toList.mapM entryOf
    let path ← (← (← j.getObjVal? "path").getArr?).toList.mapM (fun x => x.getStr?)
    let t ← gtreeOf (← j.getObjVal? "tree")
    let bad := match firstBad S log path t with
      | none => Json.null
      | some (p, v) => Json.arr #[jNats p, Json.num (JsonNumber.fromNat v)]
    return Json.mkObj [("ok", Json.bool (genInvB S log path t)), ("bad", bad),
      ("srcok", Json.bool (srcOKB S path t))]
  | "generate" | "fuzzgen" | "regen" =>
    let S ← specOf (← j.getObjVal? "spec")
    let s ← j.getObjValAs? String "sym"
    let srcs ← (← (← j.getObjVal? "srcs").getArr?).toList.mapM gtreeOf
    let v ← natArr (← j.getObjVal? "value")
    let parsed ← match (← j.getObjVal? "parsed") with
      | Json.null => pure none
      | x => do pure (some (← (← x.getArr?).toList.mapM gtreeOf))
    -- the real parser's answer for exactly this (symbol, value); anything else is not a call of this run
    let parse : Parser := fun s' v' => if s' == s && v' == v then parsed else none
    let res ← match op with
      | "generate" => pure (generate S parse s srcs v)
      | "fuzzgen" => pure (fuzzGen S parse s srcs v)
      | _ => do
        let ro ← boolOfJ (← j.getObjVal? "ro")
        pure (regen Generated.regenMarksReadOnly S parse s ro srcs v)
    match res with
    | .ok (t, e) => return Json.mkObj [("tree", jGTree t), ("entry", jEntry e)]
    | .error e => return jErr' e
  | "replace" =>
    let t ← gtreeOf (← j.getObjVal? "tree")
    let p ← natArr (← j.getObjVal? "path")
    let u ← gtreeOf (← j.getObjVal? "repl")
    return Json.mkObj [("tree", jGTree (replaceAt t p u))]
  | "srcok" =>
    let S ← specOf (← j.getObjVal? "spec")
    let path ← (← (← j.getObjVal? "path").getArr?).toList.mapM (fun x => x.getStr?)
    let t ← gtreeOf (← j.getObjVal? "tree")
    return Json.mkObj [("ok", Json.bool (srcOKB S path t))]
  | "replace_multiple" =>
    let S ← specOf (← j.getObjVal? "spec")
    let t ← gtreeOf (← j.getObjVal? "tree")
    let repl ← (← (← j.getObjVal? "repl").getArr?).toList.mapM (fun r => do
      let a ← r.getArr?
      pure ((← natArr (a[0]?.getD Json.null)), (← gtreeOf (a[1]?.getD Json.null))))
    let log0 := (← (← (← j.getObjVal? "log").getArr?).toList.mapM entryOf).reverse
    let values ← (← (← j.getObjVal? "values").getArr?).mapM (fun v =>
      match v with
      | Json.null => pure (none : Option Gen.Val)
      | x => do pure (some (← natArr x)))
    let parses ← (← (← j.getObjVal? "parses").getArr?).toList.mapM (fun r => do
      let a ← r.getArr?
      let kids ← match a[2]?.getD Json.null with
        | Json.null => pure none
        | x => do pure (some (← (← x.getArr?).toList.mapM gtreeOf))
      pure ((← (a[0]?.getD Json.null).getStr?), (← natArr (a[1]?.getD Json.null)), kids))
    let fuel ← j.getObjValAs? Nat "fuel"
    let parse : Parser := fun s v =>
      match parses.find? (fun p => p.1 == s && p.2.1 == v) with
      | some p => p.2.2
      | none => none
    let gen : Nat → String → List Gen.Val → Option Gen.Val := fun n _ _ =>
      match values[n - log0.length]? with
      | some v => v
      | none => none
    let E : Env := ⟨S, parse, gen, Generated.deriveMarksParamReadOnly⟩
    match replaceTop E repl fuel t log0 with
    | .error e => return jErr' e
    | .ok o =>
      let calls := (o.log.take (o.log.length - log0.length)).reverse
      let instOk := o.inst.all (fun i => genInvB S o.log i.1 i.2 && srcOKB S i.1 i.2)
      return Json.mkObj [("tree", jGTree o.tree), ("log", Json.arr (calls.map jEntry).toArray),
        ("installs", Json.arr (o.inst.map (fun i => Json.arr #[Json.arr (i.1.map Json.str).toArray, jGTree i.2])).toArray),
        ("inv0", Json.bool (genInvB S log0 [] t)), ("srcok0", Json.bool (srcOKB S [] t)),
        ("inv", Json.bool (genInvB S o.log [] o.tree)), ("srcok", Json.bool (srcOKB S [] o.tree)),
        ("installs_ok", Json.bool instOk)]
  | _ => throw s!"unknown op {op}"

def main : IO Unit := run handle
