/-
Driver for E2 (grammar IR / derivation checker).
  {"op":"valid","grammar":G,"oracle":O,"tree":T}  → {"valid":bool,"bad":path|null}
  {"op":"match","node":N,"oracle":O,"toks":[tok…]} → {"match":bool}
-/
import Driver.IRJson
open Lean FV FV.Drv

def handle (j : Json) : Except String Json := do
  let op ← j.getObjValAs? String "op"
  match op with
  | "valid" =>
    let G ← grammarOf (← j.getObjVal? "grammar")
    let R ← oracleOf (← j.getObjVal? "oracle")
    let t ← treeOf (← j.getObjVal? "tree")
    let bad := match firstBad G R t with
      | none => Json.null
      | some p => jNats p
    return Json.mkObj [("valid", Json.bool (validB G R t)), ("bad", bad)]
  | "match" =>
    let n ← nodeOf (← j.getObjVal? "node")
    let R ← oracleOf (← j.getObjVal? "oracle")
    let ts ← (← (← j.getObjVal? "toks").getArr?).toList.mapM tokOfJson
    return Json.mkObj [("match", Json.bool (matchIR R n ts))]
  | _ => throw s!"unknown op {op}"

def main : IO Unit := run handle
