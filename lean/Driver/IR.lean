/-
Driver for E2 (grammar IR / derivation checker).  Runs the *normalising* derivative matcher
`matchFast` / `validFast` (Model/IRFast.lean), proved equal to `matchIR` / equivalent to `Valid` in
Proofs/IRFast.lean (`matchFast_iff`, `validFast_iff`, `matchFast_eq_matchIR`): the raw derivatives
of Model/IR.lean double in size per token on nested repetitions.
  {"op":"valid","grammar":G,"oracle":O,"tree":T}  → {"valid":bool,"bad":path|null}
  {"op":"match","node":N,"oracle":O,"toks":[tok…]} → {"match":bool}
-/
import Driver.IRJson
import Model.IRFast
open Lean FV FV.Drv

def handle (j : Json) : Except String Json := do
  let op ← j.getObjValAs? String "op"
  match op with
  | "valid" =>
    let G ← grammarOf (← j.getObjVal? "grammar")
    let R ← oracleOf (← j.getObjVal? "oracle")
    let t ← treeOf (← j.getObjVal? "tree")
    let bad := match firstBadFast G R t with
      | none => Json.null
      | some p => jNats p
    return Json.mkObj [("valid", Json.bool (validFast G R t)), ("bad", bad)]
  | "match" =>
    let n ← nodeOf (← j.getObjVal? "node")
    let R ← oracleOf (← j.getObjVal? "oracle")
    let ts ← (← (← j.getObjVal? "toks").getArr?).toList.mapM tokOfJson
    return Json.mkObj [("match", Json.bool (matchFast R n ts))]
  | _ => throw s!"unknown op {op}"

def main : IO Unit := run handle
