/-
JSON codec for the grammar IR (shared by the drivers of E2/E3/E5/E6).

node    := ["lit", leaf] | ["re", id] | ["nt", name, sender|null, recipient|null]
         | ["alt", id, [node…]] | ["cat", id, [node…]]
         | ["rep", id, "braces"|"star"|"plus"|"opt", node, min, max|null]
leaf    := ["t",[codepoints]] | ["b",[bytes]] | ["i",0|1]
grammar := {"rules": [[name, node], …]}
oracle  := [[regexId, leaf], …]        (the pairs for which CPython `re.fullmatch` succeeds)
-/
import Driver.Common
import Model.IR
open Lean

namespace FV.Drv

def leafOfJson (j : Json) : Except String Leaf := do
  let a ← j.getArr?
  let tag ← (a[0]?.getD Json.null).getStr?
  leafOf tag (a[1]?.getD Json.null)

def jLeaf : Leaf → Json
  | .text s => Json.arr #["t", jNats s]
  | .bytes b => Json.arr #["b", jBytes b]
  | .bit b => Json.arr #["i", Json.num (if b then 1 else 0)]

def kindOf (s : String) : Except String RepKind :=
  match s with
  | "braces" => pure .braces
  | "star" => pure .star
  | "plus" => pure .plus
  | "opt" => pure .opt
  | _ => throw s!"bad repetition kind {s}"

partial def nodeOf (j : Json) : Except String Node := do
  let a ← j.getArr?
  let tag ← (a[0]?.getD Json.null).getStr?
  let el (i : Nat) : Json := a[i]?.getD Json.null
  match tag with
  | "lit" => return .term (.lit (← leafOfJson (el 1)))
  | "re" => return .term (.regex (← (el 1).getNat?))
  | "nt" => return .nt (← (el 1).getStr?) (optStr (el 2)) (optStr (el 3))
  | "alt" =>
    let ns ← (← (el 2).getArr?).toList.mapM nodeOf
    return .alt (← (el 1).getStr?) ns
  | "cat" =>
    let ns ← (← (el 2).getArr?).toList.mapM nodeOf
    return .cat (← (el 1).getStr?) ns
  | "rep" =>
    let n ← nodeOf (el 3)
    let mx ← match el 5 with
      | Json.null => pure none
      | m => do pure (some (← m.getNat?))
    return .rep (← (el 1).getStr?) (← kindOf (← (el 2).getStr?)) n (← (el 4).getNat?) mx
  | _ => throw s!"bad node tag {tag}"

def jKind : RepKind → Json
  | .braces => "braces" | .star => "star" | .plus => "plus" | .opt => "opt"

partial def jNode : Node → Json
  | .term (.lit l) => Json.arr #["lit", jLeaf l]
  | .term (.regex i) => Json.arr #["re", Json.num (JsonNumber.fromNat i)]
  | .nt n a r => Json.arr #["nt", Json.str n, jOptStr a, jOptStr r]
  | .alt id ns => Json.arr #["alt", Json.str id, Json.arr (ns.map jNode).toArray]
  | .cat id ns => Json.arr #["cat", Json.str id, Json.arr (ns.map jNode).toArray]
  | .rep id k n mn mx => Json.arr #["rep", Json.str id, jKind k, jNode n,
      Json.num (JsonNumber.fromNat mn),
      match mx with | none => Json.null | some m => Json.num (JsonNumber.fromNat m)]

def grammarOf (j : Json) : Except String Grammar := do
  let rs ← (← j.getObjVal? "rules").getArr?
  let rules ← rs.toList.mapM (fun r => do
    let a ← r.getArr?
    let name ← (a[0]?.getD Json.null).getStr?
    let n ← nodeOf (a[1]?.getD Json.null)
    pure (name, n))
  return { rules := rules }

/-- the regex oracle as a finite table -/
def oracleOf (j : Json) : Except String RegexOracle := do
  let ps ← j.getArr?
  let tbl ← ps.toList.mapM (fun p => do
    let a ← p.getArr?
    let id ← (a[0]?.getD Json.null).getNat?
    let l ← leafOfJson (a[1]?.getD Json.null)
    pure (id, l))
  return fun id l => tbl.any (fun p => p.1 == id && decide (p.2 = l))

def tokOfJson (j : Json) : Except String Tok := do
  let a ← j.getArr?
  let tag ← (a[0]?.getD Json.null).getStr?
  match tag with
  | "nt" => return .ntk (← (a[1]?.getD Json.null).getStr?)
  | _ => return .leaf (← leafOf tag (a[1]?.getD Json.null))

end FV.Drv
