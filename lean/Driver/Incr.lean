/-
Driver for the incremental-parsing scanner layer (`Model/Incremental.lean`), exe `drv_incr`.

  {"op":"scan","mode":"t"|"b","term":T,"k":k,"inc":bool,"idx":n,"pre":[u…],"rest":[u…],"w":w,"len":n,
   "oracle":O}
      → {"outs":[{"col":j,"inc":bool,"idx":n,"pre":[u…],"leaf":leaf|null}…]}
     the scanning branch of `_consume` for one state with the given flags in column k: scan_bit in every
     column, scan_bytes / scan_regex only if k % 8 = 0
  {"op":"run","mode":…,"alts":[[T…]…],"pieces":[[u…]…],"oracle":O}
      → {"steps":[{"parses":[[leaf…]…],"can_continue":bool,"resumable":[{"want":T,"idx":n,"pre":[u…]}…]}…]}
     `new_parse`, then `consume(piece)` for every piece, on the engine for unions of terminal sequences

  T := ["lit",[units]] | ["re",id] | ["bit",0|1]
  O := {"full":[[id,[units],m]…],"part":[[id,[units],q]…]}   (absent pair = no match)
  for "run" the tables must list every (regex of alts, infix of the input) pair that matches; the driver
  cannot tell an absent pair from a forgotten one, so the harness always sends all infixes.
  {"op":"erun","mode":…,"grammar":G,"start":name,"pieces":[[u…]…],"oracle":O,"fuel":n}
      → {"steps":[{"parses":[tree…],"can_continue":bool,"resumable":[{"want":T,"idx":n,"pre":[u…]}…],
                   "halted":bool,"cut":bool,"beginners":bool,"states":n}…]}
     the same on the engine of the REAL closure (`Model/IncrEarley.lean: earleyEngine`, prediction order = order of
     the compiled rule table) for an arbitrary grammar G (IR JSON of `harness/impl/grammar_io.py`); per piece whether
     every column pass came to its end within `fuel` steps, whether the covering cut fired in one of them and
     whether a `*` / `+` right-recursion state was alive in one of the closed columns (the three conditions under
     which `Props/C13.lean` proves the laws of the closure), and the number of states in the table
-/
import Driver.IRJson
import Model.Incremental
import Model.IncrEarley
open Lean FV FV.Drv FV.Incr

def modeOf (j : Json) : Except String Mode := do
  match (← j.getStr?) with
  | "t" => pure .text
  | "b" => pure .bytes
  | s => throw s!"bad mode {s}"

def ttermOf (j : Json) : Except String TTerm := do
  let a ← j.getArr?
  let tag ← (a[0]?.getD Json.null).getStr?
  let x := a[1]?.getD Json.null
  match tag with
  | "lit" => return .lit (← natArr x)
  | "re" => return .regex (← x.getNat?)
  | "bit" => return .bit ((← x.getNat?) == 1)
  | _ => throw s!"bad terminal tag {tag}"

def jTTerm : TTerm → Json
  | .lit u => Json.arr #["lit", jNats u]
  | .regex r => Json.arr #["re", Json.num (JsonNumber.fromNat r)]
  | .bit b => Json.arr #["bit", Json.num (if b then 1 else 0)]

def tableOf (j : Json) : Except String (List (Nat × List Nat × Nat)) := do
  let rows ← j.getArr?
  rows.toList.mapM (fun r => do
    let a ← r.getArr?
    let id ← (a[0]?.getD Json.null).getNat?
    let us ← natArr (a[1]?.getD Json.null)
    let m ← (a[2]?.getD Json.null).getNat?
    pure (id, us, m))

def lookup (tbl : List (Nat × List Nat × Nat)) (r : Nat) (z : List Nat) : Option Nat :=
  match tbl.find? (fun p => p.1 == r && p.2.1 == z) with
  | some p => some p.2.2
  | none => none

def roracleOf (j : Json) : Except String ROracle := do
  let f ← tableOf (← j.getObjVal? "full")
  let p ← tableOf (← j.getObjVal? "part")
  return ⟨lookup f, lookup p⟩

def jEntryOut (p : Nat × Entry LinItem) : Json :=
  Json.mkObj [
    ("col", Json.num (JsonNumber.fromNat p.1)),
    ("inc", Json.bool p.2.inc),
    ("idx", Json.num (JsonNumber.fromNat p.2.idx)),
    ("pre", jNats p.2.pre),
    ("leaf", match p.2.item.kids.getLast? with
      | some l => if p.2.inc then Json.null else jLeaf l
      | none => Json.null)]

structure PassStats where
  halted : Bool := true
  cut : Bool := false
  beginners : Bool := false

def PassStats.add (a : PassStats) (r : IncrE.CloseRes) : PassStats :=
  ⟨a.halted && r.halted, a.cut || r.cut, a.beginners || r.beginners⟩

/-- `feed` on the engine of the real closure, one `closeRun` per column (`procCol` unfolded), with the flags of
    the passes -/
def efeed (pred : Nat → Earley.NT → List (List Earley.ESym)) (fuel : Nat) (R : ROracle) (md : Mode)
    (word : Units) : Nat → Nat → PState IncrE.KI → PassStats → PState IncrE.KI × PassStats
  | _, 0, s, st => (s, st)
  | i, n + 1, s, st =>
    let r := IncrE.procRes pred fuel R md word (i / 8) s
    let s' : PState IncrE.KI :=
      ⟨s.done ++ [r.col], s.pend ++ scanCol (IncrE.earleyEngine pred fuel) R md r.col s.done.length word (i / 8)⟩
    efeed pred fuel R md word (i + 1) n s' (st.add r)

def handle (j : Json) : Except String Json := do
  let op ← j.getObjValAs? String "op"
  match op with
  | "scan" =>
    let md ← modeOf (← j.getObjVal? "mode")
    let t ← ttermOf (← j.getObjVal? "term")
    let R ← roracleOf (← j.getObjVal? "oracle")
    let k ← (← j.getObjVal? "k").getNat?
    let inc ← (← j.getObjVal? "inc").getBool?
    let idx ← (← j.getObjVal? "idx").getNat?
    let pre ← natArr (← j.getObjVal? "pre")
    let rest ← natArr (← j.getObjVal? "rest")
    let w ← (← j.getObjVal? "w").getNat?
    let len ← (← j.getObjVal? "len").getNat?
    let e : Entry LinItem := ⟨⟨[t], []⟩, inc, idx, pre⟩
    let outs := scanEntry linEngine R md k e rest w len
    return Json.mkObj [("outs", Json.arr (outs.map jEntryOut).toArray)]
  | "run" =>
    let md ← modeOf (← j.getObjVal? "mode")
    let R ← roracleOf (← j.getObjVal? "oracle")
    let alts ← (← (← j.getObjVal? "alts").getArr?).toList.mapM (fun a => do
      (← a.getArr?).toList.mapM ttermOf)
    let pieces ← (← (← j.getObjVal? "pieces").getArr?).toList.mapM natArr
    let step (acc : PState LinItem × List Json) (piece : List Nat) : PState LinItem × List Json :=
      let s := feed linEngine R md acc.1 piece
      let parses := (completeParses linEngine R md s).map (fun t => Json.arr ((t.leaves.map jLeaf).toArray))
      let res := (resumable s).map (fun e => Json.mkObj [
        ("want", match linEngine.want e.item with | some t => jTTerm t | none => Json.null),
        ("idx", Json.num (JsonNumber.fromNat e.idx)), ("pre", jNats e.pre)])
      (s, acc.2 ++ [Json.mkObj [("parses", Json.arr parses.toArray),
        ("can_continue", Json.bool (canContinue linEngine s)),
        ("resumable", Json.arr res.toArray)]])
    let (_, steps) := pieces.foldl step (linStart alts, [])
    return Json.mkObj [("steps", Json.arr steps.toArray)]
  | "erun" =>
    let md ← modeOf (← j.getObjVal? "mode")
    let R ← roracleOf (← j.getObjVal? "oracle")
    let G ← grammarOf (← j.getObjVal? "grammar")
    let start ← j.getObjValAs? String "start"
    let fuel ← (← j.getObjVal? "fuel").getNat?
    let pieces ← (← (← j.getObjVal? "pieces").getArr?).toList.mapM natArr
    let pred := Earley.predDefault G Earley.Variant.now.cap
    let eng := IncrE.earleyEngine pred fuel
    let step (acc : PState IncrE.KI × List Json) (piece : List Nat) : PState IncrE.KI × List Json :=
      let (s, st) := efeed pred fuel R md piece 0 (8 * piece.length) acc.1 {}
      let last := IncrE.lastRes pred fuel R md s
      let st := st.add last
      let parses := (IncrE.treesOf last.col).map jTree
      let res := (resumable s).map (fun e => Json.mkObj [
        ("want", match eng.want e.item with | some t => jTTerm t | none => Json.null),
        ("idx", Json.num (JsonNumber.fromNat e.idx)), ("pre", jNats e.pre)])
      (s, acc.2 ++ [Json.mkObj [("parses", Json.arr parses.toArray),
        ("can_continue", Json.bool (canContinue eng s)),
        ("resumable", Json.arr res.toArray),
        ("halted", Json.bool st.halted), ("cut", Json.bool st.cut), ("beginners", Json.bool st.beginners),
        ("states", Json.num (JsonNumber.fromNat ((s.done.map List.length).sum + last.col.length)))]])
    let (_, steps) := pieces.foldl step (IncrE.startState start, [])
    return Json.mkObj [("steps", Json.arr steps.toArray)]
  | _ => throw s!"unknown op {op}"

def main : IO Unit := run handle
