/-
Driver for E6 / the protocol run (C20): replays an observed schedule on the model of Model/IoRun.lean.

request
  {"forecast":[[hkey,[opt…]]…],      hkey = [[sender,recipient|null,type]…] (the history, message level)
   "done":[hkey…],                   histories the forecaster reports complete
   "fuzzer":[party…],                fuzzer-controlled parties
   "types":[[type,[[cp…]…]]…],       the (finite) content language of every message type, as code-unit lists
   "forbidden":[[type,[cp…]]…],      (type, content) pairs the constraints reject
   "trace":[ev…]}                    the schedule as observed on the implementation:
        ["recv",sender,recipient,[cp…]]   one `receive()` call of an external party (any chunking)
        ["send",sender,recipient|null,type,[cp…]]   the message the fuzzer appended to the history
                                           (→ fuzzerTurn (history ++ [m]))
        ["try",[[sender,recipient|null,type,[cp…]]…],b]   `_extends_history(history_tree, candidate)` was called
                                           with a candidate whose protocol messages are the list and returned b:
                                           the model's `extendsB` must agree; for b = false the (stuttering)
                                           fuzzerTurn must be enabled
        ["extract"]                        parse_next_remote_packet was entered
        ["silence"]                        the 1 s wait for a further fragment ran out
        ["unexpected"] ["nomessage"]       the 10 s / 15 s waits ran out
        ["done"]                           the run ended with a complete interaction
   opt = [sender,recipient|null,type]

answer
  {"history":[[sender,recipient|null,type,[cp…],remote]…],"buffer":[[sender,recipient,cp]…],
   "outbox":[[sender,recipient|null,type,[cp…]]…],"failed":null|"noParse"|…,"finished":b,
   "rejected":null|[…msg…],"extracting":b,
   "variant":[findByRecipient,clearByRecipient,typesByRecipient,extendsGuard],   the generated rule the model ran with
   "stuck":null|k}       k = index of the first trace event the model does not enable (then the state is the
                         one before that event)

The model runs with the variant GENERATED from the current source (`Generated.variant`).
The internal events are derived: after "extract" (→ exStart) and after every "recv" while an extraction
is active, `exStep` is taken as long as it is enabled, then `exFinish` if no type is left.
A forecast asked for a history that is not in the table is never defaulted: the replay stops there and the answer
has "missing_forecast": true (the model's history has left the prefixes the verified forecaster enumerated — a
disagreement with the run, reported by the harness as such).
-/
import Driver.Common
import Model.IoRun
import Generated.IoRun
open Lean FV FV.Drv FV.Io

structure Tables where
  forecast : List (List Opt × List Opt)
  done : List (List Opt)
  fuzzer : List String
  types : List (String × List (List Nat))
  forbidden : List (String × List Nat)

def optOfJson (j : Json) : Except String Opt := do
  let a ← j.getArr?
  let s ← (a[0]?.getD Json.null).getStr?
  let t ← (a[2]?.getD Json.null).getStr?
  return ⟨s, optStr (a[1]?.getD Json.null), t⟩

def arrOf (j : Json) (k : String) : Except String (List Json) := do
  let v ← j.getObjVal? k
  return (← v.getArr?).toList

def isProperPrefix : List Nat → List Nat → Bool
  | [], _ :: _ => true
  | a :: as, b :: bs => a == b && isProperPrefix as bs
  | _, _ => false

/-- `missing` collects histories whose forecast was asked for but is not in the table -/
def specOf (T : Tables) : Spec where
  forecast := fun h => match T.forecast.find? (fun p => p.1 == h.map Msg.opt) with
    | some p => p.2
    | none => [⟨"?missing", none, "?missing"⟩]
  done := fun h => T.done.contains (h.map Msg.opt)
  fuzzer := fun p => T.fuzzer.contains p
  complete := fun t w => match T.types.find? (·.1 == t) with
    | some p => p.2.contains w
    | none => false
  cont := fun t w => match T.types.find? (·.1 == t) with
    | some p => p.2.any (isProperPrefix w)
    | none => false
  ok := fun _ m => !(T.forbidden.contains (m.type, m.payload))

/-- the rule the current source has (harness/translate_iorun.py) -/
def V : Variant := FV.Io.Generated.variant

def known (T : Tables) (s : State) : Bool :=
  (T.forecast.find? (fun p => p.1 == s.history.map Msg.opt)).isSome

/-- exStep while enabled, then exFinish if no type is left -/
def settle (S : Spec) : Nat → State → State
  | 0, s => s
  | n + 1, s =>
    match step V S s .exStep with
    | some s' => settle S n s'
    | none => match step V S s .exFinish with
      | some s' => s'
      | none => s

inductive TEv where
  | recv (s r : String) (d : List Nat)
  | send (m : Msg)
  | try_ (cand : List Msg) (real : Bool)
  | extract | silence | unexpected | nomessage | done

def tevOf (j : Json) : Except String TEv := do
  let a ← j.getArr?
  let tag ← (a[0]?.getD Json.null).getStr?
  match tag with
  | "recv" =>
    return .recv (← (a[1]?.getD Json.null).getStr?) (← (a[2]?.getD Json.null).getStr?) (← natArr (a[3]?.getD Json.null))
  | "send" =>
    return .send ⟨← (a[1]?.getD Json.null).getStr?, optStr (a[2]?.getD Json.null), ← (a[3]?.getD Json.null).getStr?,
                  ← natArr (a[4]?.getD Json.null), false⟩
  | "try" =>
    let ms ← (← (a[1]?.getD Json.null).getArr?).toList.mapM (fun j => do
      let b ← j.getArr?
      return (⟨← (b[0]?.getD Json.null).getStr?, optStr (b[1]?.getD Json.null), ← (b[2]?.getD Json.null).getStr?,
               ← natArr (b[3]?.getD Json.null), false⟩ : Msg))
    return .try_ ms (← (a[2]?.getD Json.null).getBool?)
  | "extract" => return .extract
  | "silence" => return .silence
  | "unexpected" => return .unexpected
  | "nomessage" => return .nomessage
  | "done" => return .done
  | _ => throw s!"bad trace event {tag}"

def runAll (S : Spec) (s : State) (evs : List Event) : Option State := runEvents V S s evs

/-- one observed event → model events; `none` = not enabled -/
def applyT (S : Spec) (s : State) : TEv → Option State
  | .recv p r d =>
    match runEvents V S s (recvChunk p r d) with
    | some s' => some (if s'.ex.isSome then settle S (s'.buffer.length + 2) s' else s')
    | none => none
  | .send m => step V S s (.fuzzerTurn (s.history ++ [m]))
  | .try_ cand real =>
    if extendsB s.history cand != real then none
    else if real then some s
    else step V S s (.fuzzerTurn cand)
  | .extract =>
    match step V S s .exStart with
    | some s' => some (settle S (s'.buffer.length + 2) s')
    | none => none
  | .silence =>
    -- the real `can_continue()` may over-approximate (C13_canContinue_sound_partial): the code then waits the
    -- 1 s out after a parse the model already finished; that silence changes nothing
    if s.ex.isNone && live s then some s else step V S s .silence
  | .unexpected => step V S s .unexpected
  | .nomessage => step V S s .noMessage
  | .done => step V S s .finishRun

def jMsgFull (m : Msg) : Json :=
  Json.arr #[Json.str m.sender, jOptStr m.recipient, Json.str m.type, jNats m.payload, Json.bool m.remote]

def jErrIo : Option Io.Err → Json
  | none => Json.null
  | some .noParse => "noParse"
  | some .timeoutFragment => "timeoutFragment"
  | some .noMessage => "noMessage"
  | some .unexpectedParty => "unexpectedParty"
  | some .constraint => "constraint"

def jState (s : State) (stuck : Option Nat) (missing : Bool := false) : Json :=
  Json.mkObj [
    ("missing_forecast", Json.bool missing),
    ("history", Json.arr (s.history.map jMsgFull).toArray),
    ("buffer", Json.arr (s.buffer.map (fun f => Json.arr #[Json.str f.sender, Json.str f.recipient, Json.num (JsonNumber.fromNat f.data)])).toArray),
    ("outbox", Json.arr (s.outbox.map (fun o => Json.arr #[Json.str o.1, jOptStr o.2.1, Json.str o.2.2.1, jNats o.2.2.2])).toArray),
    ("failed", jErrIo s.failed),
    ("finished", Json.bool s.finished),
    ("rejected", match s.rejected with | some m => jMsgFull m | none => Json.null),
    ("extracting", Json.bool s.ex.isSome),
    ("variant", Json.arr #[Json.bool V.findByRecipient, Json.bool V.clearByRecipient, Json.bool V.typesByRecipient,
                           Json.bool V.extendsGuard]),
    ("stuck", match stuck with | some k => Json.num (JsonNumber.fromNat k) | none => Json.null)]

/-- `want` = parse_next_remote_packet has been entered but no buffered fragment's sender is in the
    forecast yet (the 10 s wait): `exStart` is retried after every arrival -/
def replay (T : Tables) (S : Spec) : Nat → Bool → State → List TEv → Except String (State × Option Nat)
  | _, _, s, [] => return (s, none)
  | k, want, s, ev :: evs =>
    if !known T s && live s then return (s, some k)
    else match ev, want with
      | .extract, _ =>
        match applyT S s .extract with
        | some s' => replay T S (k + 1) false s' evs
        | none => if live s && s.ex.isNone && s.buffer != [] then replay T S (k + 1) true s evs else return (s, some k)
      | .recv p r d, true =>
        match applyT S s (.recv p r d) with
        | some s1 => match applyT S s1 .extract with
          | some s2 => replay T S (k + 1) false s2 evs
          | none => replay T S (k + 1) true s1 evs
        | none => return (s, some k)
      | ev, w =>
        match applyT S s ev with
        | some s' => replay T S (k + 1) w s' evs
        | none => return (s, some k)

def handle (j : Json) : Except String Json := do
  let fc ← (← arrOf j "forecast").mapM (fun e => do
    let a ← e.getArr?
    let k ← (← (a[0]?.getD Json.null).getArr?).toList.mapM optOfJson
    let v ← (← (a[1]?.getD Json.null).getArr?).toList.mapM optOfJson
    return (k, v))
  let dn ← (← arrOf j "done").mapM (fun e => do (← e.getArr?).toList.mapM optOfJson)
  let fz ← (← arrOf j "fuzzer").mapM (fun e => e.getStr?)
  let ty ← (← arrOf j "types").mapM (fun e => do
    let a ← e.getArr?
    let n ← (a[0]?.getD Json.null).getStr?
    let ws ← (← (a[1]?.getD Json.null).getArr?).toList.mapM natArr
    return (n, ws))
  let fb ← (← arrOf j "forbidden").mapM (fun e => do
    let a ← e.getArr?
    return (← (a[0]?.getD Json.null).getStr?, ← natArr (a[1]?.getD Json.null)))
  let tr ← (← arrOf j "trace").mapM tevOf
  let T : Tables := ⟨fc, dn, fz, ty, fb⟩
  let S := specOf T
  let (s, stuck) ← replay T S 0 false init tr
  let missing := (!known T s && live s) || s.history.any (fun m => m.type == "?missing")
  return jState s stuck missing

def main : IO Unit := run handle
