/-
Driver for E5 / lexer bases (C14).

request  {"op":"run","evs":[E…],"n":k}
  E = ["tok",ty] | ["opn",ty] | ["cls",ty] | ["nl",[0|1 …],la]      (1 = TAB, la = true|false)
answer   {"py":[T…],"cpp":[T…],"spec":[T…],"loud":bool}
  T = "EOF" | "NEWLINE" | "INDENT" | "DEDENT" | ty (a number)
`k` tokens are pulled from each machine; `spec` is the intended stream (without the trailing EOFs).
-/
import Driver.Common
import Model.LexBase
import Generated.Lex
open Lean FV.Drv
open FV.Lex

def evOf (j : Json) : Except String Ev := do
  let a ← j.getArr?
  let tag ← (a[0]?.getD Json.null).getStr?
  match tag with
  | "tok" => return .tok (← (a[1]?.getD Json.null).getNat?)
  | "opn" => return .opn (← (a[1]?.getD Json.null).getNat?)
  | "cls" => return .cls (← (a[1]?.getD Json.null).getNat?)
  | "nl" => do
    let ws ← natArr (a[1]?.getD Json.null)
    let la ← (a[2]?.getD Json.null).getBool?
    return .nl (ws.map (· == 1)) la
  | t => throw s!"bad event {t}"

def jTok : Tok → Json
  | .eof => "EOF" | .newline => "NEWLINE" | .indent => "INDENT" | .dedent => "DEDENT"
  | .raw ty => Json.num (JsonNumber.fromNat ty)

def handle (j : Json) : Except String Json := do
  let op ← j.getObjValAs? String "op"
  match op with
  | "run" =>
    let evs ← (← (← j.getObjVal? "evs").getArr?).toList.mapM evOf
    let n ← (← j.getObjVal? "n").getNat?
    return Json.mkObj [
      ("py", Json.arr ((pyPulls n (pyInit evs)).map jTok).toArray),
      ("cpp", Json.arr ((cppPullsR FV.Generated.cppRecheck n (cppInit evs)).map jTok).toArray),
      ("cpp_as_found", Json.arr ((cppPullsR false n (cppInit evs)).map jTok).toArray),
      ("cpp_fixed", Json.arr ((cppPullsR true n (cppInit evs)).map jTok).toArray),
      ("spec", Json.arr ((spec evs [] 0).map jTok).toArray),
      ("loud", Json.bool (loudEnd evs 0))]
  | _ => throw s!"unknown op {op}"

def main : IO Unit := run handle
