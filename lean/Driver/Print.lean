/-
Driver for E5/print (C15).
  {"op":"print","node":N,"cfg":"generated"|"prefix","cap":k}
      → {"toks":[tok…],"wf":bool,"read":N|null,"norm":N,"postfix_ok":bool}
  {"op":"read","toks":[tok…],"cap":k} → {"node":N|null}
  {"op":"pyrepr","kind":"t"|"b","v":[nat…],"printable":[nat…]} → {"text":[nat…]}
  {"op":"pyeval","kind":"t"|"b","text":[nat…]} → {"v":[nat…]|null}
tok := "(" | ")" | "|" | "*" | "+" | "?" | ["{",n] | ["{",n,m] | ["{,",n]
     | ["nt",name,sender|null,recipient|null] | ["lit",leaf] | ["re",id]
-/
import Driver.IRJson
import Model.Print
import Model.PyLit
import Generated.Print
open Lean FV FV.Drv

def jNat (n : Nat) : Json := Json.num (JsonNumber.fromNat n)

def jTok : PTok → Json
  | .lp => "(" | .rp => ")" | .bar => "|" | .star => "*" | .plus => "+" | .quest => "?"
  | .repN n => Json.arr #["{", jNat n]
  | .repNM n m => Json.arr #["{", jNat n, jNat m]
  | .repOpen n => Json.arr #["{,", jNat n]
  | .nt n s r => Json.arr #["nt", Json.str n, jOptStr s, jOptStr r]
  | .lit l => Json.arr #["lit", jLeaf l]
  | .re i => Json.arr #["re", jNat i]

def tokOf (j : Json) : Except String PTok := do
  match j with
  | .str "(" => return .lp
  | .str ")" => return .rp
  | .str "|" => return .bar
  | .str "*" => return .star
  | .str "+" => return .plus
  | .str "?" => return .quest
  | .arr a =>
    let tag ← (a[0]?.getD Json.null).getStr?
    let el (i : Nat) : Json := a[i]?.getD Json.null
    match tag, a.size with
    | "{", 2 => return .repN (← (el 1).getNat?)
    | "{", 3 => return .repNM (← (el 1).getNat?) (← (el 2).getNat?)
    | "{,", 2 => return .repOpen (← (el 1).getNat?)
    | "nt", 4 => return .nt (← (el 1).getStr?) (optStr (el 2)) (optStr (el 3))
    | "lit", 2 => return .lit (← leafOfJson (el 1))
    | "re", 2 => return .re (← (el 1).getNat?)
    | _, _ => throw s!"bad token {j.compress}"
  | _ => throw s!"bad token {j.compress}"

def jOptNode : Option Node → Json
  | some n => jNode n
  | none => Json.null

def handle (j : Json) : Except String Json := do
  let op ← j.getObjValAs? String "op"
  match op with
  | "print" =>
    let n ← nodeOf (← j.getObjVal? "node")
    let cap ← j.getObjValAs? Nat "cap"
    let cfgName ← j.getObjValAs? String "cfg"
    let cfg ← match cfgName with
      | "generated" => pure { Generated.printCfg with cap := cap }
      | "prefix" => pure (PrintCfg.preFix cap)
      | "fixed" => pure (PrintCfg.fixed cap)
      | s => throw s!"unknown cfg {s}"
    let toks := print cfg n
    return Json.mkObj [("toks", Json.arr (toks.map jTok).toArray), ("wf", Json.bool (wf cap n)),
      ("read", jOptNode (read cap toks)), ("norm", jNode (norm n)),
      ("postfix_ok", Json.bool (postfixOk none toks))]
  | "read" =>
    let cap ← j.getObjValAs? Nat "cap"
    let toks ← (← (← j.getObjVal? "toks").getArr?).toList.mapM tokOf
    return Json.mkObj [("node", jOptNode (read cap toks))]
  | "pyrepr" =>
    let kind ← j.getObjValAs? String "kind"
    let v ← natArr (← j.getObjVal? "v")
    match kind with
    | "t" =>
      let pr ← natArr (← j.getObjVal? "printable")
      return Json.mkObj [("text", jNats (PyLit.reprStr (fun c => pr.contains c) v))]
    | "b" =>
      if v.any (fun c => c ≥ 256) then throw "byte out of range"
      return Json.mkObj [("text", jNats (PyLit.reprBytes v))]
    | k => throw s!"unknown kind {k}"
  | "pyeval" =>
    let kind ← j.getObjValAs? String "kind"
    let t ← natArr (← j.getObjVal? "text")
    let r ← match kind with
      | "t" => pure (PyLit.evalStr t)
      | "b" => pure (PyLit.evalBytes t)
      | k => throw s!"unknown kind {k}"
    return Json.mkObj [("v", match r with | some v => jNats v | none => Json.null)]
  | _ => throw s!"unknown op {op}"

def main : IO Unit := run handle
