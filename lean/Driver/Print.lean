/-
Driver for E5/print (C15).
  {"op":"print","node":N,"cfg":"generated"|"prefix"|"fixed","cap":k}
      → {"toks":[tok…],"wf":bool,"read":N|null,"norm":N,"postfix_ok":bool,"erased":IRnode,"erased_norm":IRnode}
  {"op":"read","toks":[tok…],"cap":k} → {"node":N|null}
  {"op":"rules","rules":[{"name":s,"rhs":N,"gen":E|null}…],"cap":k}
      → {"texts":[{"name":s,"rhs":[tok…],"gen":[etok…]|null}…],"wf":bool,"read":[rule…]|null,"norm":[rule…]}
  {"op":"pyrepr","kind":"t"|"b","v":[nat…],"printable":[nat…]} → {"text":[nat…]}
  {"op":"pyeval","kind":"t"|"b","text":[nat…]} → {"v":[nat…]|null}
  {"op":"reprint","bytes":bool,"pat":[nat…]}
      → {"text":[nat…],"wf":bool,"noff":bool,"rewrites":bool,"spelled":[nat…],
         "eval":{"bytes":bool,"v":[nat…]}|null,"steps":[[before,after]…]}     (regex terminals)
  {"op":"raweval","text":[nat…]} → {"v":{"bytes":bool,"v":[nat…]}|null}       (one-line raw literal)
  {"op":"selprint","top":T[,"pb":bool]} → {"toks":[stok…],"wf":bool,"read":T|null,"norm":T,"flat":bool}
      (pb: parenthesise a non-plain base of a group; default = the generated printer; flat = in normal form)
  {"op":"selread","toks":[stok…]} → {"top":T|null}
N    := IR node of Driver/IRJson | ["crep",id,N,CB]
CB   := ["single",E] | ["range",B,B|null]          B := ["num",n] | ["expr",E]
E    := [seg…]   seg := ["code",text] | ["sel",T]
T    := ["plain"|"star"|"lenbar"|"lenstar",S]
S    := ["rule",nt] | ["attr",S,S] | ["desc",S,S] | ["item",S,[slice…]] | ["sel",S,[pair…]]
slice:= ["idx",n] | ["rng",a|null,b|null,c|null]     pair := [sym,direct,slice|null]
tok  := "(" | ")" | "|" | "*" | "+" | "?" | ["{",n] | ["{",n,m] | ["{,",n] | ["{c",CBT]
      | ["nt",name,sender|null,recipient|null] | ["lit",leaf] | ["re",id]
CBT  := ["single",[etok…]] | ["range",BT|null,BT|null]      BT := ["num",n] | ["expr",[etok…]]
etok := ["code",text] | ["s",stok]
stok := ["nt",name] | ["num",n] | "." | ".." | "[" | "]" | "{" | "}" | "," | ":" | "*" | "(" | ")" | "|" | "len"
-/
import Driver.IRJson
import Model.Print
import Model.PyLit
import Generated.Print
open Lean FV FV.Drv

def jNat (n : Nat) : Json := Json.num (JsonNumber.fromNat n)

def jOptNat : Option Nat → Json
  | some n => jNat n
  | none => Json.null

def optNatOf (j : Json) : Except String (Option Nat) :=
  match j with
  | .null => pure none
  | j => do return some (← j.getNat?)

def elOf (a : Array Json) (i : Nat) : Json := a[i]?.getD Json.null

/-! ### selectors -/

def sliceOf (j : Json) : Except String PS.Slice := do
  let a ← j.getArr?
  match ← (elOf a 0).getStr?, a.size with
  | "idx", 2 => return .idx (← (elOf a 1).getNat?)
  | "rng", 4 => return .rng (← optNatOf (elOf a 1)) (← optNatOf (elOf a 2)) (← optNatOf (elOf a 3))
  | _, _ => throw s!"bad slice {j.compress}"

def jSlice : PS.Slice → Json
  | .idx n => Json.arr #["idx", jNat n]
  | .rng a b c => Json.arr #["rng", jOptNat a, jOptNat b, jOptNat c]

def pairOf (j : Json) : Except String PS.Pair := do
  let a ← j.getArr?
  if a.size != 3 then throw s!"bad pair {j.compress}"
  let items ← match elOf a 2 with
    | .null => pure none
    | x => do pure (some (← sliceOf x))
  return ⟨← (elOf a 0).getStr?, ← (elOf a 1).getBool?, items⟩

def jPair (p : PS.Pair) : Json :=
  Json.arr #[Json.str p.sym, Json.bool p.direct, match p.items with | none => Json.null | some s => jSlice s]

partial def selOf (j : Json) : Except String PS.Sel := do
  let a ← j.getArr?
  match ← (elOf a 0).getStr?, a.size with
  | "rule", 2 => return .rule (← (elOf a 1).getStr?)
  | "attr", 3 => return .attr (← selOf (elOf a 1)) (← selOf (elOf a 2))
  | "desc", 3 => return .desc (← selOf (elOf a 1)) (← selOf (elOf a 2))
  | "item", 3 => return .item (← selOf (elOf a 1)) (← (← (elOf a 2).getArr?).toList.mapM sliceOf)
  | "sel", 3 => return .sel (← selOf (elOf a 1)) (← (← (elOf a 2).getArr?).toList.mapM pairOf)
  | _, _ => throw s!"bad selector {j.compress}"

partial def jSel : PS.Sel → Json
  | .rule n => Json.arr #["rule", Json.str n]
  | .attr b a => Json.arr #["attr", jSel b, jSel a]
  | .desc b a => Json.arr #["desc", jSel b, jSel a]
  | .item b sl => Json.arr #["item", jSel b, Json.arr (sl.map jSlice).toArray]
  | .sel b ps => Json.arr #["sel", jSel b, Json.arr (ps.map jPair).toArray]

def topOf (j : Json) : Except String PS.Top := do
  let a ← j.getArr?
  if a.size != 2 then throw s!"bad selector top {j.compress}"
  let s ← selOf (elOf a 1)
  match ← (elOf a 0).getStr? with
  | "plain" => return .plain s
  | "star" => return .star s
  | "lenbar" => return .lenBar s
  | "lenstar" => return .lenStar s
  | t => throw s!"bad selector top tag {t}"

def jTop : PS.Top → Json
  | .plain s => Json.arr #["plain", jSel s]
  | .star s => Json.arr #["star", jSel s]
  | .lenBar s => Json.arr #["lenbar", jSel s]
  | .lenStar s => Json.arr #["lenstar", jSel s]

def jSTok : PS.STok → Json
  | .nt n => Json.arr #["nt", Json.str n]
  | .num n => Json.arr #["num", jNat n]
  | .dot => "." | .dotdot => ".." | .lbr => "[" | .rbr => "]" | .lbrace => "{" | .rbrace => "}"
  | .comma => "," | .colon => ":" | .star => "*" | .lp => "(" | .rp => ")" | .bar => "|" | .len => "len"

def stokOf (j : Json) : Except String PS.STok := do
  match j with
  | .str "." => return .dot
  | .str ".." => return .dotdot
  | .str "[" => return .lbr
  | .str "]" => return .rbr
  | .str "{" => return .lbrace
  | .str "}" => return .rbrace
  | .str "," => return .comma
  | .str ":" => return .colon
  | .str "*" => return .star
  | .str "(" => return .lp
  | .str ")" => return .rp
  | .str "|" => return .bar
  | .str "len" => return .len
  | .arr a =>
    match ← (elOf a 0).getStr?, a.size with
    | "nt", 2 => return .nt (← (elOf a 1).getStr?)
    | "num", 2 => return .num (← (elOf a 1).getNat?)
    | _, _ => throw s!"bad selector token {j.compress}"
  | _ => throw s!"bad selector token {j.compress}"

/-! ### expressions, computed bounds -/

def segOf (j : Json) : Except String Seg := do
  let a ← j.getArr?
  match ← (elOf a 0).getStr?, a.size with
  | "code", 2 => return .code (← (elOf a 1).getStr?)
  | "sel", 2 => return .sel (← topOf (elOf a 1))
  | _, _ => throw s!"bad segment {j.compress}"

def exprOf (j : Json) : Except String Expr := do (← j.getArr?).toList.mapM segOf

def jSeg : Seg → Json
  | .code c => Json.arr #["code", Json.str c]
  | .sel t => Json.arr #["sel", jTop t]

def jExpr (e : Expr) : Json := Json.arr (e.map jSeg).toArray

def jETok : ETok → Json
  | .code c => Json.arr #["code", Json.str c]
  | .s t => Json.arr #["s", jSTok t]

def etokOf (j : Json) : Except String ETok := do
  let a ← j.getArr?
  match ← (elOf a 0).getStr?, a.size with
  | "code", 2 => return .code (← (elOf a 1).getStr?)
  | "s", 2 => return .s (← stokOf (elOf a 1))
  | _, _ => throw s!"bad expression token {j.compress}"

def jETokens (ts : List ETok) : Json := Json.arr (ts.map jETok).toArray
def etokensOf (j : Json) : Except String (List ETok) := do (← j.getArr?).toList.mapM etokOf

def boundOf (j : Json) : Except String Bound := do
  let a ← j.getArr?
  match ← (elOf a 0).getStr?, a.size with
  | "num", 2 => return .num (← (elOf a 1).getNat?)
  | "expr", 2 => return .expr (← exprOf (elOf a 1))
  | _, _ => throw s!"bad bound {j.compress}"

def jBound : Bound → Json
  | .num n => Json.arr #["num", jNat n]
  | .expr e => Json.arr #["expr", jExpr e]

def cbOf (j : Json) : Except String CB := do
  let a ← j.getArr?
  match ← (elOf a 0).getStr?, a.size with
  | "single", 2 => return .single (← exprOf (elOf a 1))
  | "range", 3 =>
    let hi ← match elOf a 2 with
      | .null => pure none
      | x => do pure (some (← boundOf x))
    return .range (← boundOf (elOf a 1)) hi
  | _, _ => throw s!"bad computed bounds {j.compress}"

def jCB : CB → Json
  | .single e => Json.arr #["single", jExpr e]
  | .range lo hi => Json.arr #["range", jBound lo, match hi with | none => Json.null | some b => jBound b]

def jBoundT : BoundT → Json
  | .num n => Json.arr #["num", jNat n]
  | .expr ts => Json.arr #["expr", jETokens ts]

def boundTOf (j : Json) : Except String BoundT := do
  let a ← j.getArr?
  match ← (elOf a 0).getStr?, a.size with
  | "num", 2 => return .num (← (elOf a 1).getNat?)
  | "expr", 2 => return .expr (← etokensOf (elOf a 1))
  | _, _ => throw s!"bad bound token {j.compress}"

def optBoundTOf (j : Json) : Except String (Option BoundT) :=
  match j with
  | .null => pure none
  | x => do pure (some (← boundTOf x))

def jOptBoundT : Option BoundT → Json
  | none => Json.null
  | some b => jBoundT b

def jCBT : CBT → Json
  | .single ts => Json.arr #["single", jETokens ts]
  | .range lo hi => Json.arr #["range", jOptBoundT lo, jOptBoundT hi]

def cbtOf (j : Json) : Except String CBT := do
  let a ← j.getArr?
  match ← (elOf a 0).getStr?, a.size with
  | "single", 2 => return .single (← etokensOf (elOf a 1))
  | "range", 3 => return .range (← optBoundTOf (elOf a 1)) (← optBoundTOf (elOf a 2))
  | _, _ => throw s!"bad computed brace group {j.compress}"

/-! ### nodes -/

partial def enodeOf (j : Json) : Except String ENode := do
  let a ← j.getArr?
  let tag ← (elOf a 0).getStr?
  match tag with
  | "lit" => return .term (.lit (← leafOfJson (elOf a 1)))
  | "re" => return .term (.regex (← (elOf a 1).getNat?))
  | "nt" => return .nt (← (elOf a 1).getStr?) (optStr (elOf a 2)) (optStr (elOf a 3))
  | "alt" => return .alt (← (elOf a 1).getStr?) (← (← (elOf a 2).getArr?).toList.mapM enodeOf)
  | "cat" => return .cat (← (elOf a 1).getStr?) (← (← (elOf a 2).getArr?).toList.mapM enodeOf)
  | "rep" =>
    return .rep (← (elOf a 1).getStr?) (← kindOf (← (elOf a 2).getStr?)) (← enodeOf (elOf a 3))
      (← (elOf a 4).getNat?) (← optNatOf (elOf a 5))
  | "crep" =>
    if a.size != 4 then throw s!"bad crep {j.compress}"
    return .crep (← (elOf a 1).getStr?) (← enodeOf (elOf a 2)) (← cbOf (elOf a 3))
  | t => throw s!"bad node tag {t}"

partial def jENode : ENode → Json
  | .term (.lit l) => Json.arr #["lit", jLeaf l]
  | .term (.regex i) => Json.arr #["re", jNat i]
  | .nt n a r => Json.arr #["nt", Json.str n, jOptStr a, jOptStr r]
  | .alt id ns => Json.arr #["alt", Json.str id, Json.arr (ns.map jENode).toArray]
  | .cat id ns => Json.arr #["cat", Json.str id, Json.arr (ns.map jENode).toArray]
  | .rep id k n mn mx => Json.arr #["rep", Json.str id, jKind k, jENode n, jNat mn, jOptNat mx]
  | .crep id n b => Json.arr #["crep", Json.str id, jENode n, jCB b]

def jTok : PTok → Json
  | .lp => "(" | .rp => ")" | .bar => "|" | .star => "*" | .plus => "+" | .quest => "?"
  | .repN n => Json.arr #["{", jNat n]
  | .repNM n m => Json.arr #["{", jNat n, jNat m]
  | .repOpen n => Json.arr #["{,", jNat n]
  | .repC b => Json.arr #["{c", jCBT b]
  | .nt n s r => Json.arr #["nt", Json.str n, jOptStr s, jOptStr r]
  | .lit l => Json.arr #["lit", jLeaf l]
  | .re i => Json.arr #["re", jNat i]

def tokOf (j : Json) : Except String PTok := do
  match j with
  | .str "(" => return .lp
  | .str ")" => return .rp
  | .str "|" => return .bar
  | .str "*" => return .star
  | .str "+" => return .plus
  | .str "?" => return .quest
  | .arr a =>
    let tag ← (elOf a 0).getStr?
    match tag, a.size with
    | "{", 2 => return .repN (← (elOf a 1).getNat?)
    | "{", 3 => return .repNM (← (elOf a 1).getNat?) (← (elOf a 2).getNat?)
    | "{,", 2 => return .repOpen (← (elOf a 1).getNat?)
    | "{c", 2 => return .repC (← cbtOf (elOf a 1))
    | "nt", 4 => return .nt (← (elOf a 1).getStr?) (optStr (elOf a 2)) (optStr (elOf a 3))
    | "lit", 2 => return .lit (← leafOfJson (elOf a 1))
    | "re", 2 => return .re (← (elOf a 1).getNat?)
    | _, _ => throw s!"bad token {j.compress}"
  | _ => throw s!"bad token {j.compress}"

def jOptNode : Option ENode → Json
  | some n => jENode n
  | none => Json.null

def ruleOf (j : Json) : Except String Rule := do
  let gen ← match ← j.getObjVal? "gen" with
    | .null => pure none
    | x => do pure (some (← exprOf x))
  return ⟨← j.getObjValAs? String "name", ← enodeOf (← j.getObjVal? "rhs"), gen⟩

def jRule (r : Rule) : Json :=
  Json.mkObj [("name", Json.str r.name), ("rhs", jENode r.rhs),
    ("gen", match r.gen with | none => Json.null | some g => jExpr g)]

def jRuleText (t : RuleText) : Json :=
  Json.mkObj [("name", Json.str t.name), ("rhs", Json.arr (t.rhs.map jTok).toArray),
    ("gen", match t.gen with | none => Json.null | some g => jETokens g)]

def jRaw : Option (Bool × List Nat) → Json
  | some (b, v) => Json.mkObj [("bytes", Json.bool b), ("v", jNats v)]
  | none => Json.null

def cfgOf (name : String) (cap : Nat) : Except String PrintCfg :=
  match name with
  | "generated" => pure { Generated.printCfg with cap := cap }
  | "prefix" => pure (PrintCfg.preFix cap)
  | "fixed" => pure (PrintCfg.fixed cap)
  | s => throw s!"unknown cfg {s}"

def handle (j : Json) : Except String Json := do
  let op ← j.getObjValAs? String "op"
  match op with
  | "print" =>
    let n ← enodeOf (← j.getObjVal? "node")
    let cap ← j.getObjValAs? Nat "cap"
    let cfg ← cfgOf (← j.getObjValAs? String "cfg") cap
    let toks := print cfg n
    return Json.mkObj [("toks", Json.arr (toks.map jTok).toArray), ("wf", Json.bool (wf cap n)),
      ("read", jOptNode (read cap toks)), ("norm", jENode (norm n)),
      ("postfix_ok", Json.bool (postfixOk none toks)),
      ("erased", jNode (erase n)), ("erased_norm", jNode (erase (norm n)))]
  | "read" =>
    let cap ← j.getObjValAs? Nat "cap"
    let toks ← (← (← j.getObjVal? "toks").getArr?).toList.mapM tokOf
    return Json.mkObj [("node", jOptNode (read cap toks))]
  | "rules" =>
    let cap ← j.getObjValAs? Nat "cap"
    let rules ← (← (← j.getObjVal? "rules").getArr?).toList.mapM ruleOf
    let texts := printG { Generated.printCfg with cap := cap } rules
    return Json.mkObj [("texts", Json.arr (texts.map jRuleText).toArray),
      ("wf", Json.bool (wfG cap rules)),
      ("read", match readG cap texts with
               | some rs => Json.arr (rs.map jRule).toArray
               | none => Json.null),
      ("norm", Json.arr ((normG rules).map jRule).toArray)]
  | "pyrepr" =>
    let kind ← j.getObjValAs? String "kind"
    let v ← natArr (← j.getObjVal? "v")
    match kind with
    | "t" =>
      let pr ← natArr (← j.getObjVal? "printable")
      return Json.mkObj [("text", jNats (PyLit.reprStr (fun c => pr.contains c) v))]
    | "b" =>
      if v.any (fun c => c ≥ 256) then throw "byte out of range"
      return Json.mkObj [("text", jNats (PyLit.reprBytes v))]
    | k => throw s!"unknown kind {k}"
  | "pyeval" =>
    let kind ← j.getObjValAs? String "kind"
    let t ← natArr (← j.getObjVal? "text")
    let r ← match kind with
      | "t" => pure (PyLit.evalStr t)
      | "b" => pure (PyLit.evalBytes t)
      | k => throw s!"unknown kind {k}"
    return Json.mkObj [("v", match r with | some v => jNats v | none => Json.null)]
  | "reprint" =>
    let isB ← j.getObjValAs? Bool "bytes"
    let pat ← natArr (← j.getObjVal? "pat")
    let text := PyLit.printRegex isB pat
    let q := (PyLit.regexQuote pat).2
    return Json.mkObj [("text", jNats text), ("wf", Json.bool (PyLit.regexWf isB pat)),
      ("noff", Json.bool (isB || PyLit.noBareFF pat)),
      ("rewrites", Json.bool (PyLit.rewrites q isB pat)),
      ("spelled", jNats (PyLit.spelled isB pat)),
      ("eval", jRaw (PyLit.evalRaw text)),
      ("steps", Json.arr ((PyLit.spellSteps q isB [] pat).map
        (fun p => Json.arr #[jNats p.1, jNats p.2])).toArray)]
  | "raweval" =>
    let t ← natArr (← j.getObjVal? "text")
    return Json.mkObj [("v", jRaw (PyLit.evalRaw t))]
  | "selprint" =>
    let t ← topOf (← j.getObjVal? "top")
    let pb ← match j.getObjValAs? Bool "pb" with
      | .ok b => pure b
      | .error _ => pure Generated.printCfg.parenSelBase
    let toks := PS.printTop pb t
    let flat := match t with
      | .plain s | .star s | .lenBar s | .lenStar s => PS.isNorm s
    return Json.mkObj [("toks", Json.arr (toks.map jSTok).toArray), ("wf", Json.bool (PS.wfTop t)),
      ("read", match PS.readTop toks with | some r => jTop r | none => Json.null),
      ("norm", jTop (PS.normTop t)), ("flat", Json.bool flat)]
  | "selread" =>
    let toks ← (← (← j.getObjVal? "toks").getArr?).toList.mapM stokOf
    return Json.mkObj [("top", match PS.readTop toks with | some r => jTop r | none => Json.null)]
  | _ => throw s!"unknown op {op}"

def main : IO Unit := run handle
