/-
Driver for E6 / forecasting (C19).   msg := [sender, recipient|null, type]

  {"op":"enum","grammar":G,"start":"<start>","depth":d,"limit":N}
      → {"certs":{"rank_ok":b,"productive":b,"msg_only":b,"walk_cert":b,"fuel":F},
         "cases":[{"h":[msg…],"nexts":[msg…],"complete":b,"prefix":b,"code":[msg…],
                   "code_complete":b,"positions":k,"positions_typeonly":k'}…], "truncated":b}
        every prefix of every interaction up to `depth` messages (breadth first along `nexts`)
        (a "cap" key - the generator's repetition limit - is accepted and ignored: since /repo 07eb1fdf no part
        of the forecast depends on it)
  {"op":"forecast","grammar":G,"start":…,"histories":[[msg…]…]}
      → {"certs":…, "cases":[… as above, plus "prefix":b …]}
  {"op":"spines","grammar":G,"start":…,"history":[msg…],"spines":[pos…]}
      pos := ["msg"] | ["nt",pos] | ["alt",i,pos] | ["cat",i,pos] | ["rep",k,pos] | ["rep0"]
      → {"certs":…, "spines":[{"pd":b,"walk":[msg…],"cont":b,"in_positions":b}…], "nexts":[msg…]}
        per right spine of a partial tree of the REAL prefix parse: `pd` = pdB (is it a message-level partial derivation
        of the history - verified checker, C19_pd_checker), `walk`/`cont` = the model of the visitor along it
        (walkPosWith: what `PathFinder.forecast(tree)` must offer / return), `in_positions` = the model's
        specification of the prefix parse computes it
  {"op":"slice","grammar":G,"start":"<start>","keep":[party…],"ignore_receivers":b,"real":G''|absent}
      → {"grammar": sliceG G, "cert": sliceCert (msgLevel G)  -- hypothesis of C19_slice_commutes,
         "msglevel_sliced": sliceG (msgLevel G), "real_msglevel": msgLevel G'' (when "real" is given)}
-/
import Driver.IRJson
import Model.Forecast
open Lean FV FV.Drv FV.Fc

def msgOfJson (j : Json) : Except String Msg := do
  let a ← j.getArr?
  let s ← (a[0]?.getD Json.null).getStr?
  let t ← (a[2]?.getD Json.null).getStr?
  return ⟨s, optStr (a[1]?.getD Json.null), t⟩

def jMsg (m : Msg) : Json := Json.arr #[Json.str m.sender, jOptStr m.recipient, Json.str m.type]
def jMsgs (ms : List Msg) : Json := Json.arr (ms.map jMsg).toArray

/-- rank candidate: longest chain of head positions, `n` rounds (unverified helper; the result is
    only used through the verified check `rankOk`) -/
def computeRank (G : Grammar) : String → Nat :=
  let names := G.rules.map (·.1)
  let step (r : String → Nat) : String → Nat := fun name =>
    match G.rule name with
    | some body => (heads body).foldl (fun acc h => Nat.max acc (r h + 1)) 0
    | none => 0
  let tbl := (List.range (names.length + 1)).foldl
    (fun (t : List (String × Nat)) _ =>
      let r : String → Nat := fun nm => match t.find? (·.1 == nm) with | some p => p.2 | none => 0
      names.map (fun nm => (nm, step r nm)))
    (names.map (fun nm => (nm, 0)))
  fun nm => match tbl.find? (·.1 == nm) with | some p => p.2 | none => 0

partial def ntsOf : Node → List String
  | .term _ => []
  | .nt name s _ => if s.isSome then [] else [name]
  | .alt _ ns => ns.flatMap ntsOf
  | .cat _ ns => ns.flatMap ntsOf
  | .rep _ _ n _ _ => ntsOf n

/-- names reachable from `start` through non-message nonterminals -/
partial def reach (G : Grammar) (todo seen : List String) : List String :=
  match todo with
  | [] => seen
  | x :: rest =>
    if seen.contains x then reach G rest seen
    else match G.rule x with
      | some body => reach G (ntsOf body ++ rest) (x :: seen)
      | none => reach G rest (x :: seen)

structure Certs where
  rank : String → Nat
  fuel : Nat
  rankOk : Bool
  productive : Bool
  msgOnly : Bool
  walk : Bool

/-- the message-level part of the grammar: rules reachable from the start through non-message
    nonterminals (message *content* rules are not part of the protocol level) -/
def msgLevel (G : Grammar) (startName : String) : Grammar :=
  let names := reach G [startName] []
  { rules := G.rules.filter (fun p => names.contains p.1) }

def certsOf (G : Grammar) : Certs :=
  let rank := computeRank G
  let F := G.rules.length + 2
  { rank := rank, fuel := F, rankOk := Fc.rankOk G rank F, productive := productiveB G F,
    msgOnly := G.rules.all (fun p => msgOnly p.2),
    walk := walkCert G }   -- hypothesis of C19_code_forecast_initial (the start node is a nonterminal: walkOk holds)

def jCerts (c : Certs) : Json :=
  Json.mkObj [("rank_ok", Json.bool c.rankOk), ("productive", Json.bool c.productive),
    ("msg_only", Json.bool c.msgOnly), ("walk_cert", Json.bool c.walk), ("fuel", Json.num (JsonNumber.fromNat c.fuel))]

/-- forget the parties (what `StateGrammarConverter` does: a message becomes the terminal `<type>`) -/
partial def eraseParties : Node → Node
  | .term t => .term t
  | .nt name s r => if s.isSome then .nt name (some "") none else .nt name s r
  | .alt id ns => .alt id (ns.map eraseParties)
  | .cat id ns => .cat id (ns.map eraseParties)
  | .rep id k n mn mx => .rep id k (eraseParties n) mn mx

def eraseG (G : Grammar) : Grammar := { rules := G.rules.map (fun p => (p.1, eraseParties p.2)) }

def caseOf (G : Grammar) (F : Nat) (start : Node) (h : List Msg) : Json :=
  -- the partial derivations of a history nest as deep as the history is long (right recursion): the fuel of
  -- `C19_code_forecast_full` / `C19_positions_exact`, `(h.length + 1) * B` with `B = F` the bound of `rankOk`
  let Fc := (h.length + 1) * F
  let ps := positions G Fc start h
  -- open bounds are unbounded in the judged language (docs/Language.md: "an infinite upper bound"; as in E2 `Valid`
  -- and C05) and, since 07eb1fdf, in the visitor
  Json.mkObj [("h", jMsgs h),
    ("nexts", jMsgs (nexts G F start h).eraseDups),
    ("complete", Json.bool (complete G F start h)),
    ("prefix", Json.bool (isPrefix G F start h)),
    ("code", jMsgs (codeNexts G Fc start h)),
    ("code_complete", Json.bool (codeComplete G F start h)),
    ("positions", Json.num (JsonNumber.fromNat ps.length)),
    ("positions_typeonly", Json.num (JsonNumber.fromNat
      (positions (eraseG G) Fc start (h.map (fun m => ⟨"", none, m.type⟩))).length))]

partial def posOfJson (j : Json) : Except String Pos := do
  let a ← j.getArr?
  let tag ← (a[0]?.getD Json.null).getStr?
  match tag with
  | "msg" => return .msg
  | "rep0" => return .rep0
  | "nt" => return .nt (← posOfJson (a[1]?.getD Json.null))
  | "alt" => return .alt (← (a[1]?.getD Json.null).getNat?) (← posOfJson (a[2]?.getD Json.null))
  | "cat" => return .cat (← (a[1]?.getD Json.null).getNat?) (← posOfJson (a[2]?.getD Json.null))
  | "rep" => return .rep (← (a[1]?.getD Json.null).getNat?) (← posOfJson (a[2]?.getD Json.null))
  | t => throw s!"unknown position tag {t}"

/-- breadth-first enumeration of the prefixes of the message-level language -/
partial def bfs (G : Grammar) (F : Nat) (start : Node) (depth limit : Nat)
    (frontier : List (List Msg)) (acc : List (List Msg)) (d : Nat) : List (List Msg) × Bool :=
  if frontier.isEmpty then (acc.reverse, false)
  else if d ≥ depth then (acc.reverse, false)
  else
    let next := frontier.flatMap (fun h => ((nexts G F start h).eraseDups).map (fun m => h ++ [m]))
    let room := limit - acc.length
    if next.length > room then ((next.take room).reverse ++ acc |>.reverse, true)
    else bfs G F start depth limit next (next.reverse ++ acc) (d + 1)

def handle (j : Json) : Except String Json := do
  let op ← j.getObjValAs? String "op"
  match op with
  | "enum" | "forecast" =>
    let G0 ← grammarOf (← j.getObjVal? "grammar")
    let startName ← j.getObjValAs? String "start"
    let G := msgLevel G0 startName
    let start : Node := .nt startName none none
    let c := certsOf G
    if !(c.rankOk && c.productive && c.msgOnly) then
      return Json.mkObj [("certs", jCerts c), ("cases", Json.arr #[]), ("truncated", Json.bool false)]
    let (hs, trunc) ←
      if op == "enum" then do
        let depth ← j.getObjValAs? Nat "depth"
        let limit ← j.getObjValAs? Nat "limit"
        pure (bfs G c.fuel start depth limit [[]] [[]] 0)
      else do
        let hsJ ← (← j.getObjVal? "histories").getArr?
        let hs ← hsJ.toList.mapM (fun hj => do
          let a ← hj.getArr?
          a.toList.mapM msgOfJson)
        pure (hs, false)
    return Json.mkObj [("certs", jCerts c),
      ("cases", Json.arr (hs.map (caseOf G c.fuel start)).toArray),
      ("truncated", Json.bool trunc)]
  | "spines" =>
    let G0 ← grammarOf (← j.getObjVal? "grammar")
    let startName ← j.getObjValAs? String "start"
    let G := msgLevel G0 startName
    let start : Node := .nt startName none none
    let c := certsOf G
    if !(c.rankOk && c.productive && c.msgOnly) then
      return Json.mkObj [("certs", jCerts c), ("spines", Json.arr #[]), ("nexts", Json.arr #[])]
    let h ← (← (← j.getObjVal? "history").getArr?).toList.mapM msgOfJson
    let ps ← (← (← j.getObjVal? "spines").getArr?).toList.mapM posOfJson
    let Fc := (h.length + 1) * c.fuel
    let ω := walkNewTab G Fc []
    let model := positions G Fc start h
    return Json.mkObj [("certs", jCerts c),
      ("nexts", jMsgs (nexts G c.fuel start h).eraseDups),
      ("spines", Json.arr (ps.map (fun p =>
        let w := walkPosWith ω G start p
        Json.mkObj [("pd", Json.bool (pdB G Fc start h p)), ("walk", jMsgs (dedupM w.1)), ("cont", Json.bool w.2),
          ("in_positions", Json.bool (model.contains p))])).toArray)]
  | "slice" =>
    let G ← grammarOf (← j.getObjVal? "grammar")
    let startName ← j.getObjValAs? String "start"
    let keep ← (← (← j.getObjVal? "keep").getArr?).toList.mapM (fun x => x.getStr?)
    let ign ← j.getObjValAs? Bool "ignore_receivers"
    let cfg : SliceCfg := ⟨keep, ign⟩
    let jG (g : Grammar) : Json := Json.mkObj [("rules",
      Json.arr (g.rules.map (fun p => Json.arr #[Json.str p.1, jNode p.2])).toArray)]
    let GM := msgLevel G startName
    let realML ← match j.getObjVal? "real" with
      | .ok rj => do
        let R ← grammarOf rj
        pure (jG (msgLevel R startName))
      | .error _ => pure Json.null
    return Json.mkObj [("grammar", jG (sliceG cfg G)),
      ("cert", Json.bool (sliceCert GM)),
      ("msglevel_sliced", jG (sliceG cfg GM)),
      ("real_msglevel", realML)]
  | _ => throw s!"unknown op {op}"

def main : IO Unit := run handle
