/-
Driver for E5 / Python expression core (C08).

requests (one JSON object per line):
  {"op":"visit","pt":G}                       → {"ast":A,"cf":bool}            | {"outside":why}
  {"op":"run","pt":G,"envs":[E…]}             → {"ast":A,"cf":bool,"pt":[R…],"ast_runs":[R…]} | {"outside":why}
        R = evalPT on the decoded tree / evalAst on `visit` of it, per environment
  {"op":"evalast","ast":A,"envs":[E…]}        → {"runs":[R…]}                  | {"outside":why}
        evalAst on an `ast` serialised by the harness (CPython's own ast)

G = generic ANTLR tree: ["r",ruleName,[children]] | ["t",tokenTypeName,text] |
    ["t","NUMBER",text,["int",decimal]] | ["t","STRING",text,["str",[codepoints]]]
The decoder below is grammar-directed and strict: any shape outside the modelled fragment answers
{"outside":…} (counted by the harness), never a default.
-/
import Driver.Common
import Model.PyExpr
import Generated.PyExpr
open Lean FV.Drv
open FV.Py

namespace PyDrv

abbrev D := Except String

def outside {α} (why : String) : D α := throw s!"outside:{why}"

def arr (j : Json) : D (Array Json) :=
  match j.getArr? with
  | .ok a => pure a
  | .error _ => throw "bad:not an array"

def strOf (j : Json) : D String :=
  match j.getStr? with
  | .ok s => pure s
  | .error _ => throw "bad:not a string"

/-- node kind, name, children / token text -/
structure G where
  isRule : Bool
  name : String
  kids : Array Json
  text : String
  lit : Option Json

def gOf (j : Json) : D G := do
  let a ← arr j
  let tag ← strOf (a[0]?.getD Json.null)
  let name ← strOf (a[1]?.getD Json.null)
  if tag == "r" then
    let ks ← arr (a[2]?.getD Json.null)
    return { isRule := true, name, kids := ks, text := "", lit := none }
  else if tag == "t" then
    let t ← strOf (a[2]?.getD Json.null)
    return { isRule := false, name, kids := #[], text := t, lit := a[3]? }
  else throw "bad:node tag"

def isTok (g : G) (n : String) : Bool := !g.isRule && g.name == n
def isRuleN (g : G) (n : String) : Bool := g.isRule && g.name == n

def kidsOf (j : Json) : D (List G) := do
  let g ← gOf j
  g.kids.toList.mapM gOf

def identText (g : G) : D String := do
  if !(isRuleN g "identifier") then throw "bad:identifier expected"
  match g.kids.toList with
  | [k] => do
    let t ← gOf k
    if t.isRule then throw "bad:identifier child" else pure t.text
  | _ => throw "bad:identifier arity"

def cmpRuleOf (n : String) : Option CmpRule :=
  match n with
  | "eq_bitwise_or" => some .eq | "noteq_bitwise_or" => some .noteq | "lte_bitwise_or" => some .lte
  | "lt_bitwise_or" => some .lt | "gte_bitwise_or" => some .gte | "gt_bitwise_or" => some .gt
  | "notin_bitwise_or" => some .notin | "in_bitwise_or" => some .in_ | "isnot_bitwise_or" => some .isnot
  | "is_bitwise_or" => some .is_
  | _ => none

def intOfDec (s : String) : D Int :=
  match s.toInt? with
  | some i => pure i
  | none => throw "bad:int literal"

def natList (j : Json) : D (List Nat) :=
  match natArr j with
  | .ok l => pure l
  | .error _ => throw "bad:nat list"

mutual
partial def dec (g : G) : D PT := do
  let ks ← g.kids.toList.mapM gOf
  if !g.isRule then throw s!"bad:token {g.name} where a rule is expected"
  match g.name, ks with
  -- transparent wrappers handled by pinned visitors
  | "named_expression", [e] =>
    if isRuleN e "expression" then dec e else outside "assignment_expression"
  | "expression", [d] =>
    if isRuleN d "disjunction" then return .exprD (← dec d)
    else outside "lambdef"
  | "expression", [d0, i, d1, el, e] =>
    if isTok i "IF" && isTok el "ELSE" && isRuleN d0 "disjunction" && isRuleN d1 "disjunction"
        && isRuleN e "expression" then
      return .ternary (← dec d0) (← dec d1) (← dec e)
    else throw "bad:expression shape"
  | "disjunction", _ => do
    let parts ← sepBy ks "OR" "conjunction"
    return .disj (← parts.mapM dec)
  | "conjunction", _ => do
    let parts ← sepBy ks "AND" "inversion"
    return .conj (← parts.mapM dec)
  | "inversion", [n, i] =>
    if isTok n "NOT" && isRuleN i "inversion" then return .invNot (← dec i) else throw "bad:inversion"
  | "inversion", [c] =>
    if isRuleN c "comparison" then return .invC (← dec c) else throw "bad:inversion"
  | "comparison", f :: pairs => do
    if !(isRuleN f "bitwise_or") then throw "bad:comparison"
    let ps ← pairs.mapM decPair
    return .cmp (← dec f) (ps.map (·.1)) (ps.map (·.2))
  | "bitwise_or", [l, o, r] =>
    if isRuleN l "bitwise_or" && isTok o "OR_OP" && isRuleN r "bitwise_xor" then return .bor (← dec l) (← dec r)
    else throw "bad:bitwise_or"
  | "bitwise_or", [x] => if isRuleN x "bitwise_xor" then return .borT (← dec x) else throw "bad:bitwise_or"
  | "bitwise_xor", [l, o, r] =>
    if isRuleN l "bitwise_xor" && isTok o "XOR" && isRuleN r "bitwise_and" then return .bxor (← dec l) (← dec r)
    else throw "bad:bitwise_xor"
  | "bitwise_xor", [x] => if isRuleN x "bitwise_and" then return .bxorT (← dec x) else throw "bad:bitwise_xor"
  | "bitwise_and", [l, o, r] =>
    if isRuleN l "bitwise_and" && isTok o "AND_OP" && isRuleN r "shift_expr" then return .band (← dec l) (← dec r)
    else throw "bad:bitwise_and"
  | "bitwise_and", [x] => if isRuleN x "shift_expr" then return .bandT (← dec x) else throw "bad:bitwise_and"
  | "shift_expr", [l, o, r] => do
    if !(isRuleN l "shift_expr" && isRuleN r "sum") then throw "bad:shift_expr"
    let t ← (if isTok o "LEFT_SHIFT" then pure ShiftTok.LEFT_SHIFT
             else if isTok o "RIGHT_SHIFT" then pure ShiftTok.RIGHT_SHIFT else throw "bad:shift token")
    return .shift (← dec l) t (← dec r)
  | "shift_expr", [x] => if isRuleN x "sum" then return .shiftT (← dec x) else throw "bad:shift_expr"
  | "sum", [l, o, r] => do
    if !(isRuleN l "sum" && isRuleN r "term") then throw "bad:sum"
    let t ← (if isTok o "ADD" then pure SumTok.ADD
             else if isTok o "MINUS" then pure SumTok.MINUS else throw "bad:sum token")
    return .sum (← dec l) t (← dec r)
  | "sum", [x] => if isRuleN x "term" then return .sumT (← dec x) else throw "bad:sum"
  | "term", [l, o, r] => do
    if !(isRuleN l "term" && isRuleN r "factor") then throw "bad:term"
    let t ← (if isTok o "STAR" then pure TermTok.STAR else if isTok o "DIV" then pure TermTok.DIV
             else if isTok o "IDIV" then pure TermTok.IDIV else if isTok o "MOD" then pure TermTok.MOD
             else if isTok o "AT" then pure TermTok.AT else throw "bad:term token")
    return .term (← dec l) t (← dec r)
  | "term", [x] => if isRuleN x "factor" then return .termT (← dec x) else throw "bad:term"
  | "factor", [o, x] => do
    if !(isRuleN x "factor") then throw "bad:factor"
    let t ← (if isTok o "ADD" then pure FactorTok.ADD else if isTok o "MINUS" then pure FactorTok.MINUS
             else if isTok o "NOT_OP" then pure FactorTok.NOT_OP else throw "bad:factor token")
    return .factor t (← dec x)
  | "factor", [x] => if isRuleN x "power" then return .factorT (← dec x) else throw "bad:factor"
  | "power", [b, o, e] =>
    if isRuleN b "await_primary" && isTok o "POWER" && isRuleN e "factor" then return .power (← dec b) (← dec e)
    else throw "bad:power"
  | "power", [x] => if isRuleN x "await_primary" then return .powerT (← dec x) else throw "bad:power"
  | "await_primary", [a, p] =>
    if isTok a "AWAIT" && isRuleN p "primary" then return .awaitP (← dec p) else throw "bad:await_primary"
  | "await_primary", [p] => if isRuleN p "primary" then return .awaitT (← dec p) else throw "bad:await_primary"
  | "primary", [a] => if isRuleN a "atom" then return .primA (← dec a) else throw "bad:primary"
  | "primary", [p, g2] =>
    if isRuleN p "primary" && isRuleN g2 "genexp" then outside "genexp call" else throw "bad:primary"
  | "primary", [p, d, i] =>
    if isRuleN p "primary" && isTok d "DOT" then return .attr (← dec p) (← identText i)
    else if isRuleN p "primary" && isTok d "OPEN_PAREN" && isTok i "CLOSE_PAREN" then return .call (← dec p) [] []
    else throw "bad:primary"
  | "primary", [p, o, m, c] =>
    if isRuleN p "primary" && isTok o "OPEN_PAREN" && isRuleN m "arguments" && isTok c "CLOSE_PAREN" then do
      let as ← decArguments m
      return .call (← dec p) (as.map (·.1)) (as.map (·.2))
    else if isRuleN p "primary" && isTok o "OPEN_BRACK" && isRuleN m "slices" && isTok c "CLOSE_BRACK" then do
      let (ss, tc) ← decSlices m
      return .subscr (← dec p) ss tc
    else throw "bad:primary"
  | "atom", [x] =>
    if x.isRule then
      match x.name with
      | "identifier" => return .name (← identText x)
      | "strings" => decStrings x
      | "tuple" => decTuple x
      | "group" => decGroup x
      | "list" => decList x
      | n => outside s!"atom {n}"
    else
      match x.name with
      | "TRUE" => return .true_
      | "FALSE" => return .false_
      | "NONE" => return .none_
      | "ELLIPSIS" => return .ellipsis
      | "NUMBER" =>
        match x.lit with
        | some l => do
          let a ← arr l
          let k ← strOf (a[0]?.getD Json.null)
          if k == "int" then return .num (← intOfDec (← strOf (a[1]?.getD Json.null)))
          else outside s!"number {k}"
        | none => throw "bad:NUMBER without value"
      | n => throw s!"bad:atom token {n}"
  | n, _ => outside s!"rule {n}"

/-- children = part (SEP part)* -/
partial def sepBy (ks : List G) (sep rule : String) : D (List G) :=
  match ks with
  | [] => throw "bad:empty list"
  | [x] => if isRuleN x rule then pure [x] else throw s!"bad:{rule} expected"
  | x :: s :: r => do
    if !(isRuleN x rule && isTok s sep) then throw s!"bad:{rule} {sep} list"
    let rest ← sepBy r sep rule
    pure (x :: rest)

partial def decPair (g : G) : D (CmpRule × PT) := do
  if !(isRuleN g "compare_op_bitwise_or_pair") then throw "bad:compare pair"
  match ← g.kids.toList.mapM gOf with
  | [inner] =>
    match cmpRuleOf inner.name with
    | none => throw s!"bad:compare rule {inner.name}"
    | some r => do
      let ks ← inner.kids.toList.mapM gOf
      let toks := ks.filter (fun k => !k.isRule) |>.map (·.name)
      let ok := match r with
        | .eq => toks == ["EQUALS"] | .noteq => toks == ["NOT_EQ_2"] || toks == ["NOT_EQ_1"]
        | .lte => toks == ["LT_EQ"] | .lt => toks == ["LESS_THAN"] | .gte => toks == ["GT_EQ"]
        | .gt => toks == ["GREATER_THAN"] | .notin => toks == ["NOT", "IN"] | .in_ => toks == ["IN"]
        | .isnot => toks == ["IS", "NOT"] | .is_ => toks == ["IS"]
      if !ok then throw s!"bad:tokens of {inner.name}: {toks}"
      match ks.getLast? with
      | some o => if isRuleN o "bitwise_or" then pure (r, ← dec o) else throw "bad:pair operand"
      | none => throw "bad:pair empty"
  | _ => throw "bad:compare pair arity"

/-- arguments: args ','? -/
partial def decArguments (g : G) : D (List (ArgKind × PT)) := do
  match ← g.kids.toList.mapM gOf with
  | [a] => decArgs a
  | [a, c] => if isTok c "COMMA" then decArgs a else throw "bad:arguments"
  | _ => throw "bad:arguments arity"

partial def decArgs (g : G) : D (List (ArgKind × PT)) := do
  if !(isRuleN g "args") then throw "bad:args"
  let ks ← g.kids.toList.mapM gOf
  let mut out : List (ArgKind × PT) := []
  for k in ks do
    if isTok k "COMMA" then continue
    else if isRuleN k "arg" then out := out ++ [← decArg k]
    else if isRuleN k "kwargs" then out := out ++ (← decKwargs k)
    else throw "bad:args child"
  return out

partial def decArg (g : G) : D (ArgKind × PT) := do
  match ← g.kids.toList.mapM gOf with
  | [x] =>
    if isRuleN x "expression" then return (.pos, ← dec x)
    else if isRuleN x "starred_expression" then return (.star, ← decStarred x)
    else outside s!"arg {x.name}"
  | _ => throw "bad:arg arity"

partial def decStarred (g : G) : D PT := do
  match ← g.kids.toList.mapM gOf with
  | [s, e] => if isTok s "STAR" && isRuleN e "expression" then dec e else throw "bad:starred_expression"
  | _ => throw "bad:starred_expression arity"

partial def decKwargs (g : G) : D (List (ArgKind × PT)) := do
  let ks ← g.kids.toList.mapM gOf
  let mut out : List (ArgKind × PT) := []
  for k in ks do
    if isTok k "COMMA" then continue
    else if isRuleN k "kwarg_or_starred" || isRuleN k "kwarg_or_double_starred" then
      match ← k.kids.toList.mapM gOf with
      | [i, a, e] =>
        if isTok a "ASSIGN" && isRuleN e "expression" then out := out ++ [(.kw (← identText i), ← dec e)]
        else throw "bad:kwarg"
      | [s] =>
        if isRuleN s "starred_expression" && isRuleN k "kwarg_or_starred" then out := out ++ [(.star, ← decStarred s)]
        else throw "bad:kwarg starred"
      | [p, e] =>
        if isTok p "POWER" && isRuleN e "expression" && isRuleN k "kwarg_or_double_starred" then
          out := out ++ [(.dstar, ← dec e)]
        else throw "bad:kwarg dstar"
      | _ => throw "bad:kwarg arity"
    else throw "bad:kwargs child"
  return out

/-- slices: (slice | starred_expression) (',' …)* ','? -/
partial def decSlices (g : G) : D (List PT × Bool) := do
  let ks ← g.kids.toList.mapM gOf
  let trailing := match ks.getLast? with | some l => isTok l "COMMA" | none => false
  let mut out : List PT := []
  for k in ks do
    if isTok k "COMMA" then continue
    else if isRuleN k "slice" then out := out ++ [← decSlice k]
    else if isRuleN k "starred_expression" then outside "starred slice"
    else throw "bad:slices child"
  return (out, trailing)

partial def decSlice (g : G) : D PT := do
  let ks ← g.kids.toList.mapM gOf
  if ks.any (fun k => isTok k "COLON") then
    let mut parts : Array PT := #[.absent, .absent, .absent]
    let mut idx := 0
    for k in ks do
      if isTok k "COLON" then idx := idx + 1
      else if isRuleN k "expression" then
        if idx > 2 then throw "bad:slice parts"
        parts := parts.set! idx (← dec k)
      else throw "bad:slice child"
    return .slice parts[0]! parts[1]! parts[2]!
  else
    match ks with
    | [n] => if isRuleN n "named_expression" then return .sliceE (← dec n) else throw "bad:slice"
    | _ => throw "bad:slice arity"

partial def decStrings (g : G) : D PT := do
  match ← g.kids.toList.mapM gOf with
  | [s] =>
    if isRuleN s "string" then
      match ← s.kids.toList.mapM gOf with
      | [t] =>
        if isTok t "STRING" then
          match t.lit with
          | some l => do
            let a ← arr l
            let k ← strOf (a[0]?.getD Json.null)
            if k == "str" then return .str (← natList (a[1]?.getD Json.null)) else outside s!"string {k}"
          | none => throw "bad:STRING without value"
        else throw "bad:string token"
      | _ => throw "bad:string arity"
    else outside "fstring"
  | _ => outside "string concatenation"

/-- star_named_expression: named_expression | '*' bitwise_or -/
partial def decSNE (g : G) : D PT := do
  match ← g.kids.toList.mapM gOf with
  | [n] => if isRuleN n "named_expression" then dec n else throw "bad:star_named_expression"
  | _ => outside "starred display element"

partial def decSNEs (g : G) : D (List PT) := do
  let ks ← g.kids.toList.mapM gOf
  let mut out : List PT := []
  for k in ks do
    if isTok k "COMMA" then continue
    else if isRuleN k "star_named_expression" then out := out ++ [← decSNE k]
    else throw "bad:star_named_expressions child"
  return out

partial def decTuple (g : G) : D PT := do
  match ← g.kids.toList.mapM gOf with
  | [o, c] => if isTok o "OPEN_PAREN" && isTok c "CLOSE_PAREN" then return .tuple [] else throw "bad:tuple"
  | [o, f, cm, r, c] =>
    if isTok o "OPEN_PAREN" && isRuleN f "star_named_expression" && isTok cm "COMMA"
        && isRuleN r "star_named_expressions" && isTok c "CLOSE_PAREN" then
      return .tuple ((← decSNE f) :: (← decSNEs r))
    else throw "bad:tuple"
  | _ => throw "bad:tuple arity"

partial def decGroup (g : G) : D PT := do
  match ← g.kids.toList.mapM gOf with
  | [o, n, c] =>
    if isTok o "OPEN_PAREN" && isTok c "CLOSE_PAREN" then
      if isRuleN n "named_expression" then return .group (← dec n) else outside "yield in group"
    else throw "bad:group"
  | _ => throw "bad:group arity"

partial def decList (g : G) : D PT := do
  match ← g.kids.toList.mapM gOf with
  | [o, c] => if isTok o "OPEN_BRACK" && isTok c "CLOSE_BRACK" then return .list [] else throw "bad:list"
  | [o, r, c] =>
    if isTok o "OPEN_BRACK" && isRuleN r "star_named_expressions" && isTok c "CLOSE_BRACK" then
      return .list (← decSNEs r)
    else throw "bad:list"
  | _ => throw "bad:list arity"
end

/-! ### ast ↔ JSON -/

def jStr (s : String) : Json := Json.str s
def jInt (i : Int) : Json := Json.str (toString i)

def boolOpName : BoolOpK → String | .And => "And" | .Or => "Or"
def unOpName : UnOpK → String | .Not => "Not" | .UAdd => "UAdd" | .USub => "USub" | .Invert => "Invert"
def binOpName : BinOpK → String
  | .Add => "Add" | .Sub => "Sub" | .Mult => "Mult" | .Div => "Div" | .FloorDiv => "FloorDiv" | .Mod => "Mod"
  | .MatMult => "MatMult" | .Pow => "Pow" | .LShift => "LShift" | .RShift => "RShift" | .BitOr => "BitOr"
  | .BitXor => "BitXor" | .BitAnd => "BitAnd"
def cmpOpName : CmpOpK → String
  | .Eq => "Eq" | .NotEq => "NotEq" | .Lt => "Lt" | .LtE => "LtE" | .Gt => "Gt" | .GtE => "GtE" | .Is => "Is"
  | .IsNot => "IsNot" | .In => "In" | .NotIn => "NotIn"

def boolOpOf : String → Option BoolOpK | "And" => some .And | "Or" => some .Or | _ => none
def unOpOf : String → Option UnOpK
  | "Not" => some .Not | "UAdd" => some .UAdd | "USub" => some .USub | "Invert" => some .Invert | _ => none
def binOpOf : String → Option BinOpK
  | "Add" => some .Add | "Sub" => some .Sub | "Mult" => some .Mult | "Div" => some .Div
  | "FloorDiv" => some .FloorDiv | "Mod" => some .Mod | "MatMult" => some .MatMult | "Pow" => some .Pow
  | "LShift" => some .LShift | "RShift" => some .RShift | "BitOr" => some .BitOr | "BitXor" => some .BitXor
  | "BitAnd" => some .BitAnd | _ => none
def cmpOpOf : String → Option CmpOpK
  | "Eq" => some .Eq | "NotEq" => some .NotEq | "Lt" => some .Lt | "LtE" => some .LtE | "Gt" => some .Gt
  | "GtE" => some .GtE | "Is" => some .Is | "IsNot" => some .IsNot | "In" => some .In | "NotIn" => some .NotIn
  | _ => none

partial def jAst : Ast → Json
  | .name s => Json.arr #["Name", jStr s]
  | .constInt n => Json.arr #["Const", "int", jInt n]
  | .constBool b => Json.arr #["Const", "bool", Json.bool b]
  | .constNone => Json.arr #["Const", "None"]
  | .constStr s => Json.arr #["Const", "str", jNats s]
  | .constEllipsis => Json.arr #["Const", "Ellipsis"]
  | .boolOp op vs => Json.arr #["BoolOp", jStr (boolOpName op), Json.arr (vs.map jAst).toArray]
  | .unaryOp op x => Json.arr #["UnaryOp", jStr (unOpName op), jAst x]
  | .binOp l op r => Json.arr #["BinOp", jAst l, jStr (binOpName op), jAst r]
  | .compare l ops cs => Json.arr #["Compare", jAst l, Json.arr (ops.map (fun o => jStr (cmpOpName o))).toArray,
      Json.arr (cs.map jAst).toArray]
  | .ifExp t b e => Json.arr #["IfExp", jAst t, jAst b, jAst e]
  | .await v => Json.arr #["Await", jAst v]
  | .attribute v a => Json.arr #["Attribute", jAst v, jStr a]
  | .call f as ks => Json.arr #["Call", jAst f, Json.arr (as.map jAst).toArray, Json.arr (ks.map jAst).toArray]
  | .keyword a v => Json.arr #["keyword", (match a with | some s => jStr s | none => Json.null), jAst v]
  | .starred v => Json.arr #["Starred", jAst v]
  | .subscript v s => Json.arr #["Subscript", jAst v, jAst s]
  | .slice a b c => Json.arr #["Slice", jAst a, jAst b, jAst c]
  | .absent => Json.null
  | .tuple es => Json.arr #["Tuple", Json.arr (es.map jAst).toArray]
  | .list es => Json.arr #["List", Json.arr (es.map jAst).toArray]
  | .invalid => Json.arr #["invalid"]

partial def astOf (j : Json) : D Ast := do
  if j.isNull then return .absent
  let a ← arr j
  let tag ← strOf (a[0]?.getD Json.null)
  let el (i : Nat) : Json := a[i]?.getD Json.null
  let many (j : Json) : D (List Ast) := do (← arr j).toList.mapM astOf
  match tag with
  | "Name" => return .name (← strOf (el 1))
  | "Const" =>
    match ← strOf (el 1) with
    | "int" => return .constInt (← intOfDec (← strOf (el 2)))
    | "bool" => match (el 2) with
      | .bool b => return .constBool b
      | _ => throw "bad:bool const"
    | "None" => return .constNone
    | "str" => return .constStr (← natList (el 2))
    | "Ellipsis" => return .constEllipsis
    | k => outside s!"constant {k}"
  | "BoolOp" => match boolOpOf (← strOf (el 1)) with
    | some o => return .boolOp o (← many (el 2))
    | none => throw "bad:boolop"
  | "UnaryOp" => match unOpOf (← strOf (el 1)) with
    | some o => return .unaryOp o (← astOf (el 2))
    | none => throw "bad:unaryop"
  | "BinOp" => match binOpOf (← strOf (el 2)) with
    | some o => return .binOp (← astOf (el 1)) o (← astOf (el 3))
    | none => throw "bad:binop"
  | "Compare" => do
    let ops ← (← arr (el 2)).toList.mapM (fun o => do
      match cmpOpOf (← strOf o) with
      | some c => pure c
      | none => throw "bad:cmpop")
    return .compare (← astOf (el 1)) ops (← many (el 3))
  | "IfExp" => return .ifExp (← astOf (el 1)) (← astOf (el 2)) (← astOf (el 3))
  | "Await" => return .await (← astOf (el 1))
  | "Attribute" => return .attribute (← astOf (el 1)) (← strOf (el 2))
  | "Call" => return .call (← astOf (el 1)) (← many (el 2)) (← many (el 3))
  | "keyword" => return .keyword (match (el 1) with | .str s => some s | _ => none) (← astOf (el 2))
  | "Starred" => return .starred (← astOf (el 1))
  | "Subscript" => return .subscript (← astOf (el 1)) (← astOf (el 2))
  | "Slice" => return .slice (← astOf (el 1)) (← astOf (el 2)) (← astOf (el 3))
  | "Tuple" => return .tuple (← many (el 1))
  | "List" => return .list (← many (el 1))
  | t => outside s!"ast {t}"

/-! ### values, environments, results -/

partial def valOf (j : Json) : D Val := do
  let a ← arr j
  let tag ← strOf (a[0]?.getD Json.null)
  let el (i : Nat) : Json := a[i]?.getD Json.null
  match tag with
  | "int" => return .int (← intOfDec (← strOf (el 1)))
  | "bool" => match el 1 with
    | .bool b => return .bool b
    | _ => throw "bad:bool"
  | "str" => return .str (← natList (el 1))
  | "none" => return .none
  | "ellipsis" => return .ellipsis
  | "tuple" => return .tuple (← (← arr (el 1)).toList.mapM valOf)
  | "list" => return .list (← (← arr (el 1)).toList.mapM valOf)
  | "fn" => return .fn (← strOf (el 1))
  | t => throw s!"bad:value {t}"

partial def jVal : Val → Json
  | .int n => Json.arr #["int", jInt n]
  | .bool b => Json.arr #["bool", Json.bool b]
  | .str s => Json.arr #["str", jNats s]
  | .none => Json.arr #["none"]
  | .ellipsis => Json.arr #["ellipsis"]
  | .tuple xs => Json.arr #["tuple", Json.arr (xs.map jVal).toArray]
  | .list xs => Json.arr #["list", Json.arr (xs.map jVal).toArray]
  | .quot _ _ => Json.arr #["float"]
  | .slice a b c => Json.arr #["slice", jVal a, jVal b, jVal c]
  | .fn n => Json.arr #["fn", jStr n]

def envOf (j : Json) : D Env := do
  match j with
  | .obj kvs => do
    let pairs ← kvs.toList.mapM (fun (k, v) => do pure (k, ← valOf v))
    return fun n => (pairs.find? (fun p => p.1 == n)).map (·.2)
  | _ => throw "bad:env"

def jErr : Err → Json
  | .zeroDiv => Json.mkObj [("err", "zeroDiv")]
  | .typeErr => Json.mkObj [("err", "typeErr")]
  | .nameErr n => Json.mkObj [("err", "nameErr"), ("name", jStr n)]
  | .valueErr => Json.mkObj [("err", "valueErr")]
  | .indexErr => Json.mkObj [("err", "indexErr")]
  | .attrErr => Json.mkObj [("err", "attrErr")]
  | .unsupported => Json.mkObj [("unsupported", true)]
  | .invalid => Json.mkObj [("err", "invalid")]

def jRun (r : Except Err (Val × List String)) : Json :=
  match r with
  | .ok (v, log) => Json.mkObj [("ok", jVal v), ("log", Json.arr (log.map jStr).toArray)]
  | .error e => jErr e

def answer (r : D Json) : Except String Json :=
  match r with
  | .ok j => .ok j
  | .error e =>
    if e.startsWith "outside:" then .ok (Json.mkObj [("outside", Json.str (e.drop 8).toString)])
    else .error e

end PyDrv

open PyDrv in
def handle (j : Json) : Except String Json := do
  let op ← j.getObjValAs? String "op"
  let T := FV.Generated.pyTables
  match op with
  | "visit" => answer do
    let pt ← dec (← gOf (← j.getObjVal? "pt"))
    return Json.mkObj [("ast", jAst (visit T pt)), ("cf", Json.bool (cf T.slicesCommaAware pt))]
  | "run" => answer do
    let pt ← dec (← gOf (← j.getObjVal? "pt"))
    let envs ← (← arr (← j.getObjVal? "envs")).toList.mapM envOf
    let a := visit T pt
    return Json.mkObj [("ast", jAst a), ("cf", Json.bool (cf T.slicesCommaAware pt)),
      ("pt", Json.arr (envs.map (fun ρ => jRun (runM (evalPT ρ pt)))).toArray),
      ("ast_runs", Json.arr (envs.map (fun ρ => jRun (runM (evalAst ρ a)))).toArray)]
  | "evalast" => answer do
    let a ← astOf (← j.getObjVal? "ast")
    let envs ← (← arr (← j.getObjVal? "envs")).toList.mapM envOf
    return Json.mkObj [("runs", Json.arr (envs.map (fun ρ => jRun (runM (evalAst ρ a)))).toArray)]
  | _ => throw s!"unknown op {op}"

def main : IO Unit := run handle
