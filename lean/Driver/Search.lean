/- stub: overwritten by the builder of this engine -/
import Driver.Common
open Lean FV FV.Drv

def handle (_ : Json) : Except String Json := throw "driver not implemented"

def main : IO Unit := run handle
