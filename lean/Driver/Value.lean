/-
Driver for E1/values (C09): {"op":"obs","tree":T,"flush":"utf8"|"latin1","obs":[..]} →
{"leaves":n,"res":[..]} with one canonical result per requested observer.
-/
import Driver.Common
import Generated.Constants
open Lean FV FV.Drv

def encOf (s : String) : Enc := if s == "latin1" then .latin1 else .utf8

/-- the fold the source currently performs (read from the source by the translator) -/
def valueOf (t : Tree) : Except Err TV :=
  match Generated.valueFold with
  | .leaves => t.value
  | .nested => t.valueNested

def obsOne (flush : Enc) (t : Tree) (o : String) : Json :=
  match valueOf t with
  | .error e => jErr e
  | .ok v =>
    match o with
    | "str" => match v.toStrWith flush with
      | .ok s => Json.mkObj [("ok", jNats s)]
      | .error e => jErr e
    | "bytes" => match v.toBytes with
      | .ok b => Json.mkObj [("ok", jBytes b)]
      | .error e => jErr e
    | "bits" => match v.toBits with
      | .ok b => Json.mkObj [("ok", jBits b)]
      | .error e => jErr e
    | "int" => match v.toInt flush with
      | .ok i => Json.mkObj [("ok", Json.str (toString i))]
      | .err e => jErr e
      | .unknown => Json.mkObj [("unknown", true)]
    | "type" => Json.mkObj [("ok", Json.str (match v.type with
        | .string => "string" | .bytes => "bytes" | .trailing => "trailing_bits" | .empty => "empty"))]
    | _ => Json.mkObj [("driver_error", Json.str s!"unknown observer {o}")]

def handle (j : Json) : Except String Json := do
  let op ← j.getObjValAs? String "op"
  match op with
  | "obs" =>
    let t ← treeOf (← j.getObjVal? "tree")
    let flush := match (j.getObjValAs? String "flush").toOption with
      | some f => encOf f
      | none => Generated.toStrFlush
    let obs ← j.getObjValAs? (Array String) "obs"
    return Json.mkObj [("leaves", Json.num t.leaves.length),
                       ("res", Json.arr (obs.map (obsOne flush t)))]
  | _ => throw s!"unknown op {op}"

def main : IO Unit := run handle
