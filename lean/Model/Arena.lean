/-
E1 / arena.  Executable model of the *mutable* `DerivationTree` API of
`src/fandango/language/tree.py` (bookkeeping: `_size`, `hash_cache`, `_parent`, `read_only`;
`SliceTree`).  Python objects are indices into a `Store` (a list of node records, allocation order);
every method below follows the Python text statement by statement (quoted in the comments).

Not modelled: `sources` / generators (the "generator-free core": `_sources = []` everywhere),
`origin_repetitions` (copied around, never read by the bookkeeping), Python list aliasing
(`self._children = children` keeps the caller's list object; the harness always passes fresh lists).

`α` is the type of hash values and `Hc` the abstract hash combiner: the real `__hash__` is
`hash((symbol, sender, recipient, tuple(hash(child) for child in children)))`, i.e. a function of the
node's own fields and of the children's (cached!) hashes.

Recursion through the store (parent chains, child lists) is by fuel; running out of fuel is the
model's `RecursionError` (`AErr.recursion`).  Tied to /repo by `harness/props/c10.py`.
-/
import Model.Tree
namespace FV

/-- exception classes of the real API, canonicalised -/
inductive AErr where
  | index      -- IndexError (`tree[i]` out of range)
  | value      -- ValueError (`_split_end`: self not found; `append`: invalid hookin_path)
  | step       -- StepException (`get_choices_path`: node not listed by its parent)
  | assertion  -- AssertionError (`prefix()` of a root)
  | recursion  -- RecursionError (fuel)
  | dangling   -- a handle outside the store: cannot happen for handles the API handed out
  deriving DecidableEq, Repr, Inhabited

structure NodeRec (α : Type) where
  sym : Sym
  sender : Option String
  recipient : Option String
  kids : List Nat
  parent : Option Nat
  sizeC : Nat              -- `_size`
  hashC : Option α         -- `hash_cache`
  readOnly : Bool
  view : Bool              -- ghost: the object is a `SliceTree` (lists children it does not own)
  deriving Repr

abbrev Store (α : Type) := List (NodeRec α)

variable {α : Type}

namespace Store

/-- modify record `i` (no-op outside the store) -/
def upd (σ : Store α) (i : Nat) (f : NodeRec α → NodeRec α) : Store α :=
  match σ[i]? with
  | some r => σ.set i (f r)
  | none => σ

/-- `child.size()` of a listed child = its *cached* `_size` -/
def sizeOf (σ : Store α) (k : Nat) : Nat :=
  match σ[k]? with
  | some r => r.sizeC
  | none => 0

/-- `sum(child.size() for child in self._children)` -/
def sumSizes (σ : Store α) : List Nat → Nat
  | [] => 0
  | k :: ks => sizeOf σ k + sumSizes σ ks

end Store

open Store

/-- thread a state through a list (the comprehension `[f(x) for x in xs]` with side effects) -/
def listM {S A B : Type} (f : S → A → Except AErr (S × B)) : S → List A → Except AErr (S × List B)
  | s, [] => .ok (s, [])
  | s, a :: as =>
    match f s a with
    | .error e => .error e
    | .ok (s1, b) =>
      match listM f s1 as with
      | .error e => .error e
      | .ok (s2, bs) => .ok (s2, b :: bs)

/-- `invalidate_hash()`:
```
self.hash_cache = None
self._size = 1 + sum(child.size() for child in self._children)
if self._parent is not None: self._parent.invalidate_hash()
``` -/
def invalidate : Nat → Store α → Nat → Except AErr (Store α)
  | 0, _, _ => .error .recursion
  | fuel + 1, σ, i =>
    match σ[i]? with
    | none => .error .dangling
    | some r =>
      let σ1 := σ.set i { r with hashC := none, sizeC := 1 + sumSizes σ r.kids }
      match r.parent with
      | none => .ok σ1
      | some p => invalidate fuel σ1 p

/-- `for child in self._children: child._parent = self` -/
def reparent (σ : Store α) (p : Nat) : List Nat → Store α
  | [] => σ
  | c :: cs => reparent (upd σ c (fun r => { r with parent := some p })) p cs

/-- `set_children(children)`:
```
self._children = children
for child in self._children: child._parent = self
self.invalidate_hash()
```
(the previous children keep their `_parent`) -/
def setChildren (fuel : Nat) (σ : Store α) (p : Nat) (cs : List Nat) : Except AErr (Store α) :=
  invalidate fuel (reparent (upd σ p (fun r => { r with kids := cs })) p cs) p

/-- `add_child(child)`: `self._children.append(child); child._parent = self; self.invalidate_hash()` -/
def addChild (fuel : Nat) (σ : Store α) (p c : Nat) : Except AErr (Store α) :=
  invalidate fuel
    (upd (upd σ p (fun r => { r with kids := r.kids ++ [c] })) c (fun r => { r with parent := some p })) p

/-- the three setters: `self._symbol = symbol; self.invalidate_hash()` (same for sender, recipient) -/
def setSym (fuel : Nat) (σ : Store α) (i : Nat) (s : Sym) : Except AErr (Store α) :=
  invalidate fuel (upd σ i (fun r => { r with sym := s })) i
def setSender (fuel : Nat) (σ : Store α) (i : Nat) (s : Option String) : Except AErr (Store α) :=
  invalidate fuel (upd σ i (fun r => { r with sender := s })) i
def setRecipient (fuel : Nat) (σ : Store α) (i : Nat) (s : Option String) : Except AErr (Store α) :=
  invalidate fuel (upd σ i (fun r => { r with recipient := s })) i

/-- a record as `__init__` leaves it before `self.set_children(children or [])` -/
def freshRec (sym : Sym) (sender recipient : Option String) (parent : Option Nat) (ro : Bool)
    (view : Bool) : NodeRec α :=
  { sym, sender, recipient, kids := [], parent, sizeC := 0, hashC := none, readOnly := ro, view }

/-- `DerivationTree(symbol, children, parent=…, sender=…, recipient=…, read_only=…)`.
The new object is index `σ.length`. -/
def mkNode (fuel : Nat) (σ : Store α) (sym : Sym) (sender recipient : Option String)
    (kids : List Nat) (parent : Option Nat) (ro : Bool) : Except AErr (Store α × Nat) :=
  let i := σ.length
  match setChildren fuel (σ ++ [freshRec sym sender recipient parent ro false]) i kids with
  | .error e => .error e
  | .ok σ' => .ok (σ', i)

/-- `SliceTree(children)`:
```
super().__init__(Slice(), [], read_only=read_only)
self._children = list(children)      # no re-parenting (fix F6)
self.invalidate_hash()
``` -/
def mkSlice (fuel : Nat) (σ : Store α) (kids : List Nat) : Except AErr (Store α × Nat) :=
  let i := σ.length
  match setChildren fuel (σ ++ [freshRec .slice none none none false true]) i [] with
  | .error e => .error e
  | .ok σ1 =>
    match invalidate fuel (upd σ1 i (fun r => { r with kids := kids })) i with
    | .error e => .error e
    | .ok σ2 => .ok (σ2, i)

/-! ### `__getitem__` -/

/-- Python's index normalisation `lst[k]` -/
def pyIndex (n : Nat) (k : Int) : Option Nat :=
  if 0 ≤ k then (if k.toNat < n then some k.toNat else none)
  else if (-k).toNat ≤ n then some (n - (-k).toNat) else none

/-- Python's `slice.indices` for step `None`: clamp one bound into `[0, n]` -/
def pyClamp (n : Nat) (dflt : Nat) : Option Int → Nat
  | none => dflt
  | some k => if 0 ≤ k then min k.toNat n else n - min (-k).toNat n

/-- `lst[a:b]` -/
def pySlice {β : Type} (l : List β) (a b : Option Int) : List β :=
  let n := l.length
  let s := pyClamp n 0 a
  let e := pyClamp n n b
  (l.drop s).take (e - s)

/-- `tree[k]` for an int `k`: the child object itself -/
def getItem (σ : Store α) (i : Nat) (k : Int) : Except AErr Nat :=
  match σ[i]? with
  | none => .error .dangling
  | some r =>
    match pyIndex r.kids.length k with
    | none => .error .index
    | some j =>
      match r.kids[j]? with
      | some c => .ok c
      | none => .error .index

/-- `tree[a:b]`: a new `SliceTree` over the selected child objects -/
def getSlice (fuel : Nat) (σ : Store α) (i : Nat) (a b : Option Int) : Except AErr (Store α × Nat) :=
  match σ[i]? with
  | none => .error .dangling
  | some r => mkSlice fuel σ (pySlice r.kids a b)

/-! ### `__hash__`, `__eq__` -/

/-- `__hash__`:
```
if self.hash_cache is None:
    self.hash_cache = hash((self.symbol, self.sender, self.recipient,
                            tuple(hash(child) for child in self._children)))
return self.hash_cache
``` -/
def hashNode (Hc : Sym → Option String → Option String → List α → α) :
    Nat → Store α → Nat → Except AErr (Store α × α)
  | 0, _, _ => .error .recursion
  | fuel + 1, σ, i =>
    match σ[i]? with
    | none => .error .dangling
    | some r =>
      match r.hashC with
      | some h => .ok (σ, h)
      | none =>
        match listM (hashNode Hc fuel) σ r.kids with
        | .error e => .error e
        | .ok (σ1, hs) =>
          let h := Hc r.sym r.sender r.recipient hs
          .ok (upd σ1 i (fun r' => { r' with hashC := some h }), h)

/-- `a == b` for two trees: `hash(self) == hash(other)` -/
def eqNode [DecidableEq α] (Hc : Sym → Option String → Option String → List α → α)
    (fuel : Nat) (σ : Store α) (i j : Nat) : Except AErr (Store α × Bool) :=
  match hashNode Hc fuel σ i with
  | .error e => .error e
  | .ok (σ1, h1) =>
    match hashNode Hc fuel σ1 j with
    | .error e => .error e
    | .ok (σ2, h2) => .ok (σ2, decide (h1 = h2))

end FV
