/-
E1 / arena, part 4: an executable checker for the bookkeeping invariant (`invB`), run by `drv_arena`
after every operation.  `Proofs/ArenaCheck.lean: invB_sound` proves that `invB … = true` implies `Inv`.
`hashTree` is the structural hash of a pure tree (the same function as `hashT` in the proofs).
-/
import Model.ArenaStep
namespace FV
open Store
variable {α : Type} [DecidableEq α]

/-- structural hash of a pure tree, children first -/
def hashTree (Hc : Sym → Option String → Option String → List α → α) : Tree → α
  | .mk s a r ks => Hc s a r (hashTrees Hc ks)
where hashTrees (Hc : Sym → Option String → Option String → List α → α) : List Tree → List α
  | [] => []
  | t :: ts => hashTree Hc t :: hashTrees Hc ts

def kidOk (σ : Store α) (i c : Nat) : Bool :=
  match σ[c]? with
  | some rc => decide (rc.parent = some i) && !rc.view
  | none => false

def nodeOk (Hc : Sym → Option String → Option String → List α → α) (fuel : Nat) (σ : Store α) (i : Nat)
    (r : NodeRec α) : Bool :=
  match absF fuel σ i with
  | none => false
  | some t =>
    (match r.parent with
     | none => true
     | some p => decide (p < σ.length)) &&
    (r.view ||
      (decide (r.sizeC = t.size) &&
       (match r.hashC with
        | none => true
        | some h => decide (h = hashTree Hc t)) &&
       r.kids.all (kidOk σ i)))

/-- every node denotes a finite tree; for the nodes that are not views: cached size = recount, cached
hash (if any) = recomputed hash, every listed child points back and is not a view -/
def invB (Hc : Sym → Option String → Option String → List α → α) (fuel : Nat) (σ : Store α) : Bool :=
  (List.range σ.length).all (fun i =>
    match σ[i]? with
    | some r => nodeOk Hc fuel σ i r
    | none => false)

end FV
