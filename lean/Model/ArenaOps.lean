/-
E1 / arena, part 2: abstraction function, `__deepcopy__`, `split_end` / `prefix`, `get_choices_path`,
`replace_multiple` (generator-free core), `append(hookin_path)`, and the read-only accessors.
Same conventions as `Model/Arena.lean`.
-/
import Model.Arena
namespace FV
open Store

variable {α : Type}

/-! ### abstraction: the pure tree a node currently denotes -/

/-- `[f(x) for x in xs]` for a partial `f` -/
def listO {A B : Type} (f : A → Option B) : List A → Option (List B)
  | [] => some []
  | a :: as =>
    match f a with
    | none => none
    | some b =>
      match listO f as with
      | none => none
      | some bs => some (b :: bs)

/-- `sum([f(x) for x in xs], [])` for an `f` that may raise -/
def listE {A B : Type} (f : A → Except AErr (List B)) : List A → Except AErr (List B)
  | [] => .ok []
  | a :: as =>
    match f a with
    | .error e => .error e
    | .ok b =>
      match listE f as with
      | .error e => .error e
      | .ok bs => .ok (b ++ bs)

/-- recomputation from the current structure (`none` = out of fuel, i.e. a cycle) -/
def absF : Nat → Store α → Nat → Option Tree
  | 0, _, _ => none
  | fuel + 1, σ, i =>
    match σ[i]? with
    | none => none
    | some r =>
      match listO (absF fuel σ) r.kids with
      | none => none
      | some ts => some (.mk r.sym r.sender r.recipient ts)

/-- the abstraction with the default fuel (a path without repetition has at most `σ.length` nodes) -/
def abs (σ : Store α) (i : Nat) : Option Tree := absF (σ.length + 1) σ i

/-! ### `__deepcopy__` -/

def memoGet (memo : List (Nat × Nat)) (i : Nat) : Option Nat :=
  match memo with
  | [] => none
  | (k, v) :: m => if k = i then some v else memoGet m i

/-- one element of `[copy.deepcopy(child, memo) for child in self._children]` (`f` = the recursive call) -/
def kidStep (f : Store α → List (Nat × Nat) → Nat → Bool → Bool → Except AErr (Store α × List (Nat × Nat) × Nat))
    (st : Store α × List (Nat × Nat)) (k : Nat) : Except AErr ((Store α × List (Nat × Nat)) × Nat) :=
  match f st.1 st.2 k true true with
  | .error e => .error e
  | .ok (σ', m', k') => .ok ((σ', m'), k')

/-- `__deepcopy__(memo, copy_children, copy_params, copy_parent)`:
```
if id(self) in memo: return memo[id(self)]
copied = DerivationTree(self.symbol, [], sender=…, recipient=…, sources=[], read_only=self.read_only, …)
memo[id(self)] = copied
if copy_children: copied.set_children([copy.deepcopy(child, memo) for child in self._children])
if copy_parent:   copied._parent = copy.deepcopy(self.parent, memo)
```
(`copy.deepcopy(x, memo)` calls `x.__deepcopy__(memo)` with all flags `True`; `deepcopy(None)` is `None`) -/
def deepcopyF : Nat → Store α → List (Nat × Nat) → Nat → Bool → Bool →
    Except AErr (Store α × List (Nat × Nat) × Nat)
  | 0, _, _, _, _, _ => .error .recursion
  | fuel + 1, σ, memo, i, cc, cp =>
    match memoGet memo i with
    | some c => .ok (σ, memo, c)
    | none =>
      match σ[i]? with
      | none => .error .dangling
      | some r =>
        match mkNode (fuel + 1) σ r.sym r.sender r.recipient [] none r.readOnly with
        | .error e => .error e
        | .ok (σ1, c) =>
          let memo1 := (i, c) :: memo
          let afterKids : Except AErr (Store α × List (Nat × Nat)) :=
            if cc then
              match listM (kidStep (deepcopyF fuel)) (σ1, memo1) r.kids with
              | .error e => .error e
              | .ok ((σ2, memo2), ks) =>
                match setChildren (fuel + 1) σ2 c ks with
                | .error e => .error e
                | .ok σ3 => .ok (σ3, memo2)
            else .ok (σ1, memo1)
          match afterKids with
          | .error e => .error e
          | .ok (σ3, memo3) =>
            if cp then
              match r.parent with
              | none => .ok (upd σ3 c (fun x => { x with parent := none }), memo3, c)
              | some p =>
                match deepcopyF fuel σ3 memo3 p true true with
                | .error e => .error e
                | .ok (σ4, memo4, p') => .ok (upd σ4 c (fun x => { x with parent := some p' }), memo4, c)
            else .ok (σ3, memo3, c)

/-- `tree.deepcopy(copy_children=…, copy_parent=…)` / `copy.deepcopy(tree)` (fresh memo) -/
def deepcopy (fuel : Nat) (σ : Store α) (i : Nat) (cc cp : Bool) : Except AErr (Store α × Nat) :=
  match deepcopyF fuel σ [] i cc cp with
  | .error e => .error e
  | .ok (σ', _, c) => .ok (σ', c)

/-! ### `split_end`, `prefix` -/

/-- `index_by_reference(lst, target)` -/
def indexOfRef (l : List Nat) (x : Nat) : Option Nat :=
  match l with
  | [] => none
  | y :: ys => if y = x then some 0 else (indexOfRef ys x).map (· + 1)

/-- `_split_end()`:
```
if self.parent is None: return self
me_idx = index_by_reference(self.parent.children, self)
if me_idx is None: raise ValueError
keep_children = self.parent.children[: me_idx + 1]
parent = self.parent._split_end()
parent.set_children(keep_children)
return self
``` -/
def splitEndF : Nat → Store α → Nat → Except AErr (Store α)
  | 0, _, _ => .error .recursion
  | fuel + 1, σ, i =>
    match σ[i]? with
    | none => .error .dangling
    | some r =>
      match r.parent with
      | none => .ok σ
      | some p =>
        match σ[p]? with
        | none => .error .dangling
        | some rp =>
          match indexOfRef rp.kids i with
          | none => .error .value
          | some me =>
            let keep := rp.kids.take (me + 1)
            match splitEndF fuel σ p with
            | .error e => .error e
            | .ok σ1 => setChildren (fuel + 1) σ1 p keep

/-- `split_end(copy_tree)`: `inst = copy.deepcopy(self) if copy_tree else self; return inst._split_end()` -/
def splitEnd (fuel : Nat) (σ : Store α) (i : Nat) (copy : Bool) : Except AErr (Store α × Nat) :=
  if copy then
    match deepcopy fuel σ i true true with
    | .error e => .error e
    | .ok (σ1, c) =>
      match splitEndF fuel σ1 c with
      | .error e => .error e
      | .ok σ2 => .ok (σ2, c)
  else
    match splitEndF fuel σ i with
    | .error e => .error e
    | .ok σ2 => .ok (σ2, i)

/-- `prefix(copy_tree)`:
```
ref_tree = self.split_end(copy_tree)
assert ref_tree.parent is not None
ref_tree = ref_tree.parent
ref_tree.set_children(ref_tree.children[:-1])
return ref_tree
``` -/
def prefixOp (fuel : Nat) (σ : Store α) (i : Nat) (copy : Bool) : Except AErr (Store α × Nat) :=
  match splitEnd fuel σ i copy with
  | .error e => .error e
  | .ok (σ1, c) =>
    match σ1[c]? with
    | none => .error .dangling
    | some rc =>
      match rc.parent with
      | none => .error .assertion
      | some p =>
        match σ1[p]? with
        | none => .error .dangling
        | some rp =>
          match setChildren fuel σ1 p rp.kids.dropLast with
          | .error e => .error e
          | .ok σ2 => .ok (σ2, p)

/-! ### `get_choices_path`, `replace_multiple` -/

/-- `get_choices_path()`: child indices from the root (by parent links) down to the node;
a node that its parent does not list raises `StepException` (no sources in the generator-free core) -/
def choicesPathF : Nat → Store α → Nat → List Nat → Except AErr (List Nat)
  | 0, _, _, _ => .error .recursion
  | fuel + 1, σ, i, acc =>
    match σ[i]? with
    | none => .error .dangling
    | some r =>
      match r.parent with
      | none => .ok acc
      | some p =>
        match σ[p]? with
        | none => .error .dangling
        | some rp =>
          match indexOfRef rp.kids i with
          | none => .error .step
          | some k => choicesPathF fuel σ p (k :: acc)

def choicesPath (fuel : Nat) (σ : Store α) (i : Nat) : Except AErr (List Nat) :=
  choicesPathF fuel σ i []

/-- the dict `path_to_replacement` (a later entry for the same path overwrites an earlier one) -/
def pathLookup (tbl : List (List Nat × Nat)) (p : List Nat) : Option Nat :=
  match tbl with
  | [] => none
  | (q, v) :: rest =>
    match pathLookup rest p with
    | some w => some w
    | none => if q = p then some v else none

def pathTable (fuel : Nat) (σ : Store α) : List (Nat × Nat) → Except AErr (List (List Nat × Nat))
  | [] => .ok []
  | (replacee, replacement) :: rest =>
    match choicesPath fuel σ replacee with
    | .error e => .error e
    | .ok p =>
      match pathTable fuel σ rest with
      | .error e => .error e
      | .ok tbl => .ok ((p, replacement) :: tbl)

/-- `enumerate(children)` as (child, index) pairs -/
def enumFrom {A : Type} : Nat → List A → List (A × Nat)
  | _, [] => []
  | n, a :: as => (a, n) :: enumFrom (n + 1) as
def enum {A : Type} (l : List A) : List (A × Nat) := enumFrom 0 l

/-- `if new_child != child: regen_params = True`: the comparison hashes `new_child`, then `child`
(both caches get filled); its outcome only matters for generators -/
def neProbe (Hc : Sym → Option String → Option String → List α → α) (F : Nat) (σ : Store α)
    (newChild child : Nat) : Except AErr (Store α × Nat) :=
  match hashNode Hc F σ newChild with
  | .error e => .error e
  | .ok (σ1, _) =>
    match hashNode Hc F σ1 child with
    | .error e => .error e
    | .ok (σ2, _) => .ok (σ2, newChild)

/-- `replace_multiple(grammar, replacements, path_to_replacement, current_path)` without generators:
```
if current_path in path_to_replacement and self.symbol == path_to_replacement[current_path].symbol \
        and not self.read_only:
    new_subtree = path_to_replacement[current_path].deepcopy(copy_children=True, copy_params=False, copy_parent=False)
    new_subtree._parent = self.parent
    new_children = [child.replace_multiple(…, current_path + (ChildStep(i),)) for i, child in enumerate(new_subtree._children)]
    new_subtree.set_children(new_children)
    return new_subtree
new_children = []
for i, child in enumerate(self._children):
    new_child = child.replace_multiple(…, current_path + (ChildStep(i),)); new_children.append(new_child)
    if new_child != child: regen_params = True          # hashes both
return DerivationTree(self.symbol, new_children, parent=self.parent, sender=…, recipient=…, read_only=self.read_only)
``` -/
def replaceF (Hc : Sym → Option String → Option String → List α → α) (F : Nat) :
    Nat → Store α → List (List Nat × Nat) → Nat → List Nat → Except AErr (Store α × Nat)
  | 0, _, _, _, _ => .error .recursion
  | fuel + 1, σ, tbl, i, path =>
    match σ[i]? with
    | none => .error .dangling
    | some r =>
      let hit : Option Nat :=
        match pathLookup tbl path with
        | none => none
        | some rep =>
          match σ[rep]? with
          | none => none
          | some rr => if r.sym = rr.sym ∧ r.readOnly = false then some rep else none
      match hit with
      | some rep =>
        match deepcopy (fuel + 1) σ rep true false with
        | .error e => .error e
        | .ok (σ1, c) =>
          let σ2 := upd σ1 c (fun x => { x with parent := r.parent })
          match σ2[c]? with
          | none => .error .dangling
          | some rc =>
            match listM (fun (st : Store α) (kn : Nat × Nat) => replaceF Hc F fuel st tbl kn.1 (path ++ [kn.2])) σ2 (enum rc.kids) with
            | .error e => .error e
            | .ok (σ3, ks) =>
              match setChildren (fuel + 1) σ3 c ks with
              | .error e => .error e
              | .ok σ4 => .ok (σ4, c)
      | none =>
        match listM (fun (st : Store α) (kn : Nat × Nat) =>
            match replaceF Hc F fuel st tbl kn.1 (path ++ [kn.2]) with
            | .error e => .error e
            | .ok (st1, k') => neProbe Hc F st1 k' kn.1) σ (enum r.kids) with
        | .error e => .error e
        | .ok (σ1, ks) => mkNode (fuel + 1) σ1 r.sym r.sender r.recipient ks r.parent r.readOnly

/-- `self.replace_multiple(grammar, replacements)` (top-level call: builds the path table, starts at
`self.get_choices_path()`) -/
def replaceMultiple (Hc : Sym → Option String → Option String → List α → α) (fuel : Nat) (σ : Store α)
    (i : Nat) (reps : List (Nat × Nat)) :
    Except AErr (Store α × Nat) :=
  match pathTable fuel σ reps with
  | .error e => .error e
  | .ok tbl =>
    match choicesPath fuel σ i with
    | .error e => .error e
    | .ok p => replaceF Hc fuel fuel σ tbl i p

/-! ### `append(hookin_path, tree)` -/

/-- the first half of one level of `append`: `if add_new_node: self.add_child(DerivationTree(next_nt))`
`elif <last child is not a next_nt node>: raise ValueError` -/
def appendStep1 (fuel : Nat) (σ : Store α) (i : Nat) (nt : String) (addNew : Bool) : Store α × Option AErr :=
  if addNew then
    match mkNode fuel σ (.nt nt) none none [] none false with
    | .error e => (σ, some e)
    | .ok (σ1, c) =>
      match addChild fuel σ1 i c with
      | .error e => (σ, some e)
      | .ok σ2 => (σ2, none)
  else
    match σ[i]? with
    | none => (σ, some .dangling)
    | some r =>
      match r.kids.getLast? with
      | none => (σ, some .value)
      | some l =>
        match σ[l]? with
        | none => (σ, some .dangling)
        | some rl => if rl.sym = .nt nt then (σ, none) else (σ, some .value)

/-- ```
if len(hookin_path) == 0: self.add_child(tree); return
next_nt, add_new_node = hookin_path[0]
if add_new_node: self.add_child(DerivationTree(next_nt))
elif len(self.children) == 0 or not isinstance(self.children[-1].symbol, NonTerminal) \
        or self.children[-1].symbol.name() != next_nt.name(): raise ValueError
self.children[-1].append(hookin_path[1:], tree)
```
The nodes added on the way down stay when a deeper level raises: the store is returned in both cases. -/
def appendOp (fuel : Nat) (σ : Store α) (i : Nat) : List (String × Bool) → Nat → Store α × Option AErr
  | [], t =>
    match addChild fuel σ i t with
    | .error e => (σ, some e)
    | .ok σ1 => (σ1, none)
  | (nt, addNew) :: rest, t =>
    match appendStep1 fuel σ i nt addNew with
    | (σ1, some e) => (σ1, some e)
    | (σ1, none) =>
      match σ1[i]? with
      | none => (σ1, some .dangling)
      | some r1 =>
        match r1.kids.getLast? with
        | none => (σ1, some .index)
        | some l => appendOp fuel σ1 l rest t

/-! ### read-only accessors: functions of the store that return no store -/

/-- `size()` -/
def sizeOp (σ : Store α) (i : Nat) : Except AErr Nat :=
  match σ[i]? with
  | none => .error .dangling
  | some r => .ok r.sizeC

/-- `.parent` -/
def parentOp (σ : Store α) (i : Nat) : Except AErr (Option Nat) :=
  match σ[i]? with
  | none => .error .dangling
  | some r => .ok r.parent

/-- `get_path()`: the parent chain, root first -/
def getPathF : Nat → Store α → Nat → List Nat → Except AErr (List Nat)
  | 0, _, _, _ => .error .recursion
  | fuel + 1, σ, i, acc =>
    match σ[i]? with
    | none => .error .dangling
    | some r =>
      match r.parent with
      | none => .ok (i :: acc)
      | some p => getPathF fuel σ p (i :: acc)

def getPath (fuel : Nat) (σ : Store α) (i : Nat) : Except AErr (List Nat) := getPathF fuel σ i []

/-- `flatten()`: pre-order list of node objects -/
def flattenF : Nat → Store α → Nat → Except AErr (List Nat)
  | 0, _, _ => .error .recursion
  | fuel + 1, σ, i =>
    match σ[i]? with
    | none => .error .dangling
    | some r =>
      match listE (flattenF fuel σ) r.kids with
      | .error e => .error e
      | .ok l => .ok (i :: l)

def symOf (σ : Store α) (i : Nat) : Option Sym := (σ[i]?).map (·.sym)

def isNT (σ : Store α) (i : Nat) : Bool :=
  match symOf σ i with
  | some (.nt _) => true
  | _ => false

/-- `find_all_trees(symbol)`:
```
trees = sum([child.find_all_trees(symbol) for child in self._children if child.symbol.is_non_terminal], [])
if self.symbol == symbol: trees.append(self)
``` -/
def findAllF : Nat → Store α → Nat → String → Except AErr (List Nat)
  | 0, _, _, _ => .error .recursion
  | fuel + 1, σ, i, name =>
    match σ[i]? with
    | none => .error .dangling
    | some r =>
      match listE (fun k => findAllF fuel σ k name) (r.kids.filter (isNT σ)) with
      | .error e => .error e
      | .ok l => .ok (if r.sym = .nt name then l ++ [i] else l)

/-- `find_direct_trees(symbol)` -/
def findDirect (σ : Store α) (i : Nat) (name : String) : Except AErr (List Nat) :=
  match σ[i]? with
  | none => .error .dangling
  | some r => .ok (r.kids.filter (fun k => symOf σ k = some (.nt name)))

end FV
