/-
E1 / arena, part 3: the operation language replayed by `drv_arena` and quantified over by
`Props/C10.lean` (`step`, `runOps`).  Operands are node indices.
-/
import Model.ArenaOps
namespace FV
open Store

inductive Op where
  | mk (sym : Sym) (sender recipient : Option String) (kids : List Nat) (ro : Bool)
  | addChild (p c : Nat)
  | setChildren (p : Nat) (cs : List Nat)
  | setSym (i : Nat) (s : Sym)
  | setSender (i : Nat) (s : Option String)
  | setRecipient (i : Nat) (s : Option String)
  | hash (i : Nat)
  | eq (i j : Nat)
  | deepcopy (i : Nat) (cc cp : Bool)
  | getItem (i : Nat) (k : Int)
  | getSlice (i : Nat) (a b : Option Int)
  | splitEnd (i : Nat) (copy : Bool)
  | prefix (i : Nat) (copy : Bool)
  | replace (i : Nat) (reps : List (Nat × Nat))
  | append (i : Nat) (path : List (String × Bool)) (t : Nat)
  -- read-only accessors
  | size (i : Nat)
  | parent (i : Nat)
  | getPath (i : Nat)
  | flatten (i : Nat)
  | findAll (i : Nat) (name : String)
  | findDirect (i : Nat) (name : String)
  | choicesPath (i : Nat)
  | value (i : Nat)
  deriving Repr

/-- is the operation one of the read-only accessors of the property statement (indexing, slicing,
    searches, value conversion, …)?  `getSlice` allocates the `SliceTree` it returns. -/
def Op.accessor : Op → Bool
  | .getItem .. | .getSlice .. | .size .. | .parent .. | .getPath .. | .flatten .. | .findAll ..
  | .findDirect .. | .choicesPath .. | .value .. => true
  | _ => false

inductive Res (α : Type) where
  | unit
  | node (n : Nat)
  | optNode (n : Option Nat)
  | nodes (l : List Nat)
  | nat (n : Nat)
  | hashv (h : α)
  | bool (b : Bool)
  | path (p : List Nat)
  | val (v : Option (Except Err TV))      -- `none`: cyclic structure
  | err (e : AErr)

variable {α : Type} [DecidableEq α]

def liftS (σ : Store α) (r : Except AErr (Store α)) : Store α × Res α :=
  match r with
  | .error e => (σ, .err e)
  | .ok σ' => (σ', .unit)

def liftN (σ : Store α) (r : Except AErr (Store α × Nat)) : Store α × Res α :=
  match r with
  | .error e => (σ, .err e)
  | .ok (σ', n) => (σ', .node n)

def liftR {β : Type} (σ : Store α) (f : β → Res α) (r : Except AErr β) : Store α × Res α :=
  match r with
  | .error e => (σ, .err e)
  | .ok b => (σ, f b)

/-- one public operation.  An operation that raises leaves the store as it was, except `append`
    (see `appendOp`).  `fuel` bounds every walk through the store. -/
def step (Hc : Sym → Option String → Option String → List α → α) (fuel : Nat) (σ : Store α) :
    Op → Store α × Res α
  | .mk sym a r kids ro => liftN σ (mkNode fuel σ sym a r kids none ro)
  | .addChild p c => liftS σ (addChild fuel σ p c)
  | .setChildren p cs => liftS σ (setChildren fuel σ p cs)
  | .setSym i s => liftS σ (setSym fuel σ i s)
  | .setSender i s => liftS σ (setSender fuel σ i s)
  | .setRecipient i s => liftS σ (setRecipient fuel σ i s)
  | .hash i =>
    match hashNode Hc fuel σ i with
    | .error e => (σ, .err e)
    | .ok (σ', h) => (σ', .hashv h)
  | .eq i j =>
    match eqNode Hc fuel σ i j with
    | .error e => (σ, .err e)
    | .ok (σ', b) => (σ', .bool b)
  | .deepcopy i cc cp => liftN σ (deepcopy fuel σ i cc cp)
  | .getItem i k => liftR σ .node (getItem σ i k)
  | .getSlice i a b => liftN σ (getSlice fuel σ i a b)
  | .splitEnd i c => liftN σ (splitEnd fuel σ i c)
  | .prefix i c => liftN σ (prefixOp fuel σ i c)
  | .replace i reps => liftN σ (replaceMultiple Hc fuel σ i reps)
  | .append i path t =>
    match appendOp fuel σ i path t with
    | (σ', some e) => (σ', .err e)
    | (σ', none) => (σ', .unit)
  | .size i => liftR σ .nat (sizeOp σ i)
  | .parent i => liftR σ .optNode (parentOp σ i)
  | .getPath i => liftR σ .nodes (getPath fuel σ i)
  | .flatten i => liftR σ .nodes (flattenF fuel σ i)
  | .findAll i name => liftR σ .nodes (findAllF fuel σ i name)
  | .findDirect i name => liftR σ .nodes (findDirect σ i name)
  | .choicesPath i => liftR σ .path (choicesPath fuel σ i)
  | .value i => (σ, .val ((absF fuel σ i).map Tree.value))

/-- replay a history from a store -/
def runOps (Hc : Sym → Option String → Option String → List α → α) (fuel : Nat) :
    Store α → List Op → Store α
  | σ, [] => σ
  | σ, op :: ops => runOps Hc fuel (step Hc fuel σ op).1 ops

end FV
