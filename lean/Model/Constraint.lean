/-
E4 / constraints.  Hand-written executable model of `src/fandango/constraints/*.py`:
`GeneticBase.combinations`, and `fitness()` of `ExpressionConstraint`, `ComparisonConstraint`,
`ConjunctionConstraint`, `DisjunctionConstraint`, `ImplicationConstraint`, `ForallConstraint`,
`ExistsConstraint`, with the `solved/total/success` bookkeeping of `ConstraintFitness` /
`DistanceAwareConstraintFitness`.

Two semantics:

* `denote`  — the documented meaning (docs/Constraints.md, docs/Paths.md): a constraint holds iff its
  expression is truthy for *every* combination of matches of the symbols it mentions (no match =
  nothing to violate; a combination whose evaluation raises does not satisfy it); `and`/`or` as in
  logic; `all(… for x in *S)` / `forall` hold iff the body holds for every match of `S` with `x`
  bound to it *for the body only*, `any`/`exists` iff it holds for some match.
* `opFit`   — the operational model of `fitness()`: counters, eager/lazy evaluation, the `scope` and
  `local_variables` dictionaries threaded through the calls exactly as the code threads them.
  `OpCfg` records the two code shapes the translator reads from the source on every run:
  whether the quantifiers bind on a *copy* of the dictionaries (fix 0c4c2f46) or write into the
  caller's (`.shared`), and whether a comparison side that raises records `0.0` (fix 90f1d189) or
  is skipped.

Atoms are a small typed expression language with a *raising* evaluator (`int("a")`, unbound names);
arbitrary Python is not modelled (see C08).  A comparison's sides have the same type by
construction, so `Comparison.compare` itself cannot raise in the model; the harness only generates
such programs (the real code lets a raising `compare`, like a raising selector, escape `fitness()`).

Tied to /repo by `harness/props/c07.py`.  No imports outside Model/: linked into `drv_cons`.
-/
import Model.Search
namespace FV

/-- `local_variables: dict[str, Any]`; the only values a quantifier binds are trees -/
abbrev Locals := List (String × Tree)

/-- `d[k] = v` on a dict given as an association list -/
def dictSet (k : String) (v : Tree) (d : List (String × Tree)) : List (String × Tree) :=
  (k, v) :: d.filter (fun p => p.1 != k)

/-! ## atoms -/

/-- exceptions raised while evaluating an expression (all caught by `fitness`) -/
inductive EvErr where
  | name      -- NameError: unbound placeholder / variable
  | pyValue   -- ValueError: `int("a")`
  | conv      -- FandangoConversionError
  | type      -- ill-typed use of a container (never generated; the driver rejects such programs)
  deriving DecidableEq, Repr, Inhabited

/-- a reference inside an expression: the `i`-th search placeholder of the constraint, or a Python
    variable bound by an enclosing `any(… for x in …)` / `all(…)` -/
inductive Ref where
  | ph (i : Nat)
  | var (x : String)
  deriving DecidableEq, Repr

inductive STerm where
  | lit (s : Str)            -- "abc"
  | strOf (r : Ref)          -- str(<x>)
  deriving DecidableEq, Repr

inductive ITerm where
  | lit (i : Int)            -- 42
  | intOf (r : Ref)          -- int(<x>)     raises ValueError on a non-numeric string
  | lenOf (r : Ref)          -- |<x>| , len(*<x>)   (the placeholder of a LengthSearch)
  deriving DecidableEq, Repr

inductive CmpOp where
  | eq | ne | lt | le | gt | ge
  deriving DecidableEq, Repr

/-- a comparison between two strings or two integers -/
inductive Cmp where
  | s (op : CmpOp) (l r : STerm)
  | i (op : CmpOp) (l r : ITerm)
  deriving DecidableEq, Repr

inductive BExpr where
  | tt | ff
  | cmp (c : Cmp)
  | startsWith (t : STerm) (p : Str)     -- T.startswith("p")
  | inStar (s : Str) (r : Ref)           -- "s" in *<x>
  | not (e : BExpr)
  | and (a b : BExpr)                    -- Python `and` / `or`: short-circuit
  | or (a b : BExpr)
  deriving DecidableEq, Repr

/-- the variables an expression is evaluated with: one container per placeholder + the locals -/
structure Env where
  phs : List Cont
  loc : Locals

inductive PyVal where
  | tree (t : Tree)
  | list (ts : List Tree)
  | int (n : Nat)

/-- `Container.evaluate()` -/
def Cont.evaluate : Cont → PyVal
  | .tree t => .tree t
  | .list ts => .list ts
  | .len ts => .int ts.length

def Ref.resolve (env : Env) : Ref → Except EvErr PyVal
  | .ph i => match env.phs[i]? with
    | some c => .ok c.evaluate
    | none => .error .name
  | .var x => match env.loc.lookup x with
    | some t => .ok (.tree t)
    | none => .error .name

/-- `str(tree)` -/
def treeStr (t : Tree) : Except EvErr Str :=
  match t.value with
  | .error _ => .error .conv
  | .ok v => match v.toStrWith .utf8 with
    | .error _ => .error .conv
    | .ok s => .ok s

/-- `int(tree)` -/
def treeInt (t : Tree) : Except EvErr Int :=
  match t.value with
  | .error _ => .error .conv
  | .ok v => match v.toInt .utf8 with
    | .ok i => .ok i
    | .err .pyValue => .error .pyValue
    | .err _ => .error .conv
    | .unknown => .error .type      -- non-ASCII text: not modelled; the driver rejects such trees

def STerm.eval (env : Env) : STerm → Except EvErr Str
  | .lit s => .ok s
  | .strOf r => match r.resolve env with
    | .error e => .error e
    | .ok (.tree t) => treeStr t
    | .ok _ => .error .type

def ITerm.eval (env : Env) : ITerm → Except EvErr Int
  | .lit i => .ok i
  | .intOf r => match r.resolve env with
    | .error e => .error e
    | .ok (.tree t) => treeInt t
    | .ok _ => .error .type
  | .lenOf r => match r.resolve env with
    | .error e => .error e
    | .ok (.int n) => .ok n
    | .ok _ => .error .type

/-- lexicographic order on code points (Python `str.__lt__`) -/
def strLt : Str → Str → Bool
  | _, [] => false
  | [], _ :: _ => true
  | a :: as, b :: bs => a < b || (a == b && strLt as bs)

def CmpOp.onStr (op : CmpOp) (l r : Str) : Bool :=
  match op with
  | .eq => l == r
  | .ne => l != r
  | .lt => strLt l r
  | .le => !strLt r l
  | .gt => strLt r l
  | .ge => !strLt l r

def CmpOp.onInt (op : CmpOp) (l r : Int) : Bool :=
  match op with
  | .eq => l == r
  | .ne => l != r
  | .lt => l < r
  | .le => l ≤ r
  | .gt => l > r
  | .ge => l ≥ r

/-- left side, then right side, then `Comparison.compare` -/
def Cmp.eval (env : Env) : Cmp → Except EvErr Bool
  | .s op l r => match l.eval env with
    | .error e => .error e
    | .ok a => match r.eval env with
      | .error e => .error e
      | .ok b => .ok (op.onStr a b)
  | .i op l r => match l.eval env with
    | .error e => .error e
    | .ok a => match r.eval env with
      | .error e => .error e
      | .ok b => .ok (op.onInt a b)

def anyE {α ε : Type} (f : α → Except ε Bool) : List α → Except ε Bool
  | [] => .ok false
  | x :: xs => match f x with
    | .error e => .error e
    | .ok true => .ok true
    | .ok false => anyE f xs

def BExpr.eval (env : Env) : BExpr → Except EvErr Bool
  | .tt => .ok true
  | .ff => .ok false
  | .cmp c => c.eval env
  | .startsWith t p => match t.eval env with
    | .error e => .error e
    | .ok s => .ok (p.isPrefixOf s)
  | .inStar s r => match r.resolve env with
    | .error e => .error e
    | .ok (.list ts) => anyE (fun t => match treeStr t with
                                       | .error e => .error e
                                       | .ok x => .ok (x == s)) ts
    | .ok _ => .error .type
  | .not e => match e.eval env with
    | .error x => .error x
    | .ok b => .ok (!b)
  | .and a b => match a.eval env with
    | .error x => .error x
    | .ok false => .ok false
    | .ok true => b.eval env
  | .or a b => match a.eval env with
    | .error x => .error x
    | .ok true => .ok true
    | .ok false => b.eval env

/-! ## constraints -/

/-- what a quantifier binds: a non-terminal (entered into `scope`) or a Python name (entered into
    `local_variables`) -/
inductive Bound where
  | nt (s : String)
  | var (x : String)
  deriving DecidableEq, Repr

mutual
inductive Cons where
  | expr (e : BExpr) (ss : List Search)                 -- ExpressionConstraint(expression, searches)
  | cmp (c : Cmp) (ss : List Search)                    -- ComparisonConstraint(op, left, right, l/r searches)
  | conj (lz : Bool) (cs : ConsL)
  | disj (lz : Bool) (cs : ConsL)
  | impl (a c : Cons)
  | all (lz : Bool) (b : Bound) (s : Search) (body : Cons)
  | any (lz : Bool) (b : Bound) (s : Search) (body : Cons)
inductive ConsL where
  | nil
  | cons (c : Cons) (cs : ConsL)
end

def ConsL.length : ConsL → Nat
  | .nil => 0
  | .cons _ cs => cs.length + 1

/-- `ConstraintFitness` (`dist = none`) / `DistanceAwareConstraintFitness` (`dist = some values`,
    `true` = 1.0, `false` = 0.0: `_distance_norm` never returns a number, so no other value occurs) -/
structure Fit where
  solved : Nat
  total : Nat
  success : Bool
  dist : Option (List Bool)
  deriving DecidableEq, Repr

def isOkTrue {ε : Type} : Except ε Bool → Bool
  | .ok true => true
  | _ => false

/-- `ExpressionConstraint.fitness`: one evaluation per combination; no combination = perfect -/
def exprFit (rs : List (Except EvErr Bool)) : Fit :=
  if rs.isEmpty then ⟨1, 1, true, none⟩
  else
    let solved := rs.countP isOkTrue
    ⟨solved, rs.length, solved == rs.length, none⟩

/-- `ComparisonConstraint.fitness`: the list of fitness values.  `skipRaise = false` is the code after
    fix 90f1d189 (a raising side appends 0.0), `true` the code before it (`continue`). -/
def cmpValues (skipRaise : Bool) (rs : List (Except EvErr Bool)) : List Bool :=
  if rs.isEmpty then [true]
  else if skipRaise then rs.filterMap (fun r => match r with | .ok b => some b | .error _ => none)
  else rs.map isOkTrue

def cmpFit (skipRaise : Bool) (rs : List (Except EvErr Bool)) : Fit :=
  let vs := cmpValues skipRaise rs
  ⟨vs.countP id, vs.length, vs.all id, some vs⟩

def sumSolved (fs : List Fit) : Nat := (fs.map (·.solved)).sum
def sumTotal (fs : List Fit) : Nat := (fs.map (·.total)).sum

/-- `ConjunctionConstraint.fitness` aggregation (`n = len(self.constraints)`) -/
def conjFit (n : Nat) (fs : List Fit) : Fit :=
  let overall := fs.all (·.success)
  if n > 1 then ⟨sumSolved fs + (if overall then 1 else 0), sumTotal fs + 1, overall, none⟩
  else ⟨sumSolved fs, sumTotal fs, overall, none⟩

/-- `DisjunctionConstraint.fitness` aggregation -/
def disjFit (n : Nat) (fs : List Fit) : Fit :=
  let overall := fs.any (·.success)
  if n > 1 then ⟨if overall then sumTotal fs + 1 else sumSolved fs, sumTotal fs + 1, overall, none⟩
  else ⟨sumSolved fs, sumTotal fs, overall, none⟩

/-- `ImplicationConstraint.fitness`, antecedent satisfied: the *copied* consequent fitness with one more
    point -/
def implFit (f : Fit) : Fit :=
  ⟨f.solved + (if f.success then 1 else 0), f.total + 1, f.success, f.dist⟩

def trivialFit : Fit := ⟨1, 1, true, none⟩

/-- `ForallConstraint.fitness` aggregation -/
def allFit (fs : List Fit) : Fit :=
  let overall := fs.all (·.success)
  ⟨if overall then sumTotal fs + 1 else sumSolved fs, sumTotal fs + 1, overall, none⟩

/-- `ExistsConstraint.fitness` aggregation -/
def anyFit (fs : List Fit) : Fit :=
  let overall := fs.any (·.success)
  ⟨if overall then sumTotal fs + 1 else sumSolved fs, sumTotal fs + 1, overall, none⟩

/-- `itertools.product` -/
def product {α : Type} : List (List α) → List (List α)
  | [] => [[]]
  | m :: ms => m.flatMap (fun x => (product ms).map (x :: ·))

/-- `GeneticBase.combinations`: every search is run (any of them may raise), then the product -/
def combinations (ss : List Search) (t : Tree) (σ : Scope) : Except SErr (List (List Cont)) :=
  match mapE (fun s => s.find t σ) ss with
  | .error e => .error e
  | .ok ms => .ok (product ms)

def bindσ (b : Bound) (v : Tree) (σ : Scope) : Scope :=
  match b with
  | .nt s => dictSet s v σ
  | .var _ => σ

def bindρ (b : Bound) (v : Tree) (ρ : Locals) : Locals :=
  match b with
  | .nt _ => ρ
  | .var x => dictSet x v ρ

inductive Binding where
  | copy      -- `scope = dict(scope) if scope else dict()`
  | shared    -- `scope = scope or dict()`
  deriving DecidableEq, Repr

structure OpCfg where
  binding : Binding
  skipRaise : Bool
  deriving DecidableEq, Repr

/-- the code after the fixes -/
def OpCfg.fixed : OpCfg := ⟨.copy, false⟩

/-- what the caller's dictionary looks like after a quantifier returns -/
def dictOut (m : Binding) (orig cur : List (String × Tree)) : List (String × Tree) :=
  match m with
  | .copy => orig
  | .shared => if orig.isEmpty then orig else cur       -- `x or dict()` made a fresh dict for an empty one

abbrev St := Fit × Scope × Locals

/-- the loop of a quantifier: bind, evaluate the body, optionally stop (`stop = some b`: leave the loop
    after the first body whose success is `b`).  The dictionaries are threaded. -/
def runQ (g : Tree → Scope → Locals → Except SErr St) (stop : Option Bool) :
    List Tree → Scope → Locals → Except SErr (List Fit × Scope × Locals)
  | [], σ, ρ => .ok ([], σ, ρ)
  | v :: vs, σ, ρ =>
    match g v σ ρ with
    | .error e => .error e
    | .ok (f, σ1, ρ1) =>
      if stop = some f.success then .ok ([f], σ1, ρ1)
      else match runQ g stop vs σ1 ρ1 with
        | .error e => .error e
        | .ok (fs, σ2, ρ2) => .ok (f :: fs, σ2, ρ2)

def stopOf (lz : Bool) (b : Bool) : Option Bool := if lz then some b else none

mutual
/-- `Constraint.fitness(tree, scope, local_variables)`; returns the fitness and the two dictionaries
    as the caller sees them afterwards -/
def opFit (cfg : OpCfg) : Cons → Tree → Scope → Locals → Except SErr St
  | .expr e ss, t, σ, ρ =>
    match combinations ss t σ with
    | .error x => .error x
    | .ok cbs => .ok (exprFit (cbs.map (fun cb => e.eval ⟨cb, ρ⟩)), σ, ρ)
  | .cmp c ss, t, σ, ρ =>
    match combinations ss t σ with
    | .error x => .error x
    | .ok cbs => .ok (cmpFit cfg.skipRaise (cbs.map (fun cb => c.eval ⟨cb, ρ⟩)), σ, ρ)
  | .conj lz cs, t, σ, ρ =>
    match runL cfg (stopOf lz false) cs t σ ρ with
    | .error x => .error x
    | .ok (fs, σ', ρ') => .ok (conjFit cs.length fs, σ', ρ')
  | .disj lz cs, t, σ, ρ =>
    match runL cfg (stopOf lz true) cs t σ ρ with
    | .error x => .error x
    | .ok (fs, σ', ρ') => .ok (disjFit cs.length fs, σ', ρ')
  | .impl a c, t, σ, ρ =>
    match opFit cfg a t σ ρ with
    | .error x => .error x
    | .ok (fa, σ1, ρ1) =>
      if fa.success then
        match opFit cfg c t σ1 ρ1 with
        | .error x => .error x
        | .ok (fc, σ2, ρ2) => .ok (implFit fc, σ2, ρ2)
      else .ok (trivialFit, σ1, ρ1)
  | .all lz b s body, t, σ, ρ =>
    match s.quantify t σ with
    | .error x => .error x
    | .ok vs =>
      match runQ (fun v σc ρc => opFit cfg body t (bindσ b v σc) (bindρ b v ρc)) (stopOf lz false) vs σ ρ with
      | .error x => .error x
      | .ok (fs, σ', ρ') => .ok (allFit fs, dictOut cfg.binding σ σ', dictOut cfg.binding ρ ρ')
  | .any lz b s body, t, σ, ρ =>
    match s.quantify t σ with
    | .error x => .error x
    | .ok vs =>
      match runQ (fun v σc ρc => opFit cfg body t (bindσ b v σc) (bindρ b v ρc)) (stopOf lz true) vs σ ρ with
      | .error x => .error x
      | .ok (fs, σ', ρ') => .ok (anyFit fs, dictOut cfg.binding σ σ', dictOut cfg.binding ρ ρ')
/-- the loop over `self.constraints` of a conjunction / disjunction -/
def runL (cfg : OpCfg) (stop : Option Bool) : ConsL → Tree → Scope → Locals → Except SErr (List Fit × Scope × Locals)
  | .nil, _, σ, ρ => .ok ([], σ, ρ)
  | .cons c cs, t, σ, ρ =>
    match opFit cfg c t σ ρ with
    | .error x => .error x
    | .ok (f, σ1, ρ1) =>
      if stop = some f.success then .ok ([f], σ1, ρ1)
      else match runL cfg stop cs t σ1 ρ1 with
        | .error x => .error x
        | .ok (fs, σ2, ρ2) => .ok (f :: fs, σ2, ρ2)
end

/-- `Constraint.check(tree, scope, local_variables)` = `fitness(…).success`; `none` = an exception
    escaped -/
def check (cfg : OpCfg) (c : Cons) (t : Tree) (σ : Scope) (ρ : Locals) : Option Bool :=
  match opFit cfg c t σ ρ with
  | .error _ => none
  | .ok (f, _, _) => some f.success

/-! ## the documented meaning -/

mutual
def denote : Cons → Tree → Scope → Locals → Bool
  | .expr e ss, t, σ, ρ =>
    match combinations ss t σ with
    | .error _ => false
    | .ok cbs => cbs.all (fun cb => isOkTrue (e.eval ⟨cb, ρ⟩))
  | .cmp c ss, t, σ, ρ =>
    match combinations ss t σ with
    | .error _ => false
    | .ok cbs => cbs.all (fun cb => isOkTrue (c.eval ⟨cb, ρ⟩))
  | .conj _ cs, t, σ, ρ => denoteAll cs t σ ρ
  | .disj _ cs, t, σ, ρ => denoteAny cs t σ ρ
  | .impl a c, t, σ, ρ => !denote a t σ ρ || denote c t σ ρ
  | .all _ b s body, t, σ, ρ =>
    match s.quantify t σ with
    | .error _ => false
    | .ok vs => vs.all (fun v => denote body t (bindσ b v σ) (bindρ b v ρ))
  | .any _ b s body, t, σ, ρ =>
    match s.quantify t σ with
    | .error _ => false
    | .ok vs => vs.any (fun v => denote body t (bindσ b v σ) (bindρ b v ρ))
def denoteAll : ConsL → Tree → Scope → Locals → Bool
  | .nil, _, _, _ => true
  | .cons c cs, t, σ, ρ => denote c t σ ρ && denoteAll cs t σ ρ
def denoteAny : ConsL → Tree → Scope → Locals → Bool
  | .nil, _, _, _ => false
  | .cons c cs, t, σ, ρ => denote c t σ ρ || denoteAny cs t σ ρ
end

/-! ## the `lazy` flag (`parse(..., lazy=…)` sets it on every combinator) -/

mutual
def Cons.withLazy (z : Bool) : Cons → Cons
  | .expr e ss => .expr e ss
  | .cmp c ss => .cmp c ss
  | .conj _ cs => .conj z (cs.withLazy z)
  | .disj _ cs => .disj z (cs.withLazy z)
  | .impl a c => .impl (a.withLazy z) (c.withLazy z)
  | .all _ b s body => .all z b s (body.withLazy z)
  | .any _ b s body => .any z b s (body.withLazy z)
def ConsL.withLazy (z : Bool) : ConsL → ConsL
  | .nil => .nil
  | .cons c cs => .cons (c.withLazy z) (cs.withLazy z)
end

/-! ## static typing of programs (what the generator produces; the driver rejects anything else) -/

inductive Kind where
  | tree | list | int
  deriving DecidableEq, Repr

def Search.kind : Search → Kind
  | .star _ => .list
  | .len _ => .int
  | _ => .tree

def Ref.kindIn (ks : List Kind) (vars : List String) : Ref → Option Kind
  | .ph i => ks[i]?
  | .var x => if vars.contains x then some .tree else none

def STerm.typed (ks : List Kind) (vars : List String) : STerm → Bool
  | .lit _ => true
  | .strOf r => r.kindIn ks vars == some .tree

def ITerm.typed (ks : List Kind) (vars : List String) : ITerm → Bool
  | .lit _ => true
  | .intOf r => r.kindIn ks vars == some .tree
  | .lenOf r => r.kindIn ks vars == some .int

def Cmp.typed (ks : List Kind) (vars : List String) : Cmp → Bool
  | .s _ l r => l.typed ks vars && r.typed ks vars
  | .i _ l r => l.typed ks vars && r.typed ks vars

def BExpr.typed (ks : List Kind) (vars : List String) : BExpr → Bool
  | .tt => true
  | .ff => true
  | .cmp c => c.typed ks vars
  | .startsWith t _ => t.typed ks vars
  | .inStar _ r => r.kindIn ks vars == some .list
  | .not e => e.typed ks vars
  | .and a b => a.typed ks vars && b.typed ks vars
  | .or a b => a.typed ks vars && b.typed ks vars

def searchOkForQuantifier : Search → Bool
  | .star _ => true
  | s => s.yieldsTrees

mutual
def Cons.typed (vars : List String) : Cons → Bool
  | .expr e ss => e.typed (ss.map Search.kind) vars
  | .cmp c ss => c.typed (ss.map Search.kind) vars
  | .conj _ cs => cs.typed vars
  | .disj _ cs => cs.typed vars
  | .impl a c => a.typed vars && c.typed vars
  | .all _ b s body => searchOkForQuantifier s &&
      body.typed (match b with | .var x => x :: vars | .nt _ => vars)
  | .any _ b s body => searchOkForQuantifier s &&
      body.typed (match b with | .var x => x :: vars | .nt _ => vars)
def ConsL.typed (vars : List String) : ConsL → Bool
  | .nil => true
  | .cons c cs => c.typed vars && cs.typed vars
end

end FV
