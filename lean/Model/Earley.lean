/-
E3 / the Earley engine of `src/fandango/language/grammar/parser/` (`iterative_parser.py`,
`column.py`, `parse_state.py`), one-shot parse of a whole word in COMPLETE mode.

What is modelled (line by line from the code):

* `IterativeParser._process`: the IR is compiled to helper rules — one control-flow nonterminal
  `<__id>` per alternative / concatenation / repetition node (`NT.ctl n`), implicit nonterminals
  `<*c*>` (`NT.impl n j`): the right-recursive rule of `*` / `+`, and for `{min,max}` the body wrapper
  (`j = 0`), the nested chain (`1 ≤ j ≤ max-min`) and the `min`-fold head (`j = max-min+1`); an open
  upper bound `{n,}` is `n` iterations followed by a right-recursive tail (body wrapper `j = 0`, tail
  `j = 1`, head `j = 2`) — before /repo b48dd899 it was capped by `nodes.MAX_REPETITIONS` (kept as
  the variant `cap = some n`).  Helper nonterminals are *named by the IR node
  they belong to*, so the rule table is a function of the name (`rulesOf`) and no counter has to be
  threaded; the correspondence check maps the real `<*c*>` numbers onto `(node id, j)` by structure.
* `ParseState` = core item (`nonterminal`, `symbols`, `_dot`, `position`) + `children`.
* `Column`: `states` (admission order), `dot_map` (insertion order per dot symbol, `Col.dots`),
  `add` (the admission test is the policy parameter, see `Policy`), `replace`.
* `_consume`: columns in order, every column a *live* worklist; per state `complete` / `predict` /
  scan; `complete` iterates the *live* `dot_map` list of the origin column (a frame of the machine);
  `predict` ends by completing every finished empty derivation of the predicted symbol that the column
  already holds (snapshot `M.pending`; /repo 1d73281f);
  text / bytes / regex terminals are only scanned on a byte boundary (a33087ac), a code point above 255
  has no bits (1ef12755), an empty regex match is a match (179bde08);
  8 columns per input cell; a scan whose target column lies beyond the table raises `IndexError`;
  trees are yielded from finished `<*start*>` states of the last column.
* `place_repetition_shortcut` at the end of every column.
* `collapse`: `<__…>` nodes are spliced away; implicit nonterminals never become nodes.
* the order in which `predict` adds the alternatives of a nonterminal is the iteration order of a
  Python `set` (hash-seed dependent): it is a parameter (`Cfg.pred`), every theorem holds for all orders.

Not modelled: INCOMPLETE (prefix) mode and incomplete states (they are inert in a one-shot parse:
they only live in the last column and never advance), computed repetitions (`<*ctx_*>`/`<*tmp_*>`),
`starter_bit`, generators.  Regexes: one greedy length per start position, an oracle (`Input.rlen`).

The five repairs above and the admission policy are the fields of `Variant`; `harness/translate_earley.py`
reads from the source which variant the code is (`Generated/Earley.lean`), `Variant.now` is the code as it
is today, `Variant.old` the code before the repairs (only kept for the labelled OLD witnesses).
-/
import Model.IR
namespace FV

/-! ### decidable equality of IR nodes (nested inductive: written by hand) -/

mutual
def Node.decEq : (a b : Node) → Decidable (a = b)
  | .term a, .term b => if h : a = b then isTrue (by rw [h]) else isFalse (by intro e; cases e; exact h rfl)
  | .nt a s r, .nt b s' r' =>
    if h : a = b ∧ s = s' ∧ r = r' then isTrue (by rcases h with ⟨h1, h2, h3⟩; rw [h1, h2, h3])
    else isFalse (by intro e; cases e; exact h ⟨rfl, rfl, rfl⟩)
  | .alt i ns, .alt j ms =>
    match Node.decEqL ns ms with
    | isTrue h2 => if h : i = j then isTrue (by rw [h, h2]) else isFalse (by intro e; cases e; exact h rfl)
    | isFalse h2 => isFalse (by intro e; cases e; exact h2 rfl)
  | .cat i ns, .cat j ms =>
    match Node.decEqL ns ms with
    | isTrue h2 => if h : i = j then isTrue (by rw [h, h2]) else isFalse (by intro e; cases e; exact h rfl)
    | isFalse h2 => isFalse (by intro e; cases e; exact h2 rfl)
  | .rep i k n mn mx, .rep j k' m mn' mx' =>
    match Node.decEq n m with
    | isTrue h2 =>
      if h : i = j ∧ k = k' ∧ mn = mn' ∧ mx = mx' then
        isTrue (by rcases h with ⟨h1, h3, h4, h5⟩; rw [h1, h2, h3, h4, h5])
      else isFalse (by intro e; cases e; exact h ⟨rfl, rfl, rfl, rfl⟩)
    | isFalse h2 => isFalse (by intro e; cases e; exact h2 rfl)
  | .term _, .nt .. => isFalse (by intro e; cases e)
  | .term _, .alt .. => isFalse (by intro e; cases e)
  | .term _, .cat .. => isFalse (by intro e; cases e)
  | .term _, .rep .. => isFalse (by intro e; cases e)
  | .nt .., .term _ => isFalse (by intro e; cases e)
  | .nt .., .alt .. => isFalse (by intro e; cases e)
  | .nt .., .cat .. => isFalse (by intro e; cases e)
  | .nt .., .rep .. => isFalse (by intro e; cases e)
  | .alt .., .term _ => isFalse (by intro e; cases e)
  | .alt .., .nt .. => isFalse (by intro e; cases e)
  | .alt .., .cat .. => isFalse (by intro e; cases e)
  | .alt .., .rep .. => isFalse (by intro e; cases e)
  | .cat .., .term _ => isFalse (by intro e; cases e)
  | .cat .., .nt .. => isFalse (by intro e; cases e)
  | .cat .., .alt .. => isFalse (by intro e; cases e)
  | .cat .., .rep .. => isFalse (by intro e; cases e)
  | .rep .., .term _ => isFalse (by intro e; cases e)
  | .rep .., .nt .. => isFalse (by intro e; cases e)
  | .rep .., .alt .. => isFalse (by intro e; cases e)
  | .rep .., .cat .. => isFalse (by intro e; cases e)
def Node.decEqL : (a b : List Node) → Decidable (a = b)
  | [], [] => isTrue rfl
  | [], _ :: _ => isFalse (by intro e; cases e)
  | _ :: _, [] => isFalse (by intro e; cases e)
  | a :: as, b :: bs =>
    match Node.decEq a b with
    | isTrue h1 =>
      match Node.decEqL as bs with
      | isTrue h2 => isTrue (by rw [h1, h2])
      | isFalse h2 => isFalse (by intro e; cases e; exact h2 rfl)
    | isFalse h1 => isFalse (by intro e; cases e; exact h1 rfl)
end

instance : DecidableEq Node := Node.decEq

def Node.id : Node → String
  | .term _ => ""
  | .nt _ _ _ => ""
  | .alt i _ => i
  | .cat i _ => i
  | .rep i _ _ _ _ => i

namespace Earley

/-! ### compiled grammar -/

/-- nonterminals of the compiled grammar -/
inductive NT where
  /-- `<*start*>` -/
  | start
  /-- a nonterminal of the spec -/
  | user (s : String)
  /-- `<__id>`: the control-flow nonterminal of an alternative / concatenation / repetition node -/
  | ctl (n : Node)
  /-- `<*c*>`: the `j`-th implicit nonterminal of repetition node `n` -/
  | impl (n : Node) (j : Nat)
  deriving DecidableEq

/-- a symbol of a right-hand side: `(symbol, frozenset(params))` -/
inductive ESym where
  | t (term : Term)
  | n (nt : NT) (sender recipient : Option String)
  deriving DecidableEq

def ESym.plain (x : NT) : ESym := .n x none none

def ESym.nt? : ESym → Option NT
  | .t _ => none
  | .n x _ _ => some x

/-- what a `visit…` call returns for a node: always one alternative with one symbol -/
def symOf : Node → ESym
  | .term t => .t t
  | .nt name s r => .n (.user name) s r
  | n => .plain (.ctl n)

/-- `node.max` of the capped compilation: open upper bounds are capped by `nodes.MAX_REPETITIONS`
    (`cap = some n`, the code before b48dd899); irrelevant when `openTail` -/
def hiOf (cap : Option Nat) (mx : Option Nat) : Nat := mx.getD (cap.getD 0)

/-- `node.internal_max is None` and the source has the tail branch: `{n,}` = n iterations + tail -/
def openTail (cap : Option Nat) (mx : Option Nat) : Bool := mx.isNone && cap.isNone

/-- the alternatives of `<__id>` (`visitAlternative`, `visitConcatenation`, `visitRepetition`,
    `visitStar`, `visitPlus`, `visitOption`) -/
def ctlRules (cap : Option Nat) : Node → List (List ESym)
  | .term _ => []
  | .nt _ _ _ => []
  | .alt _ ns => ns.map (fun n => [symOf n])
  | .cat _ ns => [ns.map symOf]
  | .rep i .star b mn mx => [[.plain (.impl (.rep i .star b mn mx) 0)]]
  | .rep i .plus b mn mx => [[.plain (.impl (.rep i .plus b mn mx) 0)]]
  | .rep _ .opt b _ _ => [[], [symOf b]]
  | .rep i .braces b mn mx =>
    if openTail cap mx then [[.plain (.impl (.rep i .braces b mn mx) 2)]]
    else [[.plain (.impl (.rep i .braces b mn mx) (hiOf cap mx - mn + 1))]]

/-- the alternatives of the implicit nonterminals of a repetition node -/
def implRules (cap : Option Nat) : Node → Nat → List (List ESym)
  | .rep i .star b mn mx, 0 => [[], [symOf b, .plain (.impl (.rep i .star b mn mx) 0)]]
  | .rep i .plus b mn mx, 0 => [[symOf b], [symOf b, .plain (.impl (.rep i .plus b mn mx) 0)]]
  | .rep i .braces b mn mx, j =>
    let me : Node := .rep i .braces b mn mx
    let d := hiOf cap mx - mn
    let w : ESym := .plain (.impl me 0)
    if openTail cap mx then
      (if j = 0 then [[symOf b]]
       else if j = 1 then [[], [w, .plain (.impl me 1)]]
       else if j = 2 then [List.replicate mn w ++ [.plain (.impl me 1)]]
       else [])
    else if j = 0 then [[symOf b]]
    else if j ≤ d then (if j = 1 then [[w]] else [[w], [w, .plain (.impl me (j - 1))]])
    else if j = d + 1 then
      List.replicate mn w :: (if d = 0 then [] else [List.replicate mn w ++ [.plain (.impl me d)]])
    else []
  | _, _ => []

/-- `_rules` / `_implicit_rules` as a function of the nonterminal -/
def rulesOf (G : Grammar) (cap : Option Nat) : NT → List (List ESym)
  | .start => []
  | .user s =>
    match G.rule s with
    | some b => [[symOf b]]
    | none => []
  | .ctl n => ctlRules cap n
  | .impl n j => implRules cap n j

/-- members of `_rules` build a tree node on completion, implicit ones splice their children -/
def NT.explicit : NT → Bool
  | .user _ => true
  | .ctl _ => true
  | _ => false

/-- `<__star:…>` / `<__plus:…>`: the "beginners" of `place_repetition_shortcut` -/
def NT.beginner : NT → Bool
  | .ctl (.rep _ .star _ _ _) => true
  | .ctl (.rep _ .plus _ _ _) => true
  | _ => false

/-- the implicit nonterminals a repetition node owns -/
def implsOf (cap : Option Nat) : Node → List NT
  | .rep i .star b mn mx => [.impl (.rep i .star b mn mx) 0]
  | .rep i .plus b mn mx => [.impl (.rep i .plus b mn mx) 0]
  | .rep i .braces b mn mx =>
    (List.range (if openTail cap mx then 3 else hiOf cap mx - mn + 2)).map (fun j => NT.impl (.rep i .braces b mn mx) j)
  | _ => []

mutual
/-- helper nonterminals introduced by a node and everything below it -/
def subNTs (cap : Option Nat) : Node → List NT
  | .term _ => []
  | .nt _ _ _ => []
  | .alt i ns => .ctl (.alt i ns) :: subNTsL cap ns
  | .cat i ns => .ctl (.cat i ns) :: subNTsL cap ns
  | .rep i k b mn mx => .ctl (.rep i k b mn mx) :: (implsOf cap (.rep i k b mn mx) ++ subNTs cap b)
def subNTsL (cap : Option Nat) : List Node → List NT
  | [] => []
  | n :: ns => subNTs cap n ++ subNTsL cap ns
end

def allNTs (G : Grammar) (cap : Option Nat) : List NT :=
  G.rules.flatMap (fun p => .user p.1 :: subNTs cap p.2)

abbrev CRule := NT × List ESym

/-- the whole rule table as a list (what `_process` leaves in `_rules` ∪ `_implicit_rules`) -/
def compile (G : Grammar) (cap : Option Nat) : List CRule :=
  (allNTs G cap).flatMap (fun x => (rulesOf G cap x).map (fun rhs => (x, rhs)))

/-! ### parser trees, items, states -/

/-- `ParserDerivationTree` -/
inductive PT where
  | leaf (l : Leaf)
  | node (nt : NT) (sender recipient : Option String) (kids : List PT)

mutual
def PT.beq : PT → PT → Bool
  | .leaf a, .leaf b => decide (a = b)
  | .node x s r ks, .node y s' r' ks' => decide (x = y) && decide (s = s') && decide (r = r') && PT.beqL ks ks'
  | _, _ => false
def PT.beqL : List PT → List PT → Bool
  | [], [] => true
  | a :: as, b :: bs => PT.beq a b && PT.beqL as bs
  | _, _ => false
end

/-- the core of a `ParseState`: what `__eq__` compares -/
structure Item where
  lhs : NT
  rhs : List ESym
  dot : Nat
  origin : Nat
  deriving DecidableEq

def Item.finished (i : Item) : Bool := decide (i.rhs.length ≤ i.dot)
def Item.next (i : Item) : Item := { i with dot := i.dot + 1 }
/-- `state.dot` -/
def Item.sym? (i : Item) : Option ESym := i.rhs[i.dot]?
def Item.dotNT? (i : Item) : Option NT :=
  match i.sym? with
  | some (.n x _ _) => some x
  | _ => none

/-- `ParseState` (`cover` only matters for `Policy.acyclic`: `(column, nonterminals that the children
    derive over the whole span of the state)`) -/
structure St where
  item : Item
  kids : List PT
  cover : Option (Nat × List NT) := none

/-- how `Column.add` decides that a state is already there -/
inductive Policy where
  /-- duplicate ⇔ same core item (textbook recogniser) -/
  | core
  /-- duplicate ⇔ same core item **and** same children: `__hash__` includes the children, `__eq__`
      does not, and a `set` compares hashes first — the code as it is today -/
  | impl
  /-- `impl` + `complete` does not complete a finished state whose nonterminal one of its own descendants
      already derives over the same span (the repair of C06: `ParseState.covering`) -/
  | acyclic
  deriving DecidableEq

def St.dup (p : Policy) (a b : St) : Bool :=
  match p with
  | .core => decide (a.item = b.item)
  | .impl => decide (a.item = b.item) && PT.beqL a.kids b.kids
  | .acyclic => decide (a.item = b.item) && PT.beqL a.kids b.kids

/-- `Column` -/
structure Col where
  states : List St := []
  /-- `dot_map`, all symbols in one list (per-symbol lists are its filters, order preserved) -/
  dots : List St := []

/-- `find_dot(nt)` -/
def Col.findDot (c : Col) (x : NT) : List St :=
  c.dots.filter (fun s => s.item.dotNT? == some x)

/-- `Column.add`; a state whose dot is a *terminal* is also entered into `dot_map` by the real code but
    never looked up there (`find_dot` is only called with nonterminals), so `dots` keeps all
    unfinished states -/
def Col.add (p : Policy) (c : Col) (s : St) : Col :=
  if c.states.any (fun x => St.dup p x s) then c
  else { states := c.states ++ [s], dots := if s.item.sym?.isSome then c.dots ++ [s] else c.dots }

/-- remove the first element whose core item equals `it` (`list.remove` with `ParseState.__eq__`) -/
def eraseItem (it : Item) : List St → List St
  | [] => []
  | x :: xs => if x.item = it then xs else x :: eraseItem it xs

/-- replace the first element whose core item equals `it` (`states.index(old)`; `del`; `insert`) -/
def replaceItem (it : Item) (new : St) : List St → List St
  | [] => []
  | x :: xs => if x.item = it then new :: xs else x :: replaceItem it new xs

/-- `Column.replace(old, new)` -/
def Col.replace (c : Col) (old new : St) : Col :=
  { states := replaceItem old.item new c.states,
    dots := (if old.item.sym?.isSome then eraseItem old.item c.dots else c.dots)
            ++ (if new.item.sym?.isSome then [new] else []) }

/-! ### the machine -/

structure Cfg where
  /-- compiled rule table (`compile G cap`) -/
  rules : List CRule
  /-- alternatives of a nonterminal in the order `predict` adds them in column `k` -/
  pred : Nat → NT → List (List ESym)
  /-- complete match of a terminal at a column: end column and the leaf that is built -/
  scan : Term → Nat → Option (Nat × Leaf)
  /-- number of columns (`8 * len(word) + 1`) -/
  ncols : Nat
  policy : Policy
  /-- requested start symbol -/
  start : String
  /-- `predict` ends by completing the finished empty derivations of the predicted symbol (1d73281f) -/
  predDone : Bool := true

structure M where
  cols : List Col
  /-- current column -/
  k : Nat := 0
  /-- next state of the current column -/
  idx : Nat := 0
  /-- an active `complete(state, …)` call: the finished state and the index into the live list -/
  frame : Option (St × Nat) := none
  /-- the `complete(done, …)` calls the running `predict` still has to make (the snapshot list of its last loop) -/
  pending : List St := []
  /-- trees yielded so far (children of finished `<*start*>` states in the last column) -/
  out : List PT := []

inductive Res where
  | next (m : M)
  | done (m : M)
  /-- `IndexError`: a scan target beyond the table (terminal scanned off a byte boundary at the end) -/
  | raised (m : M)

def colAt (cols : List Col) (j : Nat) : Col := cols.getD j {}

def addAt (p : Policy) (cols : List Col) (j : Nat) (s : St) : List Col :=
  cols.set j (Col.add p (colAt cols j) s)

def coverAt (s : St) (k : Nat) : Option (List NT) :=
  match s.cover with
  | some (c, l) => if c = k then some l else none
  | none => none

/-- one iteration of the loop in `complete`: `s.next()` + the completed subtree (or its spliced
    children), and the covering bookkeeping of the acyclic policy (`spanning` in the code: the completed
    state and what covers it if nothing but empty children precede it; what covers `s` if the completed
    state is empty) -/
def advance (p : Policy) (k : Nat) (t : St) (s : St) : Option St :=
  let params : Option String × Option String :=
    match s.item.sym? with
    | some (.n _ a r) => (a, r)
    | _ => (none, none)
  let kids :=
    if t.item.lhs.explicit then s.kids ++ [PT.node t.item.lhs params.1 params.2 t.kids]
    else s.kids ++ t.kids
  let it := s.item.next
  match p with
  | .acyclic =>
    let cover : Option (Nat × List NT) :=
      if s.item.origin = t.item.origin then
        let c0 := (coverAt t k).getD []
        let c1 := if t.item.origin = k then (coverAt s k).getD [] else []
        some (k, t.item.lhs :: (c0 ++ c1))
      else s.cover
    some { item := it, kids := kids, cover := cover }
  | _ => some { item := it, kids := kids, cover := none }

/-- the cut of the acyclic policy, at the head of `complete(state, …)`: a finished state whose nonterminal
    is already derived, over the same span, by one of its own descendants is not completed into its parents
    (in COMPLETE mode every completion is that of a finished rule, so the `finished` flag the code keeps
    next to the nonterminal is constantly `True` and is not modelled) -/
def cyclicAt (p : Policy) (k : Nat) (s : St) : Bool :=
  match p with
  | .acyclic => ((coverAt s k).getD []).contains s.item.lhs
  | _ => false

/-- walk of `place_repetition_shortcut` towards the beginner; `none` = give up -/
def shortcutWalk (cols : List Col) (x : NT) : Nat → St → St → Option St
  | 0, _, _ => none
  | fuel + 1, new, originState =>
    if originState.item.lhs.beginner then some new
    else
      let new' : St := { item := { new.item with origin := originState.item.origin },
                         kids := originState.kids ++ new.kids }
      match (colAt cols new'.item.origin).findDot x with
      | [o] => shortcutWalk cols x fuel new' o
      | _ => none

/-- `place_repetition_shortcut(table, k)` for one beginner symbol `x` -/
def shortcutOne (cols : List Col) (k : Nat) (x : NT) : List Col :=
  let col := colAt cols k
  match col.states.find? (fun s => decide (s.item.lhs = x) && !s.item.finished
                                    && decide (s.item.rhs.length = 2) && (s.item.dotNT? == some x)) with
  | none => cols
  | some cur =>
    match (colAt cols cur.item.origin).findDot x with
    | [o] =>
      match shortcutWalk cols x (cur.item.origin + 2) cur o with
      | some new => cols.set k (col.replace cur new)
      | none => cols
    | _ => cols

/-- first occurrences, in order (`found_beginners` is a set; the beginners are handled independently) -/
def dedupNT : List NT → List NT
  | [] => []
  | x :: xs => x :: (dedupNT xs).filter (fun y => !decide (y = x))

def beginnersOf (col : Col) : List NT :=
  dedupNT (col.states.filterMap (fun s =>
    if s.item.lhs.beginner then (s.item.rhs.head?.bind ESym.nt?) else none))

def shortcut (cols : List Col) (k : Nat) : List Col :=
  (beginnersOf (colAt cols k)).foldl (fun cs x => shortcutOne cs k x) cols

def startItem (start : String) : Item :=
  { lhs := .start, rhs := [.plain (.user start)], dot := 0, origin := 0 }

def M.init (c : Cfg) : M :=
  { cols := addAt c.policy (List.replicate c.ncols {}) 0 { item := startItem c.start, kids := [] } }

/-- the snapshot `predict` takes after adding the alternatives of `x` to column `k`:
    `[s for s in table[k].states if s.position == k and s.nonterminal == symbol and s.finished()]` -/
def doneOf (col : Col) (k : Nat) (x : NT) : List St :=
  col.states.filter (fun s => decide (s.item.origin = k) && decide (s.item.lhs = x) && s.item.finished)

/-- one step of `_consume` -/
def step (c : Cfg) (m : M) : Res :=
  if c.ncols ≤ m.k then .done m
  else
    match m.frame with
    | some (t, j) =>
      match ((colAt m.cols t.item.origin).findDot t.item.lhs)[j]? with
      | none => .next { m with frame := none }
      | some s =>
        match advance c.policy m.k t s with
        | some s' => .next { m with cols := addAt c.policy m.cols m.k s', frame := some (t, j + 1) }
        | none => .next { m with frame := some (t, j + 1) }
    | none =>
      match m.pending with
      | t :: rest =>
        -- the next `self.complete(done, table, k)` of the loop that ends `predict`
        .next { m with pending := rest, frame := if cyclicAt c.policy m.k t then none else some (t, 0) }
      | [] =>
      match (colAt m.cols m.k).states[m.idx]? with
      | none => .next { m with cols := shortcut m.cols m.k, k := m.k + 1, idx := 0 }
      | some s =>
        if s.item.finished then
          let out := if s.item.lhs = .start ∧ m.k + 1 = c.ncols then m.out ++ s.kids else m.out
          .next { m with idx := m.idx + 1, frame := if cyclicAt c.policy m.k s then none else some (s, 0),
                         out := out }
        else
          match s.item.sym? with
          | none => .next { m with idx := m.idx + 1 }
          | some (.n x _ _) =>
            let cols := (c.pred m.k x).foldl
              (fun cs rhs => addAt c.policy cs m.k
                { item := { lhs := x, rhs := rhs, dot := 0, origin := m.k }, kids := [] }) m.cols
            .next { m with cols := cols, idx := m.idx + 1,
                           pending := if c.predDone then doneOf (colAt cols m.k) m.k x else [] }
          | some (.t term) =>
            match c.scan term m.k with
            | none => .next { m with idx := m.idx + 1 }
            | some (e, l) =>
              if c.ncols ≤ e then .raised m
              else .next { m with cols := addAt c.policy m.cols e
                                    { item := s.item.next, kids := s.kids ++ [PT.leaf l], cover := s.cover },
                                  idx := m.idx + 1 }

/-- run at most `fuel` steps; `.next` = fuel exhausted -/
def run (c : Cfg) : Nat → M → Res
  | 0, m => .next m
  | fuel + 1, m =>
    match step c m with
    | .next m' => run c fuel m'
    | r => r

/-! ### collapsing and the parse result -/

def ntName : NT → String
  | .start => "<*start*>"
  | .user s => s
  | .ctl n => "<__" ++ n.id ++ ">"
  | .impl n j => "<*" ++ n.id ++ ":" ++ toString j ++ "*>"

mutual
/-- `_collapse`: control-flow nodes are replaced by their (collapsed) children -/
def collapse : PT → List Tree
  | .leaf l => [Tree.leaf l]
  | .node (.ctl _) _ _ kids => collapseL kids
  | .node x s r kids => [Tree.mk (.nt (ntName x)) s r (collapseL kids)]
def collapseL : List PT → List Tree
  | [] => []
  | t :: ts => collapse t ++ collapseL ts
end

/-- trees of a complete parse, collapsed (`Parser.parse_forest`); `none` = the fuel did not suffice -/
def parseComplete (c : Cfg) (fuel : Nat) : Option (Except Unit (List Tree)) :=
  match run c fuel (M.init c) with
  | .done m => some (.ok (m.out.flatMap collapse))
  | .raised _ => some (.error ())
  | .next _ => none

/-! ### the concrete scanner: 8 columns per input cell -/

structure Input where
  /-- `bytes` input (else `str`) -/
  isBytes : Bool
  /-- byte values / code points -/
  cells : List Nat
  /-- regex oracle: greedy match length of regex `id` at cell `w` (CPython `re.match`), if it matches -/
  rlen : Nat → Nat → Option Nat

def Input.ncols (i : Input) : Nat := 8 * i.cells.length + 1

def startsWith : List Nat → List Nat → Bool
  | _, [] => true
  | [], _ :: _ => false
  | a :: as, b :: bs => a == b && startsWith as bs

def mkLeaf (isBytes : Bool) (xs : List Nat) : Leaf :=
  if isBytes then .bytes (xs.map mkByte) else .text xs

/-- which of the repairs of the parser the source carries, and its admission policy; read from /repo by
    `harness/translate_earley.py` on every run (`Generated/Earley.lean`) -/
structure Variant where
  policy : Policy
  /-- `none`: an open-ended `{n,}` is `n` iterations + a right-recursive tail (b48dd899);
      `some cap`: it is compiled as `{n,cap}` (before) -/
  cap : Option Nat
  /-- `predict` completes the finished empty derivations of the predicted symbol (1d73281f) -/
  predDone : Bool
  /-- text / bytes / regex terminals are only scanned on a byte boundary (a33087ac) -/
  aligned : Bool
  /-- a cell above 255 (a `str` input) has no bits (1ef12755) -/
  wideGuard : Bool
  /-- a regex match of length 0 is a match (179bde08) -/
  emptyRegex : Bool
  deriving DecidableEq

/-- the parser as it is now -/
def Variant.now : Variant :=
  { policy := .acyclic, cap := none, predDone := true, aligned := true, wideGuard := true, emptyRegex := true }

/-- the parser before the repairs 73e5ffe3 … 1ef12755 (OLD; only for the labelled witnesses) -/
def Variant.old (cap : Nat) : Variant :=
  { policy := .impl, cap := some cap, predDone := false, aligned := false, wideGuard := false, emptyRegex := false }

/-- `scan_bit` / `scan_bytes` / `scan_regex` for a complete match, with the guards of `_consume` -/
def scanV (v : Variant) (inp : Input) (t : Term) (k : Nat) : Option (Nat × Leaf) :=
  let w := k / 8
  match t with
  | .lit (.bit b) =>
    match inp.cells[w]? with
    | none => none
    | some cell =>
      if v.wideGuard && decide (255 < cell) then none       -- `if byte > 0xFF: return False`
      else if ((cell >>> (7 - k % 8)) % 2 == 1) == b then some (k + 1, .bit b) else none
  | .lit (.text s) =>
    -- `elif curr_table_idx % 8 != 0: match = False`
    if v.aligned && !decide (k % 8 = 0) then none
    -- `Terminal.check`: text literal against `str`, or against latin-1 decoded `bytes`
    else if startsWith (inp.cells.drop w) s then some (k + 8 * s.length, mkLeaf inp.isBytes s) else none
  | .lit (.bytes b) =>
    let s := b.map (·.val)
    if v.aligned && !decide (k % 8 = 0) then none
    else if startsWith (inp.cells.drop w) s then some (k + 8 * s.length, mkLeaf inp.isBytes s) else none
  | .regex id =>
    if v.aligned && !decide (k % 8 = 0) then none
    else
      match inp.rlen id w with
      | none => none
      | some l =>
        -- before 179bde08 `match_length <= prev_match_length` (= 0) turned an empty match into no match
        if !v.emptyRegex && decide (l = 0) then none
        else some (k + 8 * l, mkLeaf inp.isBytes ((inp.cells.drop w).take l))

/-- the scanner of the code as it is now -/
def scanImpl (inp : Input) : Term → Nat → Option (Nat × Leaf) := scanV Variant.now inp

/-- the machine for a grammar, a word, a variant of the code and a prediction order -/
def mkCfg (G : Grammar) (v : Variant) (inp : Input) (start : String)
    (pred : Nat → NT → List (List ESym)) : Cfg :=
  { rules := compile G v.cap, pred := pred, scan := scanV v inp, ncols := inp.ncols,
    policy := v.policy, start := start, predDone := v.predDone }

/-- default prediction order: the order of `rulesOf` -/
def predDefault (G : Grammar) (cap : Option Nat) : Nat → NT → List (List ESym) := fun _ x => rulesOf G cap x

/-! ### grammar classes -/

def symNullable (nl : List NT) : ESym → Bool
  | .t (.lit (.text [])) => true
  | .t (.lit (.bytes [])) => true
  | .t _ => false
  | .n x _ _ => nl.contains x

/-- one round of the nullability fixpoint -/
def nullStep (rules : List CRule) (prev : List NT) : List NT :=
  ((rules.filter (fun (r : CRule) => r.2.all (symNullable prev))).map (·.1)).eraseDups

/-- nonterminal-level nullability of the compiled grammar (least fixpoint, at most `fuel` rounds) -/
def nullableNTs (rules : List CRule) : Nat → List NT → List NT
  | 0, acc => acc
  | f + 1, acc =>
    let nxt := nullStep rules acc
    if nxt.length = acc.length then acc else nullableNTs rules f nxt

/-- `x ⇒ … y …` with everything around `y` nullable: one step of a *same-span* derivation -/
def unitEdges (rules : List CRule) (nl : List NT) : List (NT × NT) :=
  rules.flatMap (fun (r : CRule) =>
    (List.range r.2.length).filterMap (fun i =>
      match (r.2[i]? : Option ESym) with
      | some (.n y _ _) =>
        if (r.2.take i ++ r.2.drop (i + 1)).all (symNullable nl) then some (r.1, y) else none
      | _ => none))

/-- nonterminals reachable from `acc` over `edges` (at most `fuel` rounds) -/
def reach (edges : List (NT × NT)) : Nat → List NT → List NT
  | 0, acc => acc
  | f + 1, acc =>
    let nxt := (acc ++ (edges.filter (fun e => acc.contains e.1)).map (·.2)).eraseDups
    if nxt.length = acc.length then acc else reach edges f nxt

/-- some node of the graph reaches itself -/
def hasCycle (edges : List (NT × NT)) (fuel : Nat) : Bool :=
  ((edges.map (·.1)).eraseDups).any (fun x =>
    (reach edges fuel (((edges.filter (fun e => decide (e.1 = x))).map (·.2)).eraseDups)).contains x)

/-- **the divergence class of complete parses**: some nonterminal derives itself over the same span
    (`("a"?)*`, `<a> ::= <a> | …`, `<x> ::= <y> <x> | ""` with `<y>` nullable): the forest is infinite -/
def hasEpsCycle (rules : List CRule) : Bool :=
  let n := rules.length + 1
  hasCycle (unitEdges rules (nullableNTs rules n [])) n

/-- `x ⇒ α y …` with `α` nullable: `y` is a left corner of `x` -/
def leftEdges (rules : List CRule) (nl : List NT) : List (NT × NT) :=
  rules.flatMap (fun (r : CRule) =>
    (List.range r.2.length).filterMap (fun i =>
      match (r.2[i]? : Option ESym) with
      | some (.n y _ _) => if (r.2.take i).all (symNullable nl) then some (r.1, y) else none
      | _ => none))

/-- **the divergence class of prefix (INCOMPLETE) parses**: left recursion, possibly hidden behind a
    nullable prefix.  At the end of the input every state with children is completed as if it were
    finished; with a left-recursive nonterminal the result is wrapped into itself again and again. -/
def hasLeftCycle (rules : List CRule) : Bool :=
  let n := rules.length + 1
  hasCycle (leftEdges rules (nullableNTs rules n [])) n

def NoEpsCycle (rules : List CRule) : Prop := hasEpsCycle rules = false

end Earley
end FV
