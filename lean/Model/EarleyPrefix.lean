/-
E3 / the Earley engine in **prefix (INCOMPLETE) mode**: `parse_forest(word, mode=ParsingMode.INCOMPLETE)`, one-shot
(`new_parse` + one `_consume(word)`), on top of the chart machine of `Model/Earley.lean` (which is not changed).

What is modelled, line by line from `iterative_parser.py` (`_consume`, `scan_bytes`, `scan_regex`, `complete`,
`place_repetition_shortcut`), `parse_state.py` (`finished`, `covering`, `copy`), `column.py` (`add`):

* **the columns are built exactly as in COMPLETE mode** (the first loop of `_consume` does not look at the mode): a
  prefix-mode step of phase A *is* one `step` of the machine of `Model/Earley.lean` on the embedded `M`.
* **incomplete states** (`is_incomplete`): `scan_bytes` / `scan_regex` also try a *partial* match of the terminal
  against the whole rest of the input (`Terminal.check(…, incomplete=True)`): a literal of which the (non-empty) rest of
  the input is a proper prefix, a regex whose partial match reaches the end of the input (`regex` module,
  `partial=True`: an oracle, `PInput.rinc`).  The result is a copy of the scanning state — dot NOT advanced — with the
  partial leaf appended, flagged incomplete, admitted (`Column.add`: same item and same children = duplicate, the flag
  is not compared) to column `k + 8·(cells left)`: the last column on a byte boundary, beyond the table
  (`IndexError`) otherwise.  `scan_regex` adds the complete match first, then the partial one.  An incomplete state is
  inert in the first loop (it is not finished, its dot is a terminal, scanning it again re-creates itself: a
  duplicate), so the embedded machine does not hold it: the prefix machine keeps the incomplete states of the last
  column in `PM.incs`, each with its admission position (number of ordinary states of the last column before it).
  ONE DEVIATION, visible in the correspondence check if it ever happens: an *ordinary* state admitted to the last column
  later than an incomplete state with the same item and the same children is a duplicate in the code and is admitted
  by the embedded machine (the other direction is modelled).  For compiled grammars the two never coincide (a state
  with `d` symbols before a terminal dot has `d` children in every rule that has a terminal, the incomplete one `d+1`).
* **the end-of-input phase** (`if self._parsing_mode == ParsingMode.INCOMPLETE and at_end:`; `at_end` holds for the
  last column only), phase B: a second pass over the *live* last column from index 0 (`for state in
  table[curr_table_idx]` — states the pass itself adds are visited, too; they are NOT predicted / scanned, the first
  loop is over); a state without children is skipped; the children of a `<*start*>` state that are not yet in
  `self._incomplete` (a set of trees: structural equality) are entered there and yielded; then
  `self.complete(state, table, k)` is called **whether or not the state is finished**:
  `derivation = (state.nonterminal, state.finished())` (`finished()` is false for an incomplete state), cut if the
  derivation is in the state's covering set, otherwise every state of the origin column whose dot is the nonterminal
  (the *live* `dot_map` list: `PM.frame`) is advanced by the (unfinished) subtree — a node for a member of `_rules`,
  spliced children for an implicit nonterminal — with the covering set `spanning` of the code (pairs `(nonterminal,
  finished?)`), and added to the last column.
* yields: first the `(child, True)` yields of the first loop (finished `<*start*>` states of the last column:
  `M.out`), then the `(child, False)` yields of phase B in order (`PM.out`); `_parse_forest` yields both kinds.
* `place_repetition_shortcut(table, k)` for the last column after phase B (it only changes what the column holds at
  the end).
* **`ParseState.cut_short`** (the repair of finding C19:F68, `PCfg.cutShort = true`; `false` is the parser without
  it, where the attribute does not exist): `complete(state, …)` computes `cut_short = state.cut_short or not
  state.finished()` after the covering cut, skips every `s` of `find_dot` with `s.cut_short` (`continue`: nothing is
  built, nothing is added) and sets `s.cut_short = cut_short` on the advanced copy; `ParseState.__init__` sets it to
  `False`, `copy()` (hence `next()`) carries it; `__hash__` / `__eq__` / `Column.add` do not look at it (a state that
  differs from an admitted one in the flag alone is a duplicate).  In the first loop `complete` is only called for
  finished states, so the flag of every state of phase A — every state of COMPLETE mode — is `False`
  (`PSt.ofSt`, `PSt.ofInc`; the harness checks it on every recorded run); only the forced completions of phase B set
  it.  (`place_repetition_shortcut` builds fresh `ParseState`s: the final shortcut drops the flag of a re-rooted
  state; nothing reads it afterwards, the model's final chart `Col` has no flags.)

Not modelled: `consume` called several times on one parse (incremental feeding: an incomplete state that is continued
by more input), `starter_bit`, `hookin_parent`, computed repetitions, `use_implicit=True`.
-/
import Model.Earley
namespace FV
namespace Earley

/-! ### the partial scanner -/

/-- the input with the second regex oracle -/
structure PInput where
  inp : Input
  /-- `Terminal.check(word[w:], incomplete=True)` for regex `id` at cell `w`: the rest of the input is a prefix of
      a match (or a match); the matched length is then the whole rest (checked by the harness) -/
  rinc : Nat → Nat → Bool

/-- the partial match of `scan_bytes` / `scan_regex` in column `k`: target column and the partial leaf -/
def iscanV (v : Variant) (pi : PInput) (t : Term) (k : Nat) : Option (Nat × Leaf) :=
  let inp := pi.inp
  let w := k / 8
  let rest := inp.cells.drop w
  let lit (s : List Nat) : Option (Nat × Leaf) :=
    if v.aligned && !decide (k % 8 = 0) then none
    -- `match, match_length = state.dot.check(check_word)`; `if not match:`
    else if startsWith rest s then none
    -- `if (w + dot_len - state.incomplete_idx) < len(word): return False`
    else if decide (w + s.length < inp.cells.length) then none
    -- `match, match_length = state.dot.check(check_word, incomplete=True)`; `if not match or match_length == 0`
    else if !rest.isEmpty && startsWith s rest then some (k + 8 * rest.length, mkLeaf inp.isBytes rest)
    else none
  match t with
  | .lit (.bit _) => none
  | .lit (.text s) => lit s
  | .lit (.bytes b) => lit (b.map (·.val))
  | .regex id =>
    if v.aligned && !decide (k % 8 = 0) then none
    -- `if not match: if not incomplete_match or (incomplete_match_length + w) < len(word): return False`:
    -- the partial match always reaches the end of the input; `if incomplete_match:` (also next to a complete match)
    else if pi.rinc id w then some (k + 8 * rest.length, mkLeaf inp.isBytes rest)
    else none

structure PCfg where
  c : Cfg
  /-- partial match of a terminal in a column: target column and the partial leaf -/
  iscan : Term → Nat → Option (Nat × Leaf)
  /-- the source has `ParseState.cut_short` (read by `harness/translate_earley.py`: `Generated/Earley.lean`,
      `Gen.cutShort`); a parameter of prefix mode only — the chart machine `c` of COMPLETE mode does not have it -/
  cutShort : Bool

def mkPCfg (G : Grammar) (v : Variant) (cs : Bool) (pi : PInput) (start : String)
    (pred : Nat → NT → List (List ESym)) : PCfg :=
  { c := mkCfg G v pi.inp start pred, iscan := iscanV v pi, cutShort := cs }

/-! ### states of the last column in the end-of-input phase -/

/-- a `ParseState` of the last column as the end-of-input phase sees it -/
structure PSt where
  item : Item
  kids : List PT
  /-- `is_incomplete` -/
  inc : Bool := false
  /-- `state.covering(last column)`: derivations `(nonterminal, finished?)` -/
  cov : List (NT × Bool) := []
  /-- `cut_short`: the state was advanced over a derivation that ends with the input (always `false` for a source
      without the attribute) -/
  cut : Bool := false

/-- `state.finished()`: `self._dot >= len(self.symbols) and not self.is_incomplete` -/
def PSt.fin (s : PSt) : Bool := s.item.finished && !s.inc

/-- a state of the chart read in the last column `L` (`covering(L)`; in COMPLETE-mode completions every derivation
    is that of a finished rule) -/
def PSt.ofSt (L : Nat) (s : St) : PSt :=
  { item := s.item, kids := s.kids, inc := false, cov := ((coverAt s L).getD []).map (fun x => (x, true)),
    cut := false }

def PSt.ofInc (L : Nat) (s : St) : PSt := { PSt.ofSt L s with inc := true }

def PSt.toSt (s : PSt) : St := { item := s.item, kids := s.kids }

/-- `Column.add`'s membership test (`__hash__` with the children, `__eq__` without; `is_incomplete` in neither) -/
def PSt.dup (p : Policy) (a b : PSt) : Bool :=
  match p with
  | .core => decide (a.item = b.item)
  | _ => decide (a.item = b.item) && PT.beqL a.kids b.kids

/-- the cut at the head of `complete`: `if derivation in covering: return` -/
def cutP (p : Policy) (t : PSt) : Bool :=
  match p with
  | .acyclic => t.cov.contains (t.item.lhs, t.fin)
  | _ => false

/-- one iteration of the loop of `complete(t, table, L)` on the state `s` of column `t.position` (one that is not
    skipped); `cs`: the source has `cut_short` -/
def advanceP (cs : Bool) (p : Policy) (L : Nat) (t s : PSt) : PSt :=
  let params : Option String × Option String :=
    match s.item.sym? with
    | some (.n _ a r) => (a, r)
    | _ => (none, none)
  let kids :=
    if t.item.lhs.explicit then s.kids ++ [PT.node t.item.lhs params.1 params.2 t.kids]
    else s.kids ++ t.kids
  let cov : List (NT × Bool) :=
    match p with
    | .acyclic =>
      -- `if s.position == state.position: spanning.add(derivation); spanning.update(covering)`
      (if s.item.origin = t.item.origin then (t.item.lhs, t.fin) :: t.cov else [])
      -- `if state.position == k: spanning.update(s.covering(k))`
      ++ (if t.item.origin = L then s.cov else [])
    | _ => []
  -- `cut_short = state.cut_short or not state.finished()` … `s = s.next()`; `s.cut_short = cut_short`
  { item := s.item.next, kids := kids, inc := false, cov := cov, cut := cs && (t.cut || !t.fin) }

/-! ### the machine -/

structure PM where
  /-- the chart machine of COMPLETE mode (phase A); in phase B its columns before the last are read -/
  m : M
  /-- incomplete states admitted to the last column so far: (ordinary states before it, state) -/
  incs : List (Nat × St) := []
  /-- the end-of-input phase has begun -/
  phaseB : Bool := false
  /-- phase B: the last column (`states`, admission order, live) -/
  last : List PSt := []
  /-- phase B: `dot_map` of the last column (states with a nonterminal at the dot matter only) -/
  ldots : List PSt := []
  /-- phase B: next state of the last column -/
  idx : Nat := 0
  /-- phase B: an active `complete(state, …)` call and the index into the live list -/
  frame : Option (PSt × Nat) := none
  /-- `self._incomplete` -/
  seen : List PT := []
  /-- trees yielded by phase B -/
  out : List PT := []

inductive PRes where
  | next (pm : PM)
  | done (pm : PM)
  /-- `IndexError` -/
  | raised (pm : PM)

def PM.init (pc : PCfg) : PM := { m := M.init pc.c }

/-- the incomplete twin the scan of the state at `(m.k, m.idx)` creates, with its target column -/
def twinOf (pc : PCfg) (m : M) : Option (Nat × St) :=
  if m.frame.isSome || !m.pending.isEmpty then none
  else
    match (colAt m.cols m.k).states[m.idx]? with
    | none => none
    | some s =>
      if s.item.finished then none
      else
        match s.item.sym? with
        | some (.t term) =>
          match pc.iscan term m.k with
          -- `next_state = state.copy()` (covering included); `next_state.append_child(tree)`
          | some (e, l) => some (e, { item := s.item, kids := s.kids ++ [PT.leaf l], cover := s.cover })
          | none => none
        | _ => none

/-- `table[last].add(next_state)` for an incomplete state: `ord` = the ordinary states the column holds -/
def addInc (p : Policy) (ord : List St) (incs : List (Nat × St)) (s : St) : List (Nat × St) :=
  if ord.any (fun x => St.dup p x s) || incs.any (fun x => St.dup p x.2 s) then incs
  else incs ++ [(ord.length, s)]

/-- the last column in admission order: the incomplete states at their positions between the ordinary ones -/
def mergeInc (L : Nat) : Nat → List St → List (Nat × St) → List PSt
  | _, [], incs => incs.map (fun p => PSt.ofInc L p.2)
  | i, o :: ord, incs =>
    (incs.takeWhile (fun p => decide (p.1 ≤ i))).map (fun p => PSt.ofInc L p.2)
      ++ PSt.ofSt L o :: mergeInc L (i + 1) ord (incs.dropWhile (fun p => decide (p.1 ≤ i)))

/-- the first loop over the last column is over: the second pass starts at index 0 -/
def handover (pc : PCfg) (pm : PM) : PM :=
  let L := pc.c.ncols - 1
  let col := colAt pm.m.cols L
  { pm with phaseB := true, last := mergeInc L 0 col.states pm.incs, ldots := col.dots.map (PSt.ofSt L), idx := 0 }

/-- `table[t.position].find_dot(t.nonterminal)` as read in the last column `L` (live if `t.position = L`) -/
def listOf (pm : PM) (L : Nat) (t : PSt) : List PSt :=
  if t.item.origin = L then pm.ldots.filter (fun s => s.item.dotNT? == some t.item.lhs)
  else ((colAt pm.m.cols t.item.origin).findDot t.item.lhs).map (PSt.ofSt L)

/-- `table[L].add(s)` in phase B -/
def addLast (p : Policy) (pm : PM) (s : PSt) : PM :=
  if pm.last.any (fun x => PSt.dup p x s) then pm
  else { pm with last := pm.last ++ [s], ldots := if s.item.sym?.isSome then pm.ldots ++ [s] else pm.ldots }

/-- `for child in state.children: if child not in self._incomplete: self._incomplete.add(child); yield child` -/
def newKids : List PT → List PT → List PT
  | _, [] => []
  | seen, k :: ks => if seen.any (fun x => PT.beq x k) then newKids seen ks else k :: newKids (seen ++ [k]) ks

/-- the last column as a `Col` (for `place_repetition_shortcut`) -/
def lastCol (pm : PM) : Col := { states := pm.last.map PSt.toSt, dots := pm.ldots.map PSt.toSt }

/-- one step of the end-of-input phase -/
def stepB (pc : PCfg) (pm : PM) : PRes :=
  let c := pc.c
  let L := c.ncols - 1
  match pm.frame with
  | some (t, j) =>
    match (listOf pm L t)[j]? with
    | none => .next { pm with frame := none }
    | some s =>
      -- `if s.cut_short: continue`
      if pc.cutShort && s.cut then .next { pm with frame := some (t, j + 1) }
      else .next { addLast c.policy pm (advanceP pc.cutShort c.policy L t s) with frame := some (t, j + 1) }
  | none =>
    match pm.last[pm.idx]? with
    | none =>
      -- `self.place_repetition_shortcut(table, curr_table_idx)`; the `while` loop ends
      .done { pm with m := { pm.m with cols := shortcut (pm.m.cols.set L (lastCol pm)) L } }
    | some s =>
      -- `if len(state.children) == 0: continue`
      if s.kids.isEmpty then .next { pm with idx := pm.idx + 1 }
      else
        let new := if s.item.lhs = .start then newKids pm.seen s.kids else []
        -- `self.complete(state, table, curr_table_idx)`
        .next { pm with idx := pm.idx + 1, seen := pm.seen ++ new, out := pm.out ++ new,
                        frame := if cutP c.policy s then none else some (s, 0) }

/-- one step of `_consume` in INCOMPLETE mode -/
def stepP (pc : PCfg) (pm : PM) : PRes :=
  if pm.phaseB then stepB pc pm
  else
    let c := pc.c
    let m := pm.m
    if c.ncols ≤ m.k then .done pm
    else if decide (m.k + 1 = c.ncols) && m.frame.isNone && m.pending.isEmpty
              && ((colAt m.cols m.k).states[m.idx]?).isNone then
      -- the first loop over the last column is over: `if self._parsing_mode == ParsingMode.INCOMPLETE and at_end:`
      .next (handover pc pm)
    else
      match step c m with
      | .done m' => .done { pm with m := m' }
      | .raised m' => .raised { pm with m := m' }
      | .next m' =>
        match twinOf pc m with
        | none => .next { pm with m := m' }
        | some (e, s) =>
          -- `table[k + (match_length - state.incomplete_idx) * 8].add(next_state)`: the last column, or beyond the table
          if e + 1 = c.ncols then
            .next { pm with m := m', incs := addInc c.policy (colAt m'.cols e).states pm.incs s }
          else .raised { pm with m := m' }

/-- run at most `fuel` steps; `.next` = fuel exhausted -/
def runP (pc : PCfg) : Nat → PM → PRes
  | 0, pm => .next pm
  | fuel + 1, pm =>
    match stepP pc pm with
    | .next pm' => runP pc fuel pm'
    | r => r

/-- a partial tree: a derivation tree whose rightmost path may end early -/
abbrev PartialTree := Tree

/-- all trees a prefix parse yields, in order, collapsed (`Parser.parse_forest(word, mode=INCOMPLETE)`): the complete
    ones (first loop), then the partial ones (end-of-input phase); `none` = the fuel did not suffice -/
def parsePrefix (pc : PCfg) (fuel : Nat) : Option (Except Unit (List PartialTree)) :=
  match runP pc fuel (PM.init pc) with
  | .done pm => some (.ok ((pm.m.out ++ pm.out).flatMap collapse))
  | .raised _ => some (.error ())
  | .next _ => none

end Earley
end FV
