/-
E4 / Emit — a model of `Evaluator.evaluate_individual` (evolution/evaluation.py) at the level C03
needs: the two memo tables, the class means, the *generated* fitness formula and acceptance test.

  key = hash((individual.get_root(), individual))
  if key in self._fitness_cache: return self._fitness_cache[key]          -- nothing is yielded
  fitness := fitnessFormula (classMean hard) (classMean rep) softMean h r s   (Generated/Fitness.lean)
  if fitness >= expected and key not in self._solution_set:                   (Generated.emitCondition)
      self._solution_set.add(key); yield individual
  self._fitness_cache[key] = (fitness, …); return fitness, …

Abstractions (stated in the manifest): a tree is represented by its hash key (two trees with
colliding hashes are the same tree for the evaluator); per-constraint results are what
`constraint.fitness(tree).fitness()` returned (`none` = the call raised); the soft class is the
parameter `softMean` (C03 has no soft constraints: `s = 0`, the branch is skipped); failing trees and
suggestions are not modelled.  The order of the three steps is checked against the source by
harness/translate_fitness.py (it refuses any other order).
-/
import Generated.Fitness
namespace FV
open FV.F FV.Generated

/-- what the evaluator is given for one tree -/
structure Individual where
  key : Int
  hard : List (Option F)      -- per hard constraint, declaration order
  rep : List (Option F)       -- per repetition-bounds constraint
  soft : Nat                  -- number of soft constraints
  softMean : F                -- what evaluate_soft_constraints would return
  deriving Repr, DecidableEq

structure EvalState where
  solutionSet : List Int
  fitnessCache : List (Int × F)
  deriving Repr

def EvalState.empty : EvalState := ⟨[], []⟩

structure EvalResult where
  state : EvalState
  emitted : List Int          -- keys yielded by this call (at most one)
  fitness : F
  deriving Repr

def Individual.fitness (ind : Individual) : F :=
  fitnessFormula (classMean ind.hard) (classMean ind.rep) ind.softMean
    ind.hard.length ind.rep.length ind.soft

def evaluateIndividual (expected : F) (st : EvalState) (ind : Individual) : EvalResult :=
  match st.fitnessCache.lookup ind.key with
  | some f => ⟨st, [], f⟩
  | none =>
    let fitness := ind.fitness
    let emit := emitCondition fitness expected (st.solutionSet.contains ind.key)
    let sols := if emit then ind.key :: st.solutionSet else st.solutionSet
    ⟨⟨sols, (ind.key, fitness) :: st.fitnessCache⟩, if emit then [ind.key] else [], fitness⟩

/-- a run of the search: evaluate a sequence of trees; collects what was yielded, in order -/
def evaluateAll (expected : F) : EvalState → List Individual → EvalState × List Int
  | st, [] => (st, [])
  | st, ind :: rest =>
    let r := evaluateIndividual expected st ind
    let (st', out) := evaluateAll expected r.state rest
    (st', r.emitted ++ out)

/-- every hard and every repetition-bounds constraint reported fitness exactly 1.0 -/
def Individual.allSatisfied (ind : Individual) : Prop :=
  (∀ x ∈ ind.hard, x = some one) ∧ (∀ x ∈ ind.rep, x = some one)

/-- the pre-fix formula (before commit a20f00f7): each class share is divided by the total separately -/
def oldFormula (hardMean repMean softMean : F) (h r s : Nat) : F :=
  let totalConstraintCount : Nat := (h + r) + s
  let fitness : F := hardMean
  let fullySolvedSoFar : Bool := feq fitness (ofDecimal 10 1)
  let c1 : Bool := decide (totalConstraintCount > 0)
  let fitness : F := if c1 then fmul (fdiv fitness (ofNat totalConstraintCount)) (ofNat h) else fitness
  let c2 : Bool := decide (r > 0)
  let repFitness : F := repMean
  let fullySolvedSoFar : Bool := if c2 then fullySolvedSoFar && (feq repFitness (ofDecimal 10 1)) else fullySolvedSoFar
  let fitness : F := if c2 then fadd fitness (fmul (fdiv repFitness (ofNat totalConstraintCount)) (ofNat r)) else fitness
  let c3 : Bool := (decide (s > 0)) && fullySolvedSoFar
  let softFitness : F := softMean
  let fitness : F := if c3 then fadd fitness (fmul (fdiv softFitness (ofNat totalConstraintCount)) (ofNat s)) else fitness
  fitness

end FV
