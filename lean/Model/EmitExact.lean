/-
E4 / Emit, exact arithmetic.  A model of `Evaluator._evaluate_constraints` and of the acceptance test of
`Evaluator.evaluate_individual` (evolution/evaluation.py) in which every arithmetic operation is the
*exact* rational one, on top of the constraint model (what each `constraint.fitness(tree)` returns is
a `Fit`, or nothing when the call raised and `_evaluate_constraints` logged it).

    fitness = 0.0
    for constraint in constraints:
        try:    fitness += constraint.fitness(individual).fitness()
        except: log                                   -- contributes nothing, still counted in len()
    fitness /= len(constraints)                       -- (1.0 for an empty class)

    fitness = hard_mean * len(hard) [+ rep_mean * len(rep)] ; fitness /= len(hard) + len(rep)
    if fitness >= expected_fitness and key not in solution_set: yield individual

The binary64 version of the same formula is `Generated/Fitness.lean` (builder C03, `Model/Float53.lean`);
C03 proves the direction "everything satisfied ⇒ exactly 1.0" for it.  The converse direction proved
here (`Props/C02.lean`) is about the exact reading; the gap between the two is the rounding of at most
`2(h+r)+4` operations on values in `[0,1]` with denominators below the combination counts — see the
level note of C02 and the finite cross-check `C02_float_formula_agrees_on_table`.

Also here: the fitness of a `RepetitionBoundsConstraint` as a function of the repetition groups it
finds (`find_by_origin` / `group_by_repetition_id` are not modelled; see C11 for the origin tags).
-/
import Model.Constraint
namespace FV

/-- `ConstraintFitness.fitness()` / `DistanceAwareConstraintFitness.fitness()`, exactly -/
def Fit.value (f : Fit) : Rat :=
  match f.dist with
  | some vs => if vs.isEmpty then 0 else ((vs.countP id : Nat) : Rat) / ((vs.length : Nat) : Rat)
  | none => if f.total = 0 then 0 else ((f.solved : Nat) : Rat) / ((f.total : Nat) : Rat)

/-- `fitness += result.fitness()` over the constraints that did not raise -/
def sumValues : List (Option Fit) → Rat
  | [] => 0
  | none :: rs => sumValues rs
  | some f :: rs => f.value + sumValues rs

/-- `_evaluate_constraints(...)[0]` -/
def classMeanQ (rs : List (Option Fit)) : Rat :=
  if rs.isEmpty then 1 else sumValues rs / ((rs.length : Nat) : Rat)

/-- the local `fitness` of `evaluate_individual` at the acceptance test (no soft constraints) -/
def fitnessQ (hard rep : List (Option Fit)) : Rat :=
  let h := hard.length
  let r := rep.length
  let fit := classMeanQ hard
  let fit := if h + r > 0 then fit * ((h : Nat) : Rat) else fit
  let fit := if r > 0 then fit + classMeanQ rep * ((r : Nat) : Rat) else fit
  if h + r > 0 then fit / (((h + r : Nat)) : Rat) else fit

/-- `if fitness >= self._expected_fitness and key not in self._solution_set: yield individual` -/
def emitsQ (expected : Rat) (hard rep : List (Option Fit)) (seen : Bool) : Bool :=
  decide (expected ≤ fitnessQ hard rep) && !seen

/-- what `_evaluate_constraints` sees of one hard constraint: its fitness, or nothing if the call
    raised (a selector exception escaping `fitness()`) -/
def outcome (cfg : OpCfg) (t : Tree) (c : Cons) : Option Fit :=
  match opFit cfg c t [] [] with
  | .ok (f, _, _) => some f
  | .error _ => none

/-! ### repetition bounds -/

/-- one group of trees produced by one expansion of a computed repetition `<x>{lo, hi}`: how many
    iterations there are and what the bound expressions evaluate to on this tree -/
structure RepGroup where
  len : Nat
  lo : Int
  hi : Int
  deriving DecidableEq, Repr

def RepGroup.ok (g : RepGroup) : Bool := decide (g.lo ≤ (g.len : Int)) && decide ((g.len : Int) ≤ g.hi)

/-- `RepetitionBoundsConstraint.fitness`: no tagged tree = (1, 1, True); else one point per group -/
def repFit (gs : List RepGroup) : Fit :=
  if gs.isEmpty then ⟨1, 1, true, none⟩
  else ⟨gs.countP RepGroup.ok, gs.length, gs.countP RepGroup.ok == gs.length, none⟩

/-- the computed bounds hold: every group has a length within its bounds -/
def repDenote (gs : List RepGroup) : Bool := gs.all RepGroup.ok

/-! ### well-formed programs and fitness values -/

mutual
/-- conjunctions and disjunctions have at least one operand (the front end builds them with two or
    more) -/
def Cons.WF : Cons → Bool
  | .expr _ _ => true
  | .cmp _ _ => true
  | .conj _ cs => decide (0 < cs.length) && cs.WF
  | .disj _ cs => decide (0 < cs.length) && cs.WF
  | .impl a c => a.WF && c.WF
  | .all _ _ _ body => body.WF
  | .any _ _ _ body => body.WF
def ConsL.WF : ConsL → Bool
  | .nil => true
  | .cons c cs => c.WF && cs.WF
end

/-- the bookkeeping invariant of every fitness value the constraint classes build -/
structure Fit.Wf (f : Fit) : Prop where
  pos : 0 < f.total
  le : f.solved ≤ f.total
  succ : f.success = true ↔ f.solved = f.total
  dist : ∀ vs, f.dist = some vs → vs ≠ [] ∧ (f.success = true ↔ vs.all id = true)

end FV
