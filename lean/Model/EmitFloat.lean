/-
E4 / Emit, binary64.  What `Evaluator.evaluate_individual` computes for a tree when every per-constraint
result is what the constraint model says (`Fit`, or nothing when the call raised): the glue between
`Model/Constraint.lean` / `Model/EmitExact.lean` (what `constraint.fitness(tree)` returns) and
`Model/Emit.lean` + `Generated/Fitness.lean` (the evaluator over `Float53`).

    result.fitness()   ConstraintFitness:               solved / total          (Generated.cfFitness)
                       DistanceAwareConstraintFitness:  sum(values) / len(values)   (Generated.daFitness)

The values of a comparison are the Python floats `1.0` / `0.0` (`_distance_norm` never yields a graded
value: `dist is float | int` is never true), as in `Model/Constraint.lean` (`Fit.dist : List Bool`).

No arithmetic of its own: everything numeric is the generated text.  Import-free of Mathlib.
-/
import Model.EmitExact
import Model.Emit
namespace FV
open FV.F

/-- the float a comparison appends for one combination -/
def boolF (b : Bool) : F := if b then one else zero

/-- `result.fitness()` in binary64, through the generated `fitness()` methods -/
def Fit.valueF (f : Fit) : F :=
  match f.dist with
  | some vs => Generated.daFitness (vs.map boolF)
  | none => Generated.cfFitness f.solved f.total

/-- what `_evaluate_constraints` adds for one constraint (`none`: the call raised) -/
def toF (o : Option Fit) : Option F := o.map Fit.valueF

/-- the number `fitness()` divides by: `total`, or the number of values of a comparison -/
def Fit.denom (f : Fit) : Nat :=
  match f.dist with
  | some vs => vs.length
  | none => f.total

/-- the number `fitness()` divides: `solved`, or the number of values equal to 1.0 -/
def Fit.numer (f : Fit) : Nat :=
  match f.dist with
  | some vs => vs.countP id
  | none => f.solved

/-- the evaluator's view of a tree (no soft constraints) -/
def individualF (key : Int) (hard rep : List (Option Fit)) : Individual :=
  ⟨key, hard.map toF, rep.map toF, 0, one⟩

/-- the acceptance test of `evaluate_individual` in binary64 (generated formula and comparison) -/
def emitsF (expected : F) (hard rep : List (Option Fit)) (seen : Bool) : Bool :=
  Generated.emitCondition (individualF 0 hard rep).fitness expected seen

end FV
