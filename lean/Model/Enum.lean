/-
E2 / an *independent enumerator* of the language of a grammar over the IR of `Model/IR.lean`, for C05.

`enumNT G inst c lim rot d s a r` lists derivation forests `[tree]` of the non-terminal `s` of depth `≤ d`
(repetition counts `≤ c`, regex terminals instantiated from the finite table `inst`), each paired with
*tags*: for every leaf, left to right, the id of the regex terminal it instantiates (or `none` for a
literal).  Every intermediate list is cut to `lim` entries and alternatives are tried from position `rot`
(both only select a subset).  `Props/C05.lean` proves every enumerated tree `Valid` (a machine-checked
derivation witness travels with every word) and a bounded derivation `DerNT`; the decidable side condition of
C05 on a witness ("every leaf is what one scan of its terminal reads at its column") is `Model/Scan.lean:
firstFail` / `inClass`.

Nothing here looks at the parser: the enumerator only follows the grammar.  No imports beyond the IR.
-/
import Model.IR
namespace FV
namespace Enum

/-- a derivation forest with, per leaf, the regex terminal it came from -/
abbrev Tagged := List Tree × List (Option Nat)

/-- regex instances: `inst id` = some leaves the regex terminal `id` matches -/
abbrev Inst := Nat → List Leaf

def catT (a b : Tagged) : Tagged := (a.1 ++ b.1, a.2 ++ b.2)

/-- cut a list to `lim` entries (`none`: keep everything) -/
def takeO {α : Type} : Option Nat → List α → List α
  | none, l => l
  | some n, l => l.take n

/-- all concatenations `a ++ b` -/
def prodT (lim : Option Nat) (xs ys : List Tagged) : List Tagged :=
  takeO lim (xs.flatMap (fun a => ys.map (fun b => catT a b)))

/-- `k` iterations -/
def powT (lim : Option Nat) (xs : List Tagged) : Nat → List Tagged
  | 0 => [([], [])]
  | k + 1 => prodT lim xs (powT lim xs k)

def rotate {α : Type} (l : List α) (r : Nat) : List α :=
  l.drop (r % (l.length + 1)) ++ l.take (r % (l.length + 1))

mutual
/-- forests of one IR node, given the forests of the non-terminals -/
def enumWith (inst : Inst) (c : Nat) (lim : Option Nat) (rot : Nat)
    (ntf : String → Option String → Option String → List Tagged) : Node → List Tagged
  | .term (.lit l) => [([Tree.leaf l], [none])]
  | .term (.regex id) => takeO lim ((inst id).map (fun l => ([Tree.leaf l], [some id])))
  | .nt name a r => ntf name a r
  | .alt _ ns => takeO lim (rotate (enumAny inst c lim rot ntf ns) rot)
  | .cat _ ns => enumCat inst c lim rot ntf ns
  | .rep _ _ n min max =>
    takeO lim (((List.range (c + 1)).filter (fun k => decide (inBounds min max k))).flatMap
      (fun k => powT lim (enumWith inst c lim rot ntf n) k))
/-- one list per alternative, concatenated -/
def enumAny (inst : Inst) (c : Nat) (lim : Option Nat) (rot : Nat)
    (ntf : String → Option String → Option String → List Tagged) : List Node → List Tagged
  | [] => []
  | n :: ns => enumWith inst c lim rot ntf n ++ enumAny inst c lim rot ntf ns
def enumCat (inst : Inst) (c : Nat) (lim : Option Nat) (rot : Nat)
    (ntf : String → Option String → Option String → List Tagged) : List Node → List Tagged
  | [] => [([], [])]
  | n :: ns => prodT lim (enumWith inst c lim rot ntf n) (enumCat inst c lim rot ntf ns)
end

/-- forests `[tree]` of a non-terminal, depth `≤ d` -/
def enumNT (G : Grammar) (inst : Inst) (c : Nat) (lim : Option Nat) (rot : Nat) :
    Nat → String → Option String → Option String → List Tagged
  | 0, _, _, _ => []
  | d + 1, s, a, r =>
    match G.rule s with
    | none => []
    | some body =>
      (enumWith inst c lim rot (enumNT G inst c lim rot d) body).map
        (fun f => ([Tree.mk (.nt s) a r f.1], f.2))

/-- derivation trees of the start symbol with their tags -/
def enumTrees (G : Grammar) (inst : Inst) (c : Nat) (lim : Option Nat) (rot d : Nat) (s : String) : List (Tree × List (Option Nat)) :=
  (enumNT G inst c lim rot d s none none).filterMap (fun f =>
    match f.1 with
    | [t] => some (t, f.2)
    | _ => none)

/-! ### what the enumerator is meant to list: bounded derivations, declaratively -/

/-- `k`-fold concatenation of forests satisfying `P` -/
def PowR (P : Tagged → Prop) : Nat → Tagged → Prop
  | 0, f => f = ([], [])
  | k + 1, f => ∃ a b, P a ∧ PowR P k b ∧ f = catT a b

mutual
/-- `f` is a forest one expansion of the node spells out: repetition counts `≤ c`, regex leaves from `inst`,
    non-terminals expanded according to `ntP` -/
def DerWith (inst : Inst) (c : Nat) (ntP : String → Option String → Option String → Tagged → Prop) :
    Node → Tagged → Prop
  | .term (.lit l), f => f = ([Tree.leaf l], [none])
  | .term (.regex id), f => ∃ l, l ∈ inst id ∧ f = ([Tree.leaf l], [some id])
  | .nt name a r, f => ntP name a r f
  | .alt _ ns, f => DerAny inst c ntP ns f
  | .cat _ ns, f => DerCat inst c ntP ns f
  | .rep _ _ n min max, f => ∃ k, k ≤ c ∧ inBounds min max k ∧ PowR (fun g => DerWith inst c ntP n g) k f
def DerAny (inst : Inst) (c : Nat) (ntP : String → Option String → Option String → Tagged → Prop) :
    List Node → Tagged → Prop
  | [], _ => False
  | n :: ns, f => DerWith inst c ntP n f ∨ DerAny inst c ntP ns f
def DerCat (inst : Inst) (c : Nat) (ntP : String → Option String → Option String → Tagged → Prop) :
    List Node → Tagged → Prop
  | [], f => f = ([], [])
  | n :: ns, f => ∃ a b, DerWith inst c ntP n a ∧ DerCat inst c ntP ns b ∧ f = catT a b
end

/-- derivations of a non-terminal of depth `≤ d` -/
def DerNT (G : Grammar) (inst : Inst) (c : Nat) :
    Nat → String → Option String → Option String → Tagged → Prop
  | 0, _, _, _, _ => False
  | d + 1, s, a, r, f =>
    ∃ body g, G.rule s = some body ∧ DerWith inst c (DerNT G inst c d) body g ∧
      f = ([Tree.mk (.nt s) a r g.1], g.2)

/-! ### serialised length of a leaf (used by the side condition of C05, `Model/Scan.lean: firstFail`) -/

/-- length of a leaf in eighths of an input unit (`binary`: text is written as UTF-8) -/
def leafLen8 (binary : Bool) : Leaf → Option Nat
  | .text s =>
    if binary then
      match encode .utf8 s with
      | .ok b => some (8 * b.length)
      | .error _ => none
    else some (8 * s.length)
  | .bytes b => some (8 * b.length)
  | .bit _ => some 1

end Enum
end FV
